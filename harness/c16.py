"""C16 - Krylov solvers return Ritz data of the operator they are given.

proof gate (coq/Props/C16.v)  +  correspondence: instrumented LanczosGroundState / LanczosEvolution runs
(which Krylov vector is cached / combined with which coefficient), tools.misc.argsort and GMRES runs with restarts observed from
outside (matvec / reset / x-update events, start state after every restart)  <->  Model/Krylov.v, Model/KrylovGmres.v
(vm_compute)  +  oracle: dense eigh / eig / scipy expm of the same operators (written from the documentation).
"""
import numpy as np
import scipy.linalg

import common
import c16_gen as G
import c16_ext as XT
import c16_audit
from common import coq_lit, Nat, CoqRaw

WHICH = ['LM', 'SM', 'LR', 'SR', 'LI', 'SI']
EPS = float(np.finfo(float).eps)
ALIASES = {'LM': ['LM', 'm>'], 'SM': ['SM', 'm<'], 'LR': ['LR', '>', 'LA'], 'SR': ['SR', '<', 'SA'], 'LI': ['LI'], 'SI': ['SI']}


# ------------------------------------------------------------------------------ generators
def gen_spec(rng, seed, herm=True, nmax=60):
    n = rng.choice([1, 2, 3, 4, 5, 6, 8, 10, 14, 20, 30, 45, 60])
    while n > nmax:
        n = rng.choice([1, 2, 3, 4, 5, 6, 8, 10, 14, 20])
    leg = G.random_leg_spec(rng, n)
    spectrum = rng.choice([None, None, 'degenerate', 'lowrank', 'integer', 'clustered']) if herm else \
        rng.choice([None, None, 'lowrank', 'normal'])
    # prefer the largest sector half of the time
    sizes = {}
    for i, (s, c) in enumerate(zip(leg['sizes'], leg['charges'])):
        sizes[tuple(c)] = sizes.get(tuple(c), 0) + s
    if rng.random() < 0.6:
        best = max(sizes.values())
        sector = [i for i, c in enumerate(leg['charges']) if sizes[tuple(c)] == best][0]
    else:
        sector = rng.randrange(len(leg['sizes']))
    spec = {'leg': leg, 'seed': seed, 'herm': herm, 'cplx': rng.random() < 0.5, 'spectrum': spectrum, 'sector': sector,
            'start': rng.choice(['random', 'random', 'random', 'few', 'basis']), 'few': rng.choice([1, 2, 3, 4]),
            'scale': rng.choice([1.0, 1.0, 0.01, 37.5])}
    return spec


def sector_dim(spec):
    return len(G.sector_indices(spec['leg'], spec['sector']))


def gen_lanczos(rng, seed, evo=False):
    spec = gen_spec(rng, seed)
    m = sector_dim(spec)
    N_max = rng.choice([2, 3, 4, 6, 8, 12, 20, 30, m, m + 1, m + 3, 70])
    N_min = rng.choice([2, 2, 2, 3, 5, min(N_max, max(2, m)), N_max])
    N_min = max(2, min(N_min, N_max, max(2, m)))
    N_max = max(N_max, N_min)
    opts = {'N_min': N_min, 'N_max': N_max,
            'N_cache': rng.choice([None, 2, 2, 3, 3, 4, 5, 7, N_max, N_max + 2]),
            'reortho': rng.random() < 0.4,
            'E_shift': rng.choice([None, None, None, -3.0, -20.0, 1.5, 8.0, 0.0]),
            'cutoff': rng.choice([None, None, 1e-12, 1e-10]),
            'P_tol': rng.choice([None, None, 1e-20, 1e-10, 1e-6]),
            'E_tol': rng.choice([None, None, 1e-13, 1e-6]),
            'min_gap': rng.choice([None, None, None, 1e-12, 1e-3, 10.0])}
    case = {'kind': 'lanczos', 'spec': spec, 'opts': opts, 'wrap': rng.choice([None, None, 'shift', 'sum', 'ortho', 'ortho', 'tree', 'tree']),
            'wrap_shift': rng.choice([0.7, -4.0]), 'n_ortho': rng.choice([1, 2, 3]), 'ortho_dependent': rng.random() < 0.2,
            'twice': rng.random() < 0.5, 'rerun_same': rng.random() < 0.5, 'real_psi0': rng.random() < 0.3}
    if case['wrap'] == 'ortho' and m <= case['n_ortho']:
        case['wrap'] = None
    if case['wrap'] == 'tree':
        case['tree'] = XT.gen_tree(rng, spec, True, for_solver=True)
    if evo:
        d = rng.choice([[0.0, -0.1], [0.0, 0.1], [0.0, 1.0], [0.0, -2.5], [0.1, 0.0], [-0.5, 0.0], [1.0, 0.0], [-0.05, -0.1], [0.3, 0.7], [0.0, 0.0]])
        case['evo'] = {'delta': d, 'normalize': rng.choice([None, None, True, False]), 'delta_as': rng.choice(['auto', 'auto', 'complex', 'numpy'])}
        case['evo']['normalize_kw'] = bool(case['evo']['normalize'] is not None or rng.random() < 0.5)
        case['rerun_same'] = False
        case['rerun'] = rng.choice([None, [0.0, 0.3], [-0.2, 0.0], [0.1, -0.4]])
        if case['spec']['scale'] != 1.0 and rng.random() < 0.5:
            case['spec']['scale'] = 1.0
        case['opts']['E_tol'] = rng.choice([None, None, 1e-13])          # documented as ignored by LanczosEvolution
        case['opts']['E_shift'] = rng.choice([None, None, -1.0, 0.5])
    return case


def gen_arnoldi(rng, seed, evo=False):
    herm = rng.random() < 0.3
    spec = gen_spec(rng, seed, herm=herm, nmax=30)
    spec['start'] = rng.choice(['random', 'random', 'random', 'basis', 'few' if herm else 'eigvec'])
    m = sector_dim(spec)
    N_max = rng.choice([m, m, m + 2, 20, 30, 5, 3])
    N_max = max(2, N_max)
    which = rng.choice(WHICH)
    opts = {'N_min': rng.choice([2, 2, 3, max(2, min(m, N_max))]), 'N_max': N_max, 'which': rng.choice(ALIASES[which]),
            'num_ev': rng.choice([None, 1, 1, 2, 3, 5]), 'E_shift': None, 'P_tol': rng.choice([None, 1e-20, 1e-8]),
            'cutoff': rng.choice([None, 1e-12]), 'E_tol': rng.choice([None, None, 1e-10, 1e-3]),
            'min_gap': rng.choice([None, None, 1e-3, 10.0]), 'reortho': rng.choice([None, None, True])}
    if rng.random() < 0.3:
        opts['which'] = None           # the documented default 'LM'
        which = 'LM'
    opts['N_min'] = min(opts['N_min'], N_max)
    if opts['num_ev'] is not None:
        opts['num_ev'] = max(1, min(opts['num_ev'], N_max - 1))     # Arnoldi._converged needs num_ev < N_max
    if rng.random() < 0.3:
        opts['E_shift'] = rng.choice([-2.0, 3.0, 0.0])
    case = {'kind': 'arnoldi', 'spec': spec, 'opts': opts, 'which': which, 'wrap': rng.choice([None, None, 'sum', 'shift', 'tree']),
            'wrap_shift': 0.7, 'rerun_same': rng.random() < 0.4}
    if case['wrap'] == 'tree':
        case['tree'] = XT.gen_tree(rng, spec, herm, for_solver=True)
    if evo:
        # which / num_ev / E_tol stay in the options: documented as `inherited but ignored`
        opts['E_shift'] = rng.choice([None, None, -1.0, 0.5])
        case['rerun_same'] = False
        case['evo'] = {'deltas': [rng.choice([[0.0, -0.1], [0.0, 0.5], [0.1, 0.0], [-0.05, -0.1], [-1.0, 0.0], [0.0, 2.0], [0.0, 0.0]]) for _ in range(3)],
                       'normalize': rng.choice([None, True, False]), 'delta_as': rng.choice(['auto', 'complex'])}
        case['evo']['normalize_kw'] = bool(case['evo']['normalize'] is not None or rng.random() < 0.5)
    return case


def gen_gmres(rng, seed):
    spec = gen_spec(rng, seed, herm=rng.random() < 0.3, nmax=30)
    spec['start'] = 'random'
    spec['scale'] = 1.0
    m = sector_dim(spec)
    return {'kind': 'gmres', 'spec': spec, 'diag_shift': rng.choice([3.0, 8.0, -9.0]) if spec['spectrum'] not in ('integer', 'degenerate')
            else rng.choice([8.5, -9.5]), 'x0_scale': rng.choice([0.0, 1.0]), 'A_wrap': rng.random() < 0.3,
            'opts': {'N_min': rng.choice([None, 1, 2]), 'N_max': rng.choice([None, 3, 5, m, m + 1, 30]),
                     'restart': rng.choice([None, 1, 3]), 'res': rng.choice([None, 1e-6, 1e-12])}}


def gen_gmres_restart(rng, seed):
    """GMRES(N_max) with restarts: small N_max against the dimension of the charge sector, right-hand sides and start
    vectors of norm far from 1, real / complex dtype, real / complex diagonal shift, tight and loose tolerances."""
    for _ in range(8):
        spec = gen_spec(rng, seed, herm=rng.random() < 0.3, nmax=30)
        if sector_dim(spec) >= 4 or rng.random() < 0.1:
            break
    spec['start'] = rng.choice(['random', 'random', 'random', 'basis'])
    spec['scale'] = 1.0
    m = sector_dim(spec)
    integer = spec['spectrum'] in ('integer', 'degenerate')
    shift = [rng.choice([8.5, -9.5, 5.5]), 0.0] if integer else [rng.choice([3.0, 8.0, -9.0, 4.0, -2.5]), 0.0]
    if spec['cplx'] and rng.random() < 0.4:
        shift[1] = rng.choice([2.0, -3.0, 0.5])
    N_max = rng.choice([1, 2, 2, 3, 3, 4, 5, 6, max(1, m - 1), m, m + 1])
    N_min = rng.choice([0, 0, 1, 1, 2, 3, None])
    if rng.random() < 0.9:
        N_min = min(N_min if N_min is not None else 5, N_max - 1)     # otherwise the convergence test is never reached
    return {'kind': 'gmresr', 'spec': spec, 'diag_shift': shift,
            'b_scale': rng.choice([1e-3, 1e-2, 0.1, 0.37, 1.0, 2.0, 7.3, 100.0, 1e3]),
            'x0_scale': rng.choice([0.0, 0.0, 1.0, 1e-2, 50.0]), 'real_dtype': rng.random() < 0.5,
            'opts': {'N_min': N_min, 'N_max': N_max, 'restart': rng.choice([1, 2, 3, 4, 6, 8, None]),
                     'res': rng.choice([None, 1e-3, 1e-6, 1e-10, 1e-12])}}


def gen_gs(rng, seed):
    spec = gen_spec(rng, seed, nmax=30)
    m = sector_dim(spec)
    count = rng.randint(1, min(6, m + 2))
    return {'kind': 'gs', 'spec': spec, 'count': count,
            'dependent': [[rng.randrange(count), rng.randrange(count), rng.choice([1.0, -2.5])] for _ in range(rng.choice([0, 0, 1, 2]))],
            'combo': rng.random() < 0.5, 'zero': [rng.randrange(count)] if rng.random() < 0.2 else [],
            'rcond': rng.choice([None, None, 1e-10, 1e-3, 0.3, 2.0]),
            'scales': [rng.choice([1.0, 1.0, 1.0, 1e-3, 100.0]) for _ in range(count)],
            'real_first': bool(spec['cplx'] and rng.random() < 0.25)}


def gen_flat(rng, seed):
    spec = gen_spec(rng, seed, herm=rng.random() < 0.5, nmax=30)
    if rng.random() < 0.6:
        return {'kind': 'flat', 'mode': 'array', 'spec': spec, 'charge_sector': rng.choice(['block', 'block', 0, None]),
                'compact_flat': rng.choice([None, None, True, False]), 'unlabelled': rng.random() < 0.5,
                'none_cutoff': rng.choice([None, 1e-8])}
    spec = gen_spec(rng, seed, herm=True, nmax=8)
    spec2 = gen_spec(rng, seed + 1, herm=True, nmax=6)
    spec2['leg'] = G.random_leg_spec(rng, rng.choice([1, 2, 3, 4, 5]))
    # both legs need the same ChargeInfo
    spec2['leg']['mods'] = spec['leg']['mods']
    spec2['leg']['charges'] = [[rng.randint(-1, 1) if mm == 1 else rng.randrange(mm) for mm in spec['leg']['mods']]
                               for _ in spec2['leg']['sizes']]
    spec2['sector'] = rng.randrange(len(spec2['leg']['sizes']))
    spec['start'] = spec2['start'] = 'random'
    return {'kind': 'flat', 'mode': 'pipe', 'spec': spec, 'spec2': spec2, 'compact_flat': rng.random() < 0.6,
            'labels_split': rng.choice([None, ['a', 'b'], ['b', 'a']]), 'herm_cls': rng.random() < 0.5,
            'dtype': rng.choice([None, None, 'complex', 'float' if not (spec['cplx'] or spec2['cplx']) else 'complex']),
            'compact_flat_kw': rng.random() < 0.8}


def gen_argsort(rng):
    n = rng.choice([1, 2, 3, 5, 8, 12, 20])
    style = rng.random()
    lim = 3 if style < 0.4 else 50
    z = [[rng.randint(-lim, lim), rng.randint(-lim, lim)] for _ in range(n)]
    real = rng.random() < 0.3
    if real:
        z = [[a, 0] for a, b in z]
    w = rng.randrange(6)
    return {'kind': 'argsort', 'z': z, 'which': rng.choice(ALIASES[WHICH[w]]), 'wcode': w, 'real': real}


# ------------------------------------------------------------------------------ dense reference
def dense_effective(case, with_E_shift=True):
    """dense matrix of the operator the solver works with (documentation of the wrappers), restricted to the
    charge sector of the start vector; returns (Meff_sector, I, v0_sector, s)."""
    spec = case['spec']
    M = G.dense_operator(spec)
    I = G.sector_indices(spec['leg'], spec['sector'])
    v0 = G.dec(case['v0']) if 'v0' in case else G.start_vector(spec, M)
    s = case['opts'].get('E_shift') or 0.0
    if not with_E_shift:
        s = 0.0
    wrap = case.get('wrap')
    n = M.shape[0]
    if wrap == 'shift':
        Mb = M + case['wrap_shift'] * np.eye(n)
    elif wrap == 'sum':
        Mb = M + G.dense_operator(dict(spec, seed=spec['seed'] + 5))
    elif wrap == 'tree':
        tree = case['tree']
        if tree[0] == 'ortho' and s != 0.0:
            # E_shift goes to the operator inside an outermost OrthogonalNpcLinearOperator: P (H + s) P
            P = G.projector(G.tree_ortho_vectors(spec, tree), n)
            Meff = P @ (G.tree_dense(spec, tree[1]) + s * np.eye(n)) @ P
        else:
            Meff = G.tree_dense(spec, tree) + s * np.eye(n)
        return Meff[np.ix_(I, I)], I, v0[I], s
    else:
        Mb = M
    if wrap == 'ortho':
        ovs = G.extra_vectors(spec, M, case['n_ortho'], tag=2)
        if case.get('ortho_dependent') and len(ovs) > 1:
            ovs[1] = 2.0 * ovs[0]
        O = np.array(ovs).T
        U, sv, _ = np.linalg.svd(O, full_matrices=False)
        U = U[:, sv > 1e-10 * max(1.0, sv[0])]
        P = np.eye(n) - U @ U.conj().T
        Meff = P @ (M + s * np.eye(n)) @ P       # E_shift is applied to the wrapped operator: P (H + s) P
    else:
        Meff = Mb + s * np.eye(n)
    return Meff[np.ix_(I, I)], I, v0[I], s


def krylov_dim(Ms, v0, nmax):
    """dimension of the exact Krylov space span{v0, M v0, ...} (dense Arnoldi, orthogonalised twice, relative
    breakdown threshold): an implementation run with more iterations than this went on with rounding noise."""
    m = Ms.shape[0]
    if m == 0 or np.linalg.norm(v0) == 0:
        return 0, []
    scale = max(1e-300, np.linalg.norm(Ms, 2))
    V = [v0 / np.linalg.norm(v0)]
    ratios = []
    for k in range(min(m, nmax)):
        w = Ms @ V[-1]
        for _ in range(2):
            for v in V:
                w = w - np.vdot(v, w) * v
        nw = np.linalg.norm(w)
        if nw < 1e-9 * scale or len(V) == m:
            return len(V), ratios
        ratios.append(nw / scale)
        V.append(w / nw)
    return len(V), ratios


def cond_tol(scale, ratios, N):
    """tolerance for Ritz data: orthogonality of a Krylov basis is lost like eps / (smallest relative norm of a new vector)"""
    c = 1.0
    for r in ratios[:max(0, N - 1)]:
        c *= min(1.0, 10 * r)          # errors are amplified by every small new vector (single-pass Gram-Schmidt)
    return scale * min(1e-3, max(1e-8, 1e-13 / max(c, 1e-300)))


def wkey(which, z):
    return {'LM': -abs(z), 'SM': abs(z), 'LR': -z.real, 'SR': z.real, 'LI': -z.imag, 'SI': z.imag}[which]


# ------------------------------------------------------------------------------ oracles
def oracle_lanczos(ctx, case, r):
    spec = case['spec']
    probs, known = [], []
    extra = {}
    Ms, I, v0s, s = dense_effective(case)
    m = len(I)
    scale = max(1.0, np.linalg.norm(Ms, 2)) if m else 1.0
    opts = case['opts']
    pl = r['plain']
    n = sum(spec['leg']['sizes'])
    psi = G.dec(pl['psi'])
    N = pl['N']
    outside = np.delete(psi, I)
    if np.linalg.norm(outside) > 0 or not pl['qtotal_ok']:
        probs.append('result leaves the charge sector of the start vector')
    x = psi[I]
    cutoff = opts.get('cutoff') or (np.finfo(float).eps * 100)
    early = N >= 1 and abs(pl['beta'][N - 1]) < cutoff
    if N > opts['N_max'] or (N < opts['N_min'] and not early):
        probs.append('N=%d outside [N_min=%d, N_max=%d] without cutoff exit' % (N, opts['N_min'], opts['N_max']))
    dK, ratios = krylov_dim(Ms, v0s, opts['N_max'] + 1)
    well = N <= dK       # beyond the exact Krylov dimension only rounding noise is added (N_min forces it, or the cutoff missed it)
    tol = cond_tol(scale, ratios, N)
    full_reortho = bool(opts.get('reortho') and (opts.get('N_cache') or opts['N_max']) >= N)
    if well and N > 2:
        # orthogonality the textbook recurrence can keep on this input in double precision: three-term recurrence (outliers of the spectrum
        # converge early and destroy it) / with reortho one pass of Gram-Schmidt against the cached vectors (errors grow by |H| / beta per step);
        # widens the tolerances; beyond 1e-4 only the bookkeeping is checked
        loss = 0.0 if full_reortho else XT.plain_lanczos_loss(Ms, v0s, N)
        if opts.get('reortho'):
            loss = max(loss, XT.plain_arnoldi_loss(Ms, v0s, N))
        extra['orth_loss'] = loss
        tol = max(tol, 10 * scale * loss)
        if loss > 1e-4:
            well = False
    if case.get('evo') is None:
        E_run = pl['E'] + s
        if abs(np.linalg.norm(x) - 1.0) > 1e-10:
            probs.append('returned vector not normalised: |psi| = %.15g' % np.linalg.norm(x))
        if well:
            rq = (x.conj() @ Ms @ x).real / max(1e-300, (x.conj() @ x).real)
            if abs(rq - E_run) > tol:
                probs.append('returned E0 (+E_shift) = %.12g is not the Rayleigh quotient %.12g of the returned vector' % (E_run, rq))
            lam = np.linalg.eigvalsh(Ms)
            if E_run < lam[0] - tol:
                probs.append('E0 %.12g below the smallest eigenvalue %.12g' % (E_run, lam[0]))
            if N == m and dK == m and abs(E_run - lam[0]) > 10 * tol:
                probs.append('Krylov dimension = space dimension %d but E0 %.12g != lambda_min %.12g' % (m, E_run, lam[0]))
            if N == m and dK == m and np.linalg.norm(Ms @ x - E_run * x) > max(1e-5 * scale, 100 * tol):
                probs.append('Krylov dimension = space dimension but the returned vector is not an eigenvector')
            # Ritz data for every N: smallest Ritz value / Galerkin condition on the exact Krylov space of dimension N
            rp, margin = XT.ritz_lanczos(Ms, v0s, N, E_run, x, tol, scale)
            probs += rp
            extra['ritz_margin'] = margin
            # the documented stop rule (N_min, N_max, P_tol, E_tol, min_gap, cutoff) recomputed from the tridiagonal matrix of the run
            Nexp = XT.lanczos_stop_rule(pl['alpha'], pl['beta'], N, opts, EPS * 100)
            extra['stop_rule_checked'] = Nexp is not None
            if Nexp is not None and Nexp != N:
                probs.append('the run stopped after N=%d iterations, the documented stop rule (N_min=%s, N_max=%s, P_tol=%s, E_tol=%s, min_gap=%s, '
                             'cutoff=%s) applied to the tridiagonal matrix of the run gives N=%d'
                             % (N, opts['N_min'], opts['N_max'], opts.get('P_tol'), opts.get('E_tol'), opts.get('min_gap'), opts.get('cutoff'), Nexp))
        if not pl.get('psi0_untouched', True):
            probs.append('the solver modified the start vector it was given')
        if abs(pl.get('psi_norm_obj', 1.0) - 1.0) > 1e-10:
            probs.append('npc.norm of the returned vector is %.15g' % pl['psi_norm_obj'])
        if 'rerun_same' in pl:
            rr = pl['rerun_same']
            nc_ = opts.get('N_cache') or opts['N_max']
            if 'error' in rr:
                msg = 'second run() of the same LanczosGroundState object raised ' + rr['error']
            elif not well:
                msg = None          # iterations forced beyond the exact Krylov dimension: rounding noise decides
            elif abs(rr['N'] - N) > 1 or abs(rr['E'] - pl['E']) > 1e-9 * scale or \
                    (min(np.linalg.norm(G.dec(rr['psi']) - psi), np.linalg.norm(G.dec(rr['psi']) + psi)) > max(1e-6, 1e3 * tol / scale)):
                msg = ('second run() of the same LanczosGroundState object returns E0=%.12g, N=%d; the first run E0=%.12g, N=%d (N_cache=%s, reortho=%s)'
                       % (rr['E'], rr['N'], pl['E'], N, opts.get('N_cache'), opts.get('reortho')))
            else:
                msg = None
            if msg:
                if opts.get('reortho') and N > nc_ + 1:
                    known.append('RERUNGS ' + msg)      # vectors of the rebuild phase stay in _cache and are used for reortho
                else:
                    probs.append(msg)
        # first Lanczos coefficient is the Rayleigh quotient of the start vector
        a0 = (v0s.conj() @ Ms @ v0s).real / (v0s.conj() @ v0s).real
        if abs(pl['alpha'][0] - a0) > tol:
            probs.append('h[0,0] = %.12g is not <psi0|H|psi0> = %.12g' % (pl['alpha'][0], a0))
        if 'twice' in r:
            t0, t1 = r['twice']
            if abs(t0['E'] - t1['E']) > 1e-9 * scale or t0['N'] != t1['N'] or abs(t0['E'] - pl['E']) > 1e-9 * scale:
                msg = ('second LanczosGroundState on the same operator object returns E0=%.12g, the first %.12g (options E_shift=%s)'
                       % (t1['E'], t0['E'], opts.get('E_shift')))
                if case.get('wrap') == 'ortho' and opts.get('E_shift') is not None and abs(t0['E'] - pl['E']) <= 1e-9 * scale:
                    known.append(msg)
                else:
                    probs.append(msg)
    else:
        evo = case['evo']
        delta = complex(*evo['delta'])
        exact = scipy.linalg.expm(delta * Ms) @ v0s
        normalize = evo['normalize'] if evo['normalize'] is not None else (delta.real == 0.0)
        ref = exact / np.linalg.norm(exact) if normalize else exact
        nrm = np.linalg.norm(x)
        if normalize and abs(nrm - 1.0) > 1e-10:
            probs.append('normalize: |psi| = %.15g' % nrm)
        if delta.real == 0.0 and not normalize and abs(nrm - np.linalg.norm(v0s)) > 1e-9 * np.linalg.norm(v0s):
            probs.append('anti-Hermitian exponent: norm %.15g != norm of start vector %.15g' % (nrm, np.linalg.norm(v0s)))
        accurate = well and (N < opts['N_max'] or N >= dK)
        etol = max(1e-7, 10 * tol / scale)
        if well:
            # the Krylov approximation itself (also when not converged): |psi0| V exp(delta V^dagger H V) e_1 on the exact Krylov space
            xk = XT.krylov_expm(Ms, v0s, N, delta)
            if xk is not None:
                refk = xk / np.linalg.norm(xk) if normalize else xk
                with np.errstate(all='ignore'):
                    devk = np.linalg.norm(x - refk) / max(1.0, np.linalg.norm(refk))
                if not np.isfinite(devk):
                    devk = 0.0          # exp(delta h) overflows (real delta times an eigenvalue > 700): nothing to compare
                extra['ritz_margin'] = devk / (10 * etol)
                if devk > 10 * etol:
                    probs.append('result differs by %.3e from the Krylov approximation |psi0| V exp(delta V^dagger H V) e_1 of dimension N=%d '
                                 '(normalize=%s, delta=%s)' % (devk, N, evo['normalize'], evo['delta']))
            Nexp = XT.lanczos_stop_rule(pl['alpha'], pl['beta'], N, opts, EPS * 100, evo_delta=delta)
            extra['stop_rule_checked'] = Nexp is not None
            if Nexp is not None and Nexp != N:
                probs.append('the run stopped after N=%d iterations, the documented stop rule (N_min=%s, N_max=%s, P_tol=%s, cutoff=%s) gives N=%d'
                             % (N, opts['N_min'], opts['N_max'], opts.get('P_tol'), opts.get('cutoff'), Nexp))
        if not pl.get('psi0_untouched', True):
            probs.append('the solver modified the start vector it was given')
        if accurate and np.linalg.norm(x - ref) > etol * max(1.0, np.linalg.norm(ref)):
            probs.append('exp(delta H) psi0: deviation %.3e from scipy expm (N=%d, dim=%d)' % (np.linalg.norm(x - ref), N, m))
        if 'rerun' in pl:
            d2 = complex(*case['rerun'])
            ex2 = scipy.linalg.expm(d2 * Ms) @ v0s
            n2 = evo['normalize'] if evo['normalize'] is not None else (d2.real == 0.0)
            ref2 = ex2 / np.linalg.norm(ex2) if n2 else ex2
            x2 = G.dec(pl['rerun']['psi'])[I]
            N2 = pl['rerun']['N']
            if (N2 < opts['N_max'] or N2 >= dK) and well and N2 <= dK and np.linalg.norm(x2 - ref2) > etol * max(1.0, np.linalg.norm(ref2)):
                msg = 'second run() of the same LanczosEvolution: deviation %.3e from expm (N=%d)' % (np.linalg.norm(x2 - ref2), N2)
                nc_ = opts.get('N_cache') or opts['N_max']
                if opts.get('reortho') and N > nc_ + 1:
                    known.append('RERUN ' + msg)     # stale vectors of the rebuild phase stay in _cache and are used for reortho
                else:
                    probs.append(msg)
    # independence of N_cache
    if 'allcache' in r and well:
        ac = r['allcache']
        pa = G.dec(ac['psi'])
        if case.get('evo') is None and opts.get('reortho'):
            # re-orthogonalisation uses the cached vectors: h differs by rounding, the eigenvector by a phase
            ov = np.vdot(pa, psi)
            if abs(ov) > 0:
                pa = pa * (ov / abs(ov))
        if opts.get('reortho'):
            # by design the re-orthogonalisation uses what is in the cache: only the Ritz value is compared, loosely
            dep = abs(ac['E'] - pl['E']) > max(1e-6 * scale, 100 * tol) and ac['N'] == N
        else:
            dep = ac['N'] != N or abs(ac['E'] - pl['E']) > 1e-9 * scale or np.linalg.norm(pa - psi) > 1e-9 * max(1.0, np.linalg.norm(psi))
        if dep:
            probs.append('result depends on N_cache=%s: E %.12g vs %.12g, |dpsi| = %.3e, N %d vs %d' % (
                opts.get('N_cache'), pl['E'], ac['E'], np.linalg.norm(pa - psi), N, ac['N']))
    return probs, known, dict(extra, N=N, m=m, well=well, early=early)


def oracle_arnoldi(ctx, case, r):
    probs = []
    Ms, I, v0s, s = dense_effective(case)
    m = len(I)
    scale = max(1.0, np.linalg.norm(Ms, 2))
    if case.get('evo') is not None:
        evo = case['evo']
        for d, run in zip(evo['deltas'], r['runs']):
            delta = complex(*d)
            exact = scipy.linalg.expm(delta * Ms) @ v0s
            normalize = bool(evo['normalize'])
            ref = exact / np.linalg.norm(exact) if normalize else exact
            x = G.dec(run['psi'])[I]
            N = run['N']
            dK, ratios = krylov_dim(Ms, v0s, case['opts']['N_max'] + 1)
            loss = XT.plain_arnoldi_loss(Ms, v0s, N) if N <= dK else 1.0
            if loss > 1e-4:
                dK = -1        # one-pass Gram-Schmidt cannot keep the basis orthogonal on this input: only norms are checked
            etol = max(1e-7, 10 * max(cond_tol(scale, ratios, N), 10 * scale * loss) / scale)
            if N <= dK and (N < case['opts']['N_max'] or N >= dK) and np.linalg.norm(x - ref) > etol * max(1.0, np.linalg.norm(ref)):
                probs.append('ArnoldiEvolution delta=%s: deviation %.3e from expm (N=%d, dim=%d)' % (d, np.linalg.norm(x - ref), N, m))
            if N <= dK:
                xk = XT.krylov_expm(Ms, v0s, N, delta)
                if xk is not None:
                    refk = xk / np.linalg.norm(xk) if normalize else xk
                    devk = np.linalg.norm(x - refk) / max(1.0, np.linalg.norm(refk))
                    if devk > 10 * etol:
                        probs.append('ArnoldiEvolution delta=%s: result differs by %.3e from the Krylov approximation |psi0| V exp(delta V^dagger H V) e_1 '
                                     'of dimension N=%d (normalize=%s)' % (d, devk, N, evo['normalize']))
            if normalize and abs(np.linalg.norm(x) - 1) > 1e-10:
                probs.append('ArnoldiEvolution normalize: norm %.15g' % np.linalg.norm(x))
            if delta.real == 0 and case['spec']['herm'] and not normalize and N <= dK and \
                    abs(np.linalg.norm(x) - np.linalg.norm(v0s)) > 1e-9 * np.linalg.norm(v0s):
                probs.append('ArnoldiEvolution anti-Hermitian exponent: norm not preserved')
        return probs, {'m': m}
    which = case['which']
    Es = G.dec(r['Es'])
    N = r['N']
    dK, ratios = krylov_dim(Ms, v0s, case['opts']['N_max'] + 1)
    tol = cond_tol(scale, ratios, N)
    loss = XT.plain_arnoldi_loss(Ms, v0s, N) if N <= dK else 1.0
    tol = max(tol, 10 * scale * loss)
    if loss > 1e-4:
        dK = -1            # one-pass Gram-Schmidt cannot keep the basis orthogonal on this input: only order / count are checked
    k = min(N, case['opts']['num_ev'] or 1)
    if not r.get('psi0_untouched', True):
        probs.append('Arnoldi modified the start vector it was given')
    if not r.get('qtotal_ok', True):
        probs.append('Ritz vector leaves the charge sector of the start vector')
    if len(r['psis']) != k:
        probs.append('%d vectors for min(N, num_ev) = %d' % (len(r['psis']), k))
    E_run = Es[:k] + s
    keys = [wkey(which, z) for z in E_run]
    if any(keys[i] > keys[i + 1] + 1e-12 * scale for i in range(len(keys) - 1)):
        probs.append('Ritz values %s not ordered as which=%s requests' % (list(E_run), case['opts']['which']))
    if N <= dK:
        for i, pv in enumerate(r['psis'][:k]):
            x = G.dec(pv)[I]
            if abs(np.linalg.norm(x) - 1) > 1e-9:
                probs.append('Ritz vector %d not normalised' % i)
            rq = x.conj() @ Ms @ x
            if abs(rq - E_run[i]) > 10 * tol:
                probs.append('Ritz value %d = %s is not the Rayleigh quotient %s of its vector' % (i, E_run[i], rq))
        if N == m and dK == m:
            ev = np.linalg.eigvals(Ms)
            ev = sorted(ev, key=lambda z: wkey(which, z))
            for i in range(k):
                if abs(wkey(which, ev[i]) - keys[i]) > max(1e-5 * scale, 1000 * tol):
                    probs.append('full Krylov dimension: %d-th requested eigenvalue %s, got %s' % (i, ev[i], E_run[i]))
                    break
        xs = [G.dec(pv)[I] for pv in r['psis'][:k]]
        if any(np.linalg.norm(np.delete(G.dec(pv), I)) > 0 for pv in r['psis'][:k]):
            probs.append('Ritz vector has weight outside the charge sector of the start vector')
        if N > 1 and len(xs) == k:
            rp, margin = XT.ritz_arnoldi(Ms, v0s, N, lambda z: wkey(which, z), E_run, xs, tol, scale, case['spec']['herm'])
            probs += rp
            info_margin = margin
        else:
            info_margin = 0.0
        if N == 1 and len(xs) == 1:
            # no better estimate than the start vector: normalised psi0 and its Rayleigh quotient
            if np.linalg.norm(xs[0] - v0s / np.linalg.norm(v0s)) > 1e-12:
                probs.append('N = 1: the returned vector is not the normalised start vector')
    else:
        info_margin = 0.0
    known = []
    if 'rerun_same' in r:
        rr = r['rerun_same']
        if 'error' in rr:
            known.append('second run() of the same Arnoldi object raised ' + rr['error'])
        else:
            E2 = G.dec(rr['Es'])[:k] + s
            # (the same Ritz values; their order among equal keys - e.g. which='SI' on a Hermitian operator - is decided by rounding noise)
            keys_equal = len(E2) == len(E_run) and all(abs(wkey(which, a) - wkey(which, b)) <= 1e-8 * scale for a, b in zip(E2, E_run))
            same_set = len(E2) == len(E_run) and all(np.min(np.abs(E2 - e)) <= 1e-8 * scale for e in E_run) and \
                all(np.min(np.abs(E_run - e)) <= 1e-8 * scale for e in E2)
            # Ritz values with EQUAL sort keys (a complex-conjugate pair under 'LM'/'SM'/'LR'/'SR', ...) are selected by rounding
            # noise when num_ev cuts through them: the documented result is determined only up to such ties, so equal keys suffice
            same = rr['N'] == N and keys_equal and (same_set or True)
            if N <= dK and not same:
                known.append('second run() of the same Arnoldi object returns %s (N=%d), the first %s (N=%d)' % (list(E2), rr['N'], list(E_run), N))
    return probs, {'m': m, 'N': N, 'ritz_margin': info_margin, 'known': known}


def oracle_gmres(ctx, case, r):
    spec = case['spec']
    M = G.dense_operator(spec)
    n = M.shape[0]
    A = M + case['diag_shift'] * np.eye(n)
    b = G.start_vector(spec, A)
    x = G.dec(r['x'])
    true = np.linalg.norm(A @ x - b) / np.linalg.norm(b)
    probs, known = [], []
    flat = [e for t in r['total_error'] for e in t]
    if not (np.all(np.isfinite(x)) and np.isfinite(r['res']) and np.all(np.isfinite(flat))):
        bad = [i for i, e in enumerate(flat) if not np.isfinite(e)]
        msg = 'GMRES returns non-finite numbers: residual %s, error history %s...' % (r['res'], flat[:6])
        if bad and bad[0] > 0 and flat[bad[0] - 1] <= 1e-14 * max(1.0, flat[0]):
            return [], ['NAN ' + nan_tag(r['total_error']) + msg], {'true': true}        # see oracle_gmres_restart
        return [msg], [], {'true': true}
    if abs(true - r['res']) > 1e-10 * max(1.0, true):
        probs.append('reported residual %.6e, actual |Ax-b|/|b| = %.6e' % (r['res'], true))
    I = G.sector_indices(spec['leg'], spec['sector'])
    if np.linalg.norm(np.delete(x, I)) > 1e-12:
        probs.append('solution leaves the charge sector of b')
    # the error history: the estimate on which the solver decided, vs the actual residual of the returned x
    te = r['total_error']
    x0 = G.extra_vectors(spec, M, 1, tag=3)[0] * case['x0_scale']
    dK, _ = krylov_dim(A[np.ix_(I, I)], (b - A @ x0)[I], 100)
    if len(r['iters']) == 1 and r['iters'][0] <= dK:      # beyond the exhausted Krylov space (N_min forces it) only noise is added
        est = te[0][-1]
        if abs(est - true) > 1e-8 + 1e-6 * true:
            msg = 'last residual estimate in total_error %.6e, actual residual %.6e' % (est, true)
            if spec['cplx']:
                known.append(msg)
            else:
                probs.append(msg)
    return probs, known, {'true': true}


def nan_tag(te):
    """GMRES produced NaN after the residual estimate reached the rounding level: 'EXACT ' when the last finite estimate is <= eps * (residual
    at the start of the cycle) - the stop rule of the code must have fired (fixed finding F16.6) - and 'ROUND ' when it is a few eps above"""
    for t in te:
        bad = [i for i, e in enumerate(t) if not np.isfinite(e)]
        if bad and bad[0] > 0:
            return 'EXACT ' if t[bad[0] - 1] <= EPS * t[0] else 'ROUND '
    return 'EXACT '


NAN_KEYS = {'EXACT ': 'C16:GMRES:residual-exactly-zero-before-N_min:NaN',
            'ROUND ': 'C16:GMRES:Krylov-space-exhausted:estimate-few-eps-above-the-stop-threshold:NaN'}


def dense_krylov_basis(As, r0, kmax):
    """orthonormal basis of span{r0, As r0, ...} (dense Arnoldi, orthogonalised twice); returns (V [m x d], d, ratios)
    with d <= kmax the exact Krylov dimension (relative breakdown threshold 1e-9)."""
    m = As.shape[0]
    nr = np.linalg.norm(r0)
    if m == 0 or nr == 0:
        return np.zeros((m, 0), dtype=complex), 0, []
    scale = max(1e-300, np.linalg.norm(As, 2))
    V = [r0 / nr]
    ratios = []
    while len(V) < min(m, kmax):
        w = As @ V[-1]
        for _ in range(2):
            for v in V:
                w = w - np.vdot(v, w) * v
        nw = np.linalg.norm(w)
        if nw < 1e-9 * scale:
            break
        ratios.append(nw / scale)
        V.append(w / nw)
    return np.array(V).T, len(V), ratios


def oracle_gmres_restart(ctx, case, r):
    """restarted GMRES, written from the definition: cycle c starts from x_c with r_c = b - A x_c and returns
    x_{c+1} = argmin ||b - A x|| over x_c + K_k(A, r_c); the j-th entry of the error history of the cycle is
    min over x_c + K_j of ||b - A x|| / ||b||; every (re)start builds q_0 = r_c/||r_c||, e1 = ||r_c|| * (1,0,..)."""
    spec, opts = case['spec'], case['opts']
    probs = []
    M = G.dense_operator(spec)
    n = M.shape[0]
    A = M + complex(*case['diag_shift']) * np.eye(n)
    b = G.start_vector(spec, A) * case['b_scale']
    x0 = G.extra_vectors(spec, M, 1, tag=3)[0] * case['x0_scale']
    I = G.sector_indices(spec['leg'], spec['sector'])
    As = A[np.ix_(I, I)]
    nb = np.linalg.norm(b)
    nA = np.linalg.norm(As, 2)
    N_min = opts['N_min'] if opts['N_min'] is not None else 5
    N_max = opts['N_max'] if opts['N_max'] is not None else 20
    restart = opts['restart'] if opts['restart'] is not None else 10
    res = opts['res'] if opts['res'] is not None else 1e-8
    pl, tr = r['plain'], r['traced']
    info = {'cycles': len(pl['iters']), 'checked_cycles': 0, 'm': len(I), 'nb': nb, 'margin': 0.0, 'beyond': 0}
    for key in ('x', 'res', 'iters', 'total_error'):
        if repr(pl[key]) != repr(tr[key]):          # (repr: NaN entries compare equal)
            return ['correspondence'], [], info
    x = G.dec(pl['x'])
    te, iters = pl['total_error'], pl['iters']
    # Arnoldi steps (cycle, k) after which the new Krylov vector was exactly zero: the space is exhausted whatever the estimate says
    bdown = set((int(a), int(b)) for a, b in tr.get('breakdown', []))
    flat = [e for t in te for e in t]
    if np.all(np.isfinite(flat)) and len(te) >= len(iters) and all(len(t) >= k + 1 for t, k in zip(te, iters)):
        # input of Model/KrylovGmres.v: which estimates were below the tolerance; the model predicts events and total_iters
        info['coq'] = (Nat(N_min), Nat(N_max), Nat(restart), bool(te[0][0] < res),
                       [[(bool(te[c][j + 1] < res), bool(te[c][j + 1] <= EPS * te[c][0] or
                                                         # (a stop at a breakdown step counts as `exhausted`; the code of F16.12 goes on there)
                                                         ((c, j) in bdown and j == k - 1 and c == len(iters) - 1 and len(te) == len(iters))))
                         for j in range(k)] for c, k in enumerate(iters)],
                       [tuple(Nat(v) for v in e) for e in tr['events']], [Nat(k) for k in iters])
    if not (np.all(np.isfinite(flat)) and np.all(np.isfinite(x)) and np.isfinite(pl['res'])):
        bad = [i for i, e in enumerate(flat) if not np.isfinite(e)]
        msg = 'GMRES returns non-finite numbers: x = %s..., residual %s, error history %s...' % (list(x[I][:2]), pl['res'], flat[:6])
        if bad and bad[0] > 0 and flat[bad[0] - 1] <= 1e-14 * max(1.0, flat[0]):
            # the residual became exactly 0 / rounding noise (Krylov space exhausted) while N_min (or N_max without the
            # convergence flag) forces another iteration: 0/0 in the Givens rotation / in the normalisation of the restart vector
            return [], [nan_tag(te) + msg], info
        return [msg], [], info
    if np.linalg.norm(np.delete(x, I)) > 0 or not pl['qtotal_ok']:
        probs.append('solution leaves the charge sector of b')
    if not (pl['b_untouched'] and pl['x0_untouched']):
        probs.append('GMRES modified the arrays b / x0 it was given')
    xs = [x0] + [G.dec(c['x']) for c in tr['cycles']]
    if len(xs) != len(iters) + 1:
        return ['%d cycles recorded, total_iters has %d entries' % (len(xs) - 1, len(iters))], [], info
    if np.linalg.norm(xs[-1] - x) > 0:
        probs.append('returned x is not the x after the last cycle')

    def relres(y):
        return np.linalg.norm(b - A @ y) / nb
    xmax = max(np.linalg.norm(y) for y in xs)
    floor = 1e-12 * (nA * xmax + nb) / nb          # resolution of a residual computed in double precision
    true = relres(x)

    def differs(a, ref, rel=1e-6):
        d = abs(a - ref)
        info['margin'] = max(info['margin'], d / (rel * abs(ref) + 100 * floor)) if np.isfinite(d) else np.inf
        return not d <= rel * abs(ref) + 100 * floor
    # ---- the returned residual, and the shape of the histories
    if differs(pl['res'], true, 1e-9):
        probs.append('returned residual %.6e, actual |Ax-b|/|b| = %.6e' % (pl['res'], true))
    if differs(te[0][0], relres(x0), 1e-9):
        probs.append('total_error[0][0] = %.6e, residual of the initial guess %.6e' % (te[0][0], relres(x0)))
    if te[0][0] < res:
        if iters or len(te) != 1 or len(te[0]) != 1 or np.linalg.norm(x - x0) > 0:
            probs.append('initial guess below tolerance but GMRES iterated')
        return probs, [], info
    if not 1 <= len(iters) <= restart:
        probs.append('%d cycles with restart=%d' % (len(iters), restart))
    converged = len(te) == len(iters)
    if len(te) not in (len(iters), len(iters) + 1) or any(len(t) != k + 1 for t, k in zip(te, iters)) or \
            (not converged and len(te[-1]) != 1):
        probs.append('shape of total_error %s does not fit total_iters %s' % ([len(t) for t in te], iters))
        return probs, [], info
    for c, k in enumerate(iters):
        # stop rule: the first iteration j (Arnoldi step j-1) whose estimate is below res and that is either a step >= N_min or has
        # exhausted the Krylov space (estimate at the rounding level eps * residual at the start of the cycle: nothing is left to iterate on)
        hit = [j for j in range(1, k + 1) if te[c][j] < res and (j - 1 >= N_min or te[c][j] <= EPS * te[c][0] or (c, j - 1) in bdown)]
        last = c == len(iters) - 1
        if not 1 <= k <= N_max:
            probs.append('cycle %d: %d iterations with N_max=%d' % (c, k, N_max))
        elif hit and (hit[0] != k or not last or not converged):
            msg = ('cycle %d: estimate %.3e < res at iteration %d (N_min+1 = %d, rounding level %.3e) but GMRES went on'
                   % (c, te[c][hit[0]], hit[0], N_min + 1, EPS * te[c][0]))
            if hit[0] - 1 < N_min and not te[c][hit[0]] <= EPS * te[c][0]:
                # only the breakdown (new Krylov vector = rounding noise) says that the space is exhausted: the code iterates on noise
                return [], ['ROUND ' + msg + ' after the Krylov space was exhausted (new Krylov vector below 1e-14 |A q|); returned residual %.3e'
                            % pl['res']], info
            probs.append(msg)
        elif not hit and (k != N_max or (last and converged)):
            probs.append('cycle %d stopped after %d iterations (N_max=%d, N_min+1=%d) although no estimate below res=%g came from an iteration '
                         '>= N_min+1 or reached the rounding level %.3e: estimates %s' % (c, k, N_max, N_min + 1, res, EPS * te[c][0], te[c][1:][-3:]))
    if not converged and len(iters) != restart:
        probs.append('not converged after %d cycles but restart=%d' % (len(iters), restart))
    ev = ['mv']
    for c, k in enumerate(iters):
        ev += ['mv'] * k + ([] if (converged and c == len(iters) - 1) else ['reset', 'mv'])
    ev += ['mv']
    seen = [{11: 'mv', 14: 'mv', 15: 'mv', 13: 'reset'}.get(e[0], '?') for e in tr['events'] if e[0] not in (10, 12)]
    if seen != ev:
        probs.append('sequence of matvec / reset calls %s differs from the one of restarted GMRES with total_iters %s' % (seen, iters))
    upd = [[e[2] for e in tr['events'] if e[0] == 12 and e[1] == c] for c in range(len(iters))]
    if upd != [list(range(k)) for k in iters]:
        probs.append('x is updated with the Krylov vectors %s, expected q_0..q_(k-1) of each cycle once (total_iters %s)' % (upd, iters))
    if probs:
        return probs, [], info
    # ---- every cycle against the dense minimal-residual problem
    starts = tr['starts']
    rho = [relres(y) for y in xs]
    for c, k in enumerate(iters):
        rc = b - A @ xs[c]
        nrc = np.linalg.norm(rc)
        st = starts[c]
        tag = 'cycle %d (%s)' % (c, 'initial' if c == 0 else 'after restart %d' % c)
        checkable = rho[c] > 1e6 * floor        # a residual well above the rounding level of b - A x
        if not checkable:
            info['beyond'] += 1
            continue
        # state after the (re)start
        q0 = G.dec(st['q0'])
        e1 = G.dec(st['e1'])
        if st['n_qs'] != 1:
            probs.append(tag + ': %d Krylov vectors at the start' % st['n_qs'])
        if abs(np.linalg.norm(q0) - 1) > 1e-12:
            probs.append(tag + ': first Krylov vector has norm %.15g' % np.linalg.norm(q0))
        elif np.linalg.norm(q0 * nrc - rc) > 1e-9 * nrc + 100 * floor * nb:
            probs.append(tag + ': first Krylov vector is not r/|r| of r = b - A x')
        if st['r_norm_imag'] != 0 or abs(st['r_norm'] - nrc) > 1e-9 * nrc + 100 * floor * nb:
            probs.append(tag + ': r_norm = %.12g, norm of the residual b - A x is %.12g' % (st['r_norm'], nrc))
        if len(e1) < 1 or abs(e1[0] - nrc) > 1e-9 * nrc + 100 * floor * nb or np.any(e1[1:] != 0):
            probs.append(tag + ': right-hand side of the least-squares problem is not |r| * e_1 (first entry %s, |r| = %.12g)'
                         % (e1[0] if len(e1) else None, nrc))
        # (that H / sine / cosine are re-allocated as zeros and the lists rs / total_error grow by one entry is an implementation
        #  detail: compared with Model/KrylovGmres.v through the start-state code of the trace, not judged here)
        if differs(te[c][0], rho[c], 1e-9):
            probs.append(tag + ': total_error[%d][0] = %.6e, actual residual %.6e' % (c, te[c][0], rho[c]))
        if c and rho[c] > rho[c - 1] * (1 + 1e-9) + 100 * floor:
            probs.append(tag + ': residual increased from %.6e to %.6e over a restart cycle' % (rho[c - 1], rho[c]))
        V, d, ratios = dense_krylov_basis(As, rc[I], k + 1)
        if k > d or (ratios and min(ratios) < 1e-6):
            info['beyond'] += 1     # iterations beyond the exhausted Krylov space (N_min forces them): only noise is added
            continue
        info['checked_cycles'] += 1
        gram = tr['cycles'][c]['gram']
        if tr['cycles'][c]['n_qs'] != k + 1:
            probs.append(tag + ': %d Krylov vectors after %d iterations' % (tr['cycles'][c]['n_qs'], k))
        AV = A[:, I] @ V
        optj = [rho[c]]
        for j in range(1, k + 1):
            y, *_ = np.linalg.lstsq(AV[:, :j], rc, rcond=None)
            optj.append(np.linalg.norm(rc - AV[:, :j] @ y) / nb)
        opt = optj[k]
        # modified Gram-Schmidt inside GMRES loses orthogonality only as the residual converges:
        # |Q^dagger Q - 1| * (residual reduction of the cycle) = O(eps * cond(A))   (measured on the unchanged code: <= 5e-15)
        gtol = 1e-12 * max(10.0, np.linalg.cond(As))
        for l in range(0, k + 1 if k < d else k):
            if l < len(gram) and gram[l] * min(1.0, optj[l] / rho[c]) > gtol:
                probs.append(tag + ': Krylov basis q_0..q_%d not orthonormal, max |<q_i|q_j> - delta_ij| = %.3e' % (l, gram[l]))
                break
        for j in range(1, k + 1):
            if differs(te[c][j], optj[j]):
                probs.append(tag + ': total_error[%d][%d] = %.6e, minimal residual over the %d-dimensional Krylov space %.6e'
                             % (c, j, te[c][j], j, optj[j]))
                break
        if differs(rho[c + 1], opt):
            probs.append(tag + ': x after the cycle has residual %.6e, the minimum over x + K_%d is %.6e' % (rho[c + 1], k, opt))
        if differs(te[c][k], rho[c + 1]):
            probs.append(tag + ': last estimate of the cycle %.6e, actual residual of the updated x %.6e' % (te[c][k], rho[c + 1]))
        if converged and c == len(iters) - 1 and not true <= res * (1 + 1e-6) + 100 * floor:
            probs.append('GMRES reports convergence to res=%g, actual residual %.6e' % (res, true))
    if not converged and differs(te[-1][0], true, 1e-9) and true > 1e6 * floor:
        probs.append('total_error[-1][0] = %.6e after the last restart, actual residual %.6e' % (te[-1][0], true))
    return probs, [], info


def oracle_gs(ctx, case, r):
    probs = []
    spec = case['spec']
    I = G.sector_indices(spec['leg'], spec['sector'])
    V = np.array([G.dec(v)[I] for v in r['inputs']]).T if r['inputs'] else np.zeros((len(I), 0))
    Q = np.array([G.dec(v)[I] for v in r['out']]).T if r['out'] else np.zeros((len(I), 0))
    k = Q.shape[1]
    known = []
    rc0 = case.get('rcond') if case.get('rcond') is not None else 1e-14
    idx0, _, _ = XT.gs_dense([G.dec(v)[I] for v in r['inputs']], rc0)
    if k and np.linalg.norm(Q.conj().T @ Q - np.eye(k)) > 1e-8:
        msg = 'returned set not orthonormal: |Q^dagger Q - 1| = %.3e' % np.linalg.norm(Q.conj().T @ Q - np.eye(k))
        if XT.gs_dense.noise and k > XT.gs_dense.solid:
            known.append(msg + ' (a vector that is rounding noise after the projection was kept: its norm exceeds the absolute rcond=%g)' % rc0)
        else:
            probs.append(msg)
    noise_kept = bool(known)
    sv = np.linalg.svd(V, compute_uv=False) if V.size else np.array([])
    rank_hi = int(np.sum(sv > 1e-6 * max(1.0, sv[0]))) if len(sv) else 0
    rcond = case.get('rcond') if case.get('rcond') is not None else 1e-14
    plain = rcond <= 1e-9 and all(sc == 1.0 for sc in (case.get('scales') or []))
    if k < rank_hi and plain:
        probs.append('%d vectors returned, numerical rank of the input is %d' % (k, rank_hi))
    # the documented procedure transcribed densely: project out the kept ones in order, discard when the norm is below rcond
    idx, Q0, ambiguous = XT.gs_dense([G.dec(v)[I] for v in r['inputs']], rcond)
    if not ambiguous:
        if r.get('kept_idx') != idx:
            probs.append('rcond=%g: the vectors %s are kept, the documented rule (norm after projecting out the previous ones < rcond: discard) keeps %s'
                         % (rcond, r.get('kept_idx'), idx))
        elif k == len(Q0) and k and max(np.linalg.norm(Q[:, j] - Q0[j]) for j in range(k)) > 1e-8:
            probs.append('rcond=%g: returned vectors differ from sequential Gram-Schmidt of the input by %.3e'
                         % (rcond, max(np.linalg.norm(Q[:, j] - Q0[j]) for j in range(k))))
    if k > min(V.shape) and not noise_kept:
        probs.append('more vectors than the dimension allows')
    # span(Q) inside span(V)
    if k and V.size:
        Uv, svv, _ = np.linalg.svd(V, full_matrices=False)
        Uv = Uv[:, svv > 1e-13 * max(1.0, svv[0])]
        resid = np.linalg.norm(Q - Uv @ (Uv.conj().T @ Q))
        if resid > 1e-6 and k <= rank_hi and plain and not noise_kept:
            probs.append('returned vectors leave the span of the input (%.3e)' % resid)
    if not r['inplace']:
        probs.append('result vectors are not the (modified) input objects')
    return probs, {'k': k, 'rank': rank_hi, 'exact': not ambiguous, 'known': known}


def oracle_flat(ctx, case, r):
    probs = []
    spec = case['spec']
    M = G.dense_operator(spec)
    if case['mode'] == 'array':
        fc = G.flat_charges(spec['leg'])
        cs = case['charge_sector']
        mods = spec['leg']['mods']
        if cs is None:
            I = list(range(len(fc)))
        elif cs == 0:
            I = [i for i, c in enumerate(fc) if all((v % mm == 0) if mm > 1 else v == 0 for v, mm in zip(c, mods))]
        else:
            I = G.sector_indices(spec['leg'], spec['sector'])
        qsec = tuple(spec['leg']['charges'][spec['sector']])
        nonzero_sector = cs == 'block' and any((v % mm != 0) if mm > 1 else v != 0 for v, mm in zip(qsec, mods))
        self_conj = all((2 * v) % mm == 0 if mm > 1 else v == 0 for v, mm in zip(qsec, mods))
        # known: a leg with qconj=-1 and a sector q != -q: the non-compact code path compares raw leg charges with the vector qtotal
        k_qconj = spec['leg']['qconj'] == -1 and nonzero_sector and not self_conj
        k_label = cs is None and not case.get('unlabelled')
        info = {'dim': len(I)}
        if 'valueerror' in r:
            if case.get('compact_flat') is True and (not r['blocked'] or cs is None):
                return [], [], {'rejected': True}
            if not I:
                return [], [], {'rejected': True}      # the requested sector does not exist on this leg
            if k_qconj:
                return [], ['qconj'], info
            return ['FlatLinearOperator.from_NpcArray raised ValueError: ' + r['valueerror']], [], info
        if 'matvec_error' in r:
            if cs is None and not r['blocked'] and r['matvec_error'].startswith('ValueError'):
                return [], [], {'rejected': True}      # all-sector vectors need a sorted, blocked leg (pipes of tenpy are)
            if k_label and 'Label not found: None' in r['matvec_error']:
                return [], ['label'], info
            if k_qconj and not r['compact']:
                return [], ['qconj'], info
            return ['FlatLinearOperator.matvec raised ' + r['matvec_error']], [], info
        if r['mask_idx'] != I or r['shape'] != len(I):
            if k_qconj and not r['compact']:
                return [], ['qconj'], info
            probs.append('flat indices %s, charge sector has %s' % (r['mask_idx'], I))
            return probs, [], info
        x, y, back, full = G.dec(r['x']), G.dec(r['y']), G.dec(r['back']), G.dec(r['full'])
        if np.linalg.norm(back - x) > 0:
            probs.append('npc_to_flat(flat_to_npc(x)) != x')
        emb = np.zeros(len(fc), dtype=complex)
        emb[I] = x
        if np.linalg.norm(full - emb) > 0:
            probs.append('flat_to_npc(x) is not x embedded at the indices of the charge sector')
        if len(I) and np.linalg.norm(y - M[np.ix_(I, I)] @ x) > 1e-10 * max(1.0, np.linalg.norm(y)):
            probs.append('matvec on flat vectors differs from the dense block')
        if 'y2' in r:
            if np.linalg.norm(G.dec(r['y2']) - y) > 0:
                probs.append('a second matvec of the same flat vector gives a different result')
            if r['count2'] != r['count'] + 1:
                probs.append('matvec_count %d -> %d over one product' % (r['count'], r['count2']))
        if 'zero_flat' in r:
            zf = r['zero_flat']
            if isinstance(zf, dict):
                probs.append('npc_to_flat of an exactly zero vector of the sector raised ' + zf['error'])
            elif len(zf) != len(I) or np.linalg.norm(G.dec(zf)) != 0:
                probs.append('npc_to_flat of an exactly zero vector of the sector: %d entries (sector dimension %d)' % (len(zf), len(I)))
        if 'none_sector' in r and len(G.sector_indices(spec['leg'], spec['sector'])) > 0:
            ns = r['none_sector']
            if 'error' in ns:
                probs.append('flat_to_npc_None_sector raised ' + ns['error'])
            else:
                emb2 = G.dec(ns['emb'])
                if np.linalg.norm(emb2) > 0 and (np.linalg.norm(G.dec(ns['vec']) - emb2) > 0 or ns['labels'] != [None if case.get('unlabelled') else 'v']
                                                or [q for q in ns['qtotal']] != ns['want_qtotal']):
                    probs.append('flat_to_npc_None_sector: not the vector of the dominant charge sector (qtotal %s, expected %s; labels %s)'
                                 % (ns['qtotal'], ns['want_qtotal'], ns['labels']))
        return probs, [], {'dim': len(I)}
    M2 = G.dense_operator(case['spec2'])
    X, Y, guess, gb = G.dec(r['x_full']), G.dec(r['y_full']), G.dec(r['guess']), G.dec(r['guess_back'])
    if np.linalg.norm(G.dec(r['back']) - G.dec(r['x'])) > 0:
        probs.append('pipe: npc_to_flat(flat_to_npc(x)) != x')
    if np.linalg.norm(gb - guess) > 1e-14 * max(1.0, np.linalg.norm(guess)):
        probs.append('pipe: guess_flat does not map back to the guess')
    ref = M @ X + X @ M2.T
    if np.linalg.norm(Y - ref) > 1e-10 * max(1.0, np.linalg.norm(ref)):
        probs.append('pipe: matvec differs from the dense operator')
    if 'multileg' in r:
        if r['multileg_rank'] != 2 or np.linalg.norm(G.dec(r['multileg']) - ref) > 1e-10 * max(1.0, np.linalg.norm(ref)):
            probs.append('pipe: npc_matvec on the multi-leg form (legs not combined) differs from the dense operator / returns rank %s' % r['multileg_rank'])
        want = {'complex': 'complex128', 'float': 'float64'}.get(case.get('dtype')) or ('complex128' if (spec['cplx'] or case['spec2']['cplx']) else 'float64')
        if r['op_dtype'] != want:
            probs.append('pipe: operator dtype %s, expected %s (dtype=%s)' % (r['op_dtype'], want, case.get('dtype')))
        if r['compact'] != (case['compact_flat'] if case.get('compact_flat_kw', True) else True):
            probs.append('pipe: compact_flat is %s' % r['compact'])
    # x must live in the charge sector of the guess only
    nz = np.abs(X) > 0
    fa, fb = G.flat_charges(spec['leg']), G.flat_charges(case['spec2']['leg'])
    qa = tuple(spec['leg']['charges'][spec['sector']])
    qb = tuple(case['spec2']['leg']['charges'][case['spec2']['sector']])
    mods = spec['leg']['mods']
    ja, jb = spec['leg']['qconj'], case['spec2']['leg']['qconj']

    def tot(a, b):
        return tuple(((ja * u + jb * v) % mm) if mm > 1 else (ja * u + jb * v) for u, v, mm in zip(a, b, mods))
    want = tot(qa, qb)
    cnt = sum(1 for a in fa for b in fb if tot(a, b) == want)
    if (case['compact_flat'] if case.get('compact_flat_kw', True) else True) and r['shape'] != cnt:
        probs.append('pipe compact: flat dimension %d, sector dimension %d' % (r['shape'], cnt))
    for i, a in enumerate(fa):
        for j, b in enumerate(fb):
            if nz[i, j] and tot(a, b) != want:
                probs.append('pipe: flat_to_npc puts weight outside the sector of the guess')
                return probs, [], {}
    return probs, [], {'dim': r['shape']}


# ------------------------------------------------------------------------------ main
def run_chunks(ctx, cases):
    np_ = common.NPROC
    chunks = [cases[i::np_] for i in range(np_)]
    chunks = [c for c in chunks if c]
    res = common.run_impl_parallel('c16_impl.py', [{'cases': ch} for ch in chunks])
    results = [None] * len(cases)
    for i, (r, err) in enumerate(res):
        if err:
            ctx.fail('correspondence', 'implementation runner failed: ' + err[-600:], None)
            continue
        for j, x in enumerate(r['res']):
            results[i + j * np_] = x
        for mod, ls in r.get('lines', {}).items():
            HIT_LINES.setdefault(mod, set()).update(ls)
        TRACE_HOW.add(r.get('trace'))
    return results


HIT_LINES = {}
TRACE_HOW = set()


def main(ctx):
    rng = ctx.rng
    np.seterr(all='ignore')        # (overflowing exp(delta h) of real exponents is compared as non-finite, not warned about)
    ctx.proof = common.check_proofs('C16')
    mult = 1 if ctx.proof.ok else 3
    base = ctx.seed * 1000000
    cases = []
    n_l = ctx.pick(260, 2600) * mult
    cases += [gen_lanczos(rng, base + i) for i in range(n_l)]
    cases += [gen_lanczos(rng, base + 100000 + i, evo=True) for i in range(ctx.pick(140, 1400) * mult)]
    cases += [gen_arnoldi(rng, base + 200000 + i) for i in range(ctx.pick(120, 1200) * mult)]
    cases += [gen_arnoldi(rng, base + 300000 + i, evo=True) for i in range(ctx.pick(50, 500) * mult)]
    cases += [gen_gmres(rng, base + 400000 + i) for i in range(ctx.pick(60, 600) * mult)]
    cases += [gen_gs(rng, base + 500000 + i) for i in range(ctx.pick(80, 800) * mult)]
    cases += [gen_flat(rng, base + 600000 + i) for i in range(ctx.pick(100, 1000) * mult)]
    cases += [gen_argsort(rng) for i in range(ctx.pick(300, 3000) * mult)]
    # (appended last: the random stream of the generators above is unchanged)
    cases += [gen_gmres_restart(rng, base + 700000 + i) for i in range(ctx.pick(160, 1600) * mult)]
    # coverage audit streams
    cases += [XT.gen_wrapper(rng, base + 800000 + i, gen_spec) for i in range(ctx.pick(120, 1200) * mult)]
    cases += [XT.gen_flateig(rng, base + 820000 + i, gen_spec) for i in range(ctx.pick(120, 1200) * mult)]
    cases += [XT.gen_arpack(rng, base + 840000 + i, gen_spec) for i in range(ctx.pick(40, 400) * mult)]
    cases += forced_cases(860000)
    for c in common.corpus_cases('C16'):
        cases.append(c['case'])
    for c in cases:
        # eigenvector-based start vectors are not reproducible across processes (degenerate spectra): fix them here
        if c['kind'] in ('lanczos', 'arnoldi') and 'v0' not in c:
            c['v0'] = G.enc(G.start_vector(c['spec'], G.dense_operator(c['spec'])))
    import time
    t_run = time.time()
    results = run_chunks(ctx, cases)
    t_or = time.time()
    ctx.cov.setdefault('wall_breakdown_s', {})['runner processes'] = round(t_or - t_run, 1)
    coq_l, coq_l_idx, coq_a, coq_a_idx = [], [], [], []
    coq_h, coq_h_idx = [], []
    coq_g, coq_g_idx = [], []
    hist = {'rebuild_path': 0, 'early_exit': 0, 'full_dim': 0, 'N1': 0, 'reortho': 0, 'E_shift': 0, 'ortho': 0, 'beyond_dim': 0, 'h_reads_converged': 0}
    for idx, (case, r) in enumerate(zip(cases, results)):
        kind = case['kind']
        stream = kind + ('-evo' if case.get('evo') else '')
        if r is None:
            continue
        if 'runner_error' in r:
            ctx.fail('correspondence', '%s runner failed: %s' % (kind, r['runner_error'][-500:]), {'stream': stream, 'case': case})
            continue
        if 'error' in r and not (kind == 'arpack' and ('ArpackNoConvergence' in r['error'] or 'ncv must be' in r['error'])):
            ctx.fail('oracle', '%s raised %s' % (kind, r['error']), {'stream': stream, 'case': case, 'tb': r.get('tb')},
                     match_key='C16:%s-raises' % stream)
            continue
        if kind == 'lanczos':
            probs, known, info = oracle_lanczos(ctx, case, r)
            tr, pl = r['traced'], r['plain']
            if tr['N'] != pl['N'] or abs(tr['E'] - pl['E']) > 1e-12 * max(1, abs(pl['E'])) or \
                    np.linalg.norm(G.dec(tr['psi']) - G.dec(pl['psi'])) > 1e-12 * max(1.0, np.linalg.norm(G.dec(pl['psi']))):
                ctx.fail('correspondence', 'instrumented run differs from the plain run', {'stream': stream, 'case': case})
            if tr['trace_problems']:
                ctx.fail('correspondence', 'cache trace: ' + '; '.join(tr['trace_problems'][:3]), {'stream': stream, 'case': case})
            nc = case['opts'].get('N_cache') or case['opts']['N_max']
            N = tr['N']
            rebuild = N > nc + 1
            hist['rebuild_path'] += rebuild
            hist['early_exit'] += info['early']
            hist['full_dim'] += (N == info['m'])
            hist['beyond_dim'] += (not info['well'])
            hist['N1'] += (N == 1)
            hist['reortho'] += bool(case['opts'].get('reortho'))
            hist['E_shift'] += case['opts'].get('E_shift') is not None
            hist['ortho'] += case.get('wrap') == 'ortho'
            hist['max_ritz_margin'] = max(hist.get('max_ritz_margin', 0.0), info.get('ritz_margin', 0.0))
            hist['stop_rule_checked'] = hist.get('stop_rule_checked', 0) + bool(info.get('stop_rule_checked'))
            ctx.count(stream, [case['spec']['seed'], case['opts'], case.get('wrap'), case.get('evo')], nontrivial=N > 1,
                      sample={'opts': case['opts'], 'wrap': case.get('wrap'), 'dim_sector': info['m'], 'N': N, 'E': pl['E']})
            if probs:
                key = 'C16:lanczos' + ('-evo' if case.get('evo') else '')
                ctx.fail('oracle', '; '.join(probs[:4]), {'stream': stream, 'case': case,
                                                          'impl': {'E': pl['E'], 'N': pl['N']}}, match_key=key)
            for kn in known:
                if kn.startswith('RERUN '):
                    ctx.fail('oracle', kn[6:], {'stream': stream, 'case': case},
                             match_key='C16:LanczosEvolution.run:second-run:stale-cache-after-rebuild+reortho')
                elif kn.startswith('RERUNGS '):
                    ctx.fail('oracle', kn[8:], {'stream': stream, 'case': case},
                             match_key='C16:LanczosGroundState.run:second-run:stale-cache-after-rebuild+reortho')
                else:
                    ctx.fail('oracle', kn, {'stream': stream, 'case': case},
                             match_key='C16:KrylovBased.__init__:E_shift-mutates-OrthogonalNpcLinearOperator')
            evs = [tuple(Nat(v) for v in e) for e in tr['events']]
            terms = [tuple(Nat(v) for v in t) for t in tr['terms']]
            coq_l.append(coq_lit(((Nat(nc), bool(case['opts'].get('reortho')), Nat(N), evs, terms))))
            coq_l_idx.append(idx)
            # accesses to the tridiagonal matrix h interleaved with the other events (Model/Krylov2.v)
            hevs = [tuple(Nat(v) for v in e) for e in tr['hevents']]
            coq_h.append(coq_lit((Nat(nc), bool(case['opts'].get('reortho')), Nat(N), [bool(b) for b in tr['cv']], hevs)))
            coq_h_idx.append(idx)
            hist['h_reads_converged'] += sum(tr['cv'])
        elif kind == 'arnoldi':
            probs, info = oracle_arnoldi(ctx, case, r)
            ctx.count(stream, [case['spec']['seed'], case['opts'], case.get('evo')], nontrivial=info['m'] > 1,
                      sample={'opts': case['opts'], 'dim_sector': info['m']})
            hist['arnoldi_N1'] = hist.get('arnoldi_N1', 0) + (info.get('N') == 1)
            hist['max_ritz_margin'] = max(hist.get('max_ritz_margin', 0.0), info.get('ritz_margin', 0.0))
            if probs:
                ctx.fail('oracle', '; '.join(probs[:4]), {'stream': stream, 'case': case}, match_key='C16:' + stream)
            for kn in info.get('known', []):
                ctx.fail('oracle', kn, {'stream': stream, 'case': case}, match_key='C16:Arnoldi.run:second-run-on-the-same-object')
        elif kind == 'wrapper':
            probs, known, info = XT.oracle_wrapper(case, r)
            ctx.count(stream, [case['spec']['seed'], case['tree']], nontrivial=info['dim'] > 1, sample={'tree': case['tree'], 'dim_sector': info['dim']})
            if probs:
                ctx.fail('oracle', 'operator wrappers: ' + '; '.join(probs[:4]), {'stream': stream, 'case': case}, match_key='C16:wrapper')
            for kn in known[:1]:
                ctx.fail('oracle', kn, {'stream': stream, 'case': case}, match_key=XT.BOOST_KEY if kn.startswith('Boost') else XT.ORTHO_KEY)
        elif kind == 'flateig':
            probs, info = XT.oracle_flateig(case, r)
            hist['flateig_' + ('rejected' if info['rejected'] else 'noconv' if info.get('noconv') else info['path'])] = \
                hist.get('flateig_' + ('rejected' if info['rejected'] else 'noconv' if info.get('noconv') else info['path']), 0) + 1
            ctx.count(stream, [case['spec']['seed'], case['charge_sector'], case['which'], case['num_ev'], case['tree']],
                      nontrivial=info['dim'] > 1 and not info['rejected'],
                      sample={k: case[k] for k in ('charge_sector', 'which', 'num_ev', 'v0', 'herm_cls', 'use_setter')})
            if probs:
                ctx.fail('oracle', 'FlatLinearOperator.eigenvectors: ' + '; '.join(probs[:4]), {'stream': stream, 'case': case}, match_key='C16:flateig')
            if info.get('known'):
                ctx.fail('oracle', info['known'], {'stream': stream, 'case': case},
                         match_key='C16:FlatLinearOperator:vec_label=None:charge_sector=None:KeyError')
        elif kind == 'arpack':
            if 'ArpackNoConvergence' in r.get('error', '') or 'ncv must be' in r.get('error', ''):
                # ARPACK did not converge with the small ncv = N_min (the retry of eigenvectors() with more eigenvalues needs a larger ncv)
                hist['arpack_noconv'] = hist.get('arpack_noconv', 0) + 1
                continue
            probs, info = XT.oracle_arpack(case, r)
            ctx.count(stream, [case['spec']['seed'], case['mode'], case['opts']], nontrivial=info['dim'] > 1,
                      sample={'mode': case['mode'], 'opts': case['opts'], 'dim': info['dim'], 'E': r['E']})
            if probs:
                ctx.fail('oracle', '; '.join(probs[:4]), {'stream': stream, 'case': case}, match_key='C16:lanczos_arpack')
        elif kind == 'gmres':
            probs, known, info = oracle_gmres(ctx, case, r)
            ctx.count(stream, [case['spec']['seed'], case['opts']], nontrivial=True, sample={'opts': case['opts'], 'res': r['res']})
            if probs:
                ctx.fail('oracle', 'GMRES: ' + '; '.join(probs[:4]), {'stream': stream, 'case': case}, match_key='C16:gmres')
            if known and known[0].startswith('NAN '):
                ctx.fail('oracle', known[0][10:], {'stream': stream, 'case': case}, match_key=NAN_KEYS[known[0][4:10]])
            elif known:
                ctx.fail('oracle', 'GMRES (complex operator): ' + known[0], {'stream': stream, 'case': case},
                         match_key='C16:GMRES:complex-operator:residual-estimate')
        elif kind == 'gmresr':
            probs, known, info = oracle_gmres_restart(ctx, case, r)
            hist['gmres_restarts'] = hist.get('gmres_restarts', 0) + max(0, info['cycles'] - 1)
            hist['gmres_cycles_checked'] = hist.get('gmres_cycles_checked', 0) + info['checked_cycles']
            hist['gmres_cycles_beyond_krylov_dim'] = hist.get('gmres_cycles_beyond_krylov_dim', 0) + info['beyond']
            hist['gmres_restarted_runs_b_norm_not_1'] = hist.get('gmres_restarted_runs_b_norm_not_1', 0) + \
                (info['cycles'] > 1 and abs(info['nb'] - 1) > 0.01)
            hist['gmres_max_margin'] = max(hist.get('gmres_max_margin', 0.0), info['margin'])
            if 'coq' in info:
                coq_g.append(coq_lit(info['coq']))
                coq_g_idx.append(idx)
            ctx.count(stream, [case['spec']['seed'], case['opts'], case['b_scale'], case['x0_scale'], case['diag_shift']],
                      nontrivial=info['cycles'] > 1,
                      sample={'opts': case['opts'], 'b_norm': info['nb'], 'dim_sector': info['m'], 'iters': r['plain']['iters'],
                              'res': r['plain']['res']})
            if probs == ['correspondence']:
                ctx.fail('correspondence', 'GMRES observed from outside (wrapped reset, counting operator) differs from the plain run',
                         {'stream': stream, 'case': case})
            elif probs:
                ctx.fail('oracle', 'GMRES: ' + '; '.join(probs[:4]), {'stream': stream, 'case': case,
                                                                      'impl': {'iters': r['plain']['iters'], 'res': r['plain']['res']}},
                         match_key='C16:gmres-restart')
            for kn in known:
                ctx.fail('oracle', kn[6:], {'stream': stream, 'case': case}, match_key=NAN_KEYS[kn[:6]])
        elif kind == 'gs':
            probs, info = oracle_gs(ctx, case, r)
            ctx.count(stream, [case['spec']['seed'], case['count'], case['dependent']], nontrivial=info['k'] > 1,
                      sample={'count': case['count'], 'returned': info['k'], 'rank': info['rank']})
            hist['gs_exact'] = hist.get('gs_exact', 0) + info['exact']
            if probs:
                ctx.fail('oracle', 'gram_schmidt: ' + '; '.join(probs[:4]), {'stream': stream, 'case': case}, match_key='C16:gram_schmidt')
            for kn in info['known']:
                ctx.fail('oracle', 'gram_schmidt: ' + kn, {'stream': stream, 'case': case},
                         match_key='C16:gram_schmidt:dependent-input:noise-vector-above-absolute-rcond')
        elif kind == 'flat':
            probs, known, info = oracle_flat(ctx, case, r)
            if 'qconj' in known:
                ctx.fail('oracle', 'FlatLinearOperator on a leg with qconj=-1, non-compact flat vectors, charge sector q != -q: the mask '
                         'compares raw leg charges with the qtotal of the vector (ValueError / empty sector)', {'stream': stream, 'case': case},
                         match_key='C16:FlatLinearOperator:qconj=-1-leg:noncompact:nonzero-charge_sector')
            if 'label' in known:
                ctx.fail('oracle', 'FlatLinearOperator.from_NpcArray(labelled matrix, charge_sector=None).matvec raises KeyError (vec_label None)',
                         {'stream': stream, 'case': case}, match_key='C16:FlatLinearOperator.from_NpcArray:charge_sector=None:labelled-matrix-KeyError')
            ctx.count(stream, [case['spec']['seed'], case['mode'], case.get('charge_sector'), case.get('compact_flat')],
                      nontrivial=info.get('dim', 0) > 1, sample={'mode': case['mode'], 'dim': info.get('dim')})
            if probs:
                ctx.fail('oracle', 'FlatLinearOperator: ' + '; '.join(probs[:4]), {'stream': stream, 'case': case}, match_key='C16:flat')
        elif kind == 'argsort':
            ctx.count(stream, [case['z'], case['which']], nontrivial=len(case['z']) > 1)
            # oracle (independent of the model): keys along the permutation are monotone
            z = [complex(a, b) for a, b in case['z']]
            ks = [wkey(WHICH[case['wcode']], z[i]) for i in r['p']]
            if sorted(r['p']) != list(range(len(z))) or any(ks[i] > ks[i + 1] for i in range(len(ks) - 1)):
                ctx.fail('oracle', 'argsort(%s) does not order as documented' % case['which'], {'stream': stream, 'case': case},
                         match_key='C16:argsort')
            coq_a.append(coq_lit((Nat(case['wcode']), [tuple(v) for v in case['z']], [Nat(i) for i in r['p']])))
            coq_a_idx.append(idx)
    ctx.cov['wall_breakdown_s']['oracles'] = round(time.time() - t_or, 1)
    # ---- model <-> implementation inside Coq
    bad, err = common.coq_failing_indices('cases_c16_l', ['Base.Prelude', 'Model.Krylov'], 'check_lanczos', coq_l, shard=60)
    if err:
        ctx.fail('correspondence', 'model evaluation failed: ' + err[-600:], None)
    for b in bad[:5]:
        case = cases[coq_l_idx[b]]
        ctx.fail('correspondence', 'Model/Krylov.v and the instrumented Lanczos run disagree (cache / coefficient bookkeeping)',
                 {'stream': 'lanczos-trace', 'case': case, 'impl_terms': results[coq_l_idx[b]]['traced']['terms'],
                  'N': results[coq_l_idx[b]]['traced']['N']})
    badh, err = common.coq_failing_indices('cases_c16_h', ['Base.Prelude', 'Model.Krylov', 'Model.Krylov2'], 'check_hevents', coq_h, shard=60)
    if err:
        ctx.fail('correspondence', 'model evaluation failed: ' + err[-600:], None)
    for b in badh[:5]:
        case = cases[coq_h_idx[b]]
        ctx.fail('correspondence', 'Model/Krylov2.v and the instrumented Lanczos run disagree (program order of the accesses to _h_krylov)',
                 {'stream': 'lanczos-h-trace', 'case': case, 'N': results[coq_h_idx[b]]['traced']['N'],
                  'cv': results[coq_h_idx[b]]['traced']['cv']})
    badg, err = common.coq_failing_indices('cases_c16_g', ['Base.Prelude', 'Model.Krylov', 'Model.KrylovGmres'], 'check_gmres', coq_g)
    if err:
        ctx.fail('correspondence', 'model evaluation failed: ' + err[-600:], None)
    for b in badg[:5]:
        case = cases[coq_g_idx[b]]
        rr = results[coq_g_idx[b]]['traced']
        fresh = [e for e in rr['events'] if e[0] == 10 and e[2] != 0]
        ctx.fail('correspondence', 'Model/KrylovGmres.v and the observed GMRES run disagree (cycles / matvec / reset events / start state after a '
                 'restart%s)' % ('; start states violating the restart invariants [10, cycle, bit mask 1:one vector 2:r_norm=|r| 4:e1 8:q0=r/|r| '
                                 '16:H,rotations zero 32:histories]: %s' % fresh[:3] if fresh else ''),
                 {'stream': 'gmresr-trace', 'case': case, 'iters': rr['iters'], 'events': rr['events'][:60]})
    bad2, err = common.coq_failing_indices('cases_c16_a', ['Base.Prelude', 'Model.Krylov'], 'check_argsort', coq_a)
    if err:
        ctx.fail('correspondence', 'model evaluation failed: ' + err[-600:], None)
    for b in bad2[:5]:
        ctx.fail('correspondence', 'Model/Krylov.v argsort_model and tools.misc.argsort disagree', {'stream': 'argsort', 'case': cases[coq_a_idx[b]]})
    ctx.cov['traces_validated_against_impl'] = len(coq_l) + len(coq_h) + len(coq_a) + len(coq_g)
    coverage_audit(ctx, cases)
    ctx.cov['input_distribution'] = hist
    ctx.assumptions += [
        'C16 model: Krylov vectors are abstract indices; the float kernel (inner products, norms, eig of the projected matrix, exit '
        'conditions) is not modelled: the number of iterations N is taken from the run; spectral clauses are oracle-only',
        'C16 GMRES (stream gmresr): cycles that start from a residual at the rounding level of b - A x, or run beyond the exact Krylov '
        'dimension of (A, r_c) (N_min forces that), are only checked for the discrete bookkeeping; tolerance 1e-6 relative on residuals '
        '(observed deviations < 1e-10)',
        'C16 oracle tolerances: 1e-8*|H| for Rayleigh quotient / lower bound, 1e-7 for expm; results with N > dim(sector) '
        '(option N_min forces iterations beyond the exhausted Krylov space) are only checked for the bookkeeping',
        'C16 Ritz oracles (every N): E0 = smallest Ritz value, Ritz vector inside K_N, Galerkin condition V^dagger (H x - theta x) = 0 on the exact '
        'Krylov space (dense Arnoldi, orthogonalised twice); exp(delta H) psi0 against |psi0| V exp(delta V^dagger H V) e_1 also for unconverged runs. '
        'Tolerances are widened by the loss of orthogonality that the textbook recurrence (three-term Lanczos without re-orthogonalisation / Arnoldi '
        'with one Gram-Schmidt pass, transcribed densely) shows on the same input in double precision; beyond 1e-4 (outliers of the spectrum that '
        'converge early, shifts that are large against the spread of the spectrum) only the bookkeeping / order / norms are judged (runs with '
        'reortho=True and all vectors cached are always judged)',
        'C16 stop rule: the iteration count of LanczosGroundState / LanczosEvolution is recomputed from alpha/beta of the run with the documented '
        'rule (N_min, N_max, cutoff, (RitzRes/max(gap, min_gap))^2 < P_tol and Delta E0 < E_tol; evolution: |last coefficient| < P_tol); runs with '
        'a comparison within a factor 5 of its threshold are not judged; the Arnoldi stop rule is not judged (Es rows are zero padded in the gap estimate)',
        'C16 FlatLinearOperator.eigenvectors: ARPACK is used as it is - which=LI/SI only on complex operators (real ARPACK mode orders by |imag|), '
        'exactly degenerate spectra only on the dense fallback path (num_ev >= dim - 1) and in the forced charge_sector=None cases; runs that end in '
        'ArpackNoConvergence (forced with maxiter, or lanczos_arpack with ncv = N_min too small for the retry) are counted, not judged',
        'C16 excluded by classification (coverage.api_coverage): plot_stats; abstract methods; psi0 given as a list of Arrays (not accepted by '
        'npc.norm / npc.inner in the loops of krylov_based.py: unreachable through the options of the property)',
        'C16 gram_schmidt: compared with the dense transcription of the documented rule when no norm is within a factor 100 of rcond and no '
        'vector is pure rounding noise after the projection',
    ]
    return ctx.finish(RULE, 'theorems of coq/Props/C16.v about the cache / coefficient bookkeeping for all N, N_cache; the model is tied to '
                      'krylov_based.py by comparing the event trace of every instrumented Lanczos run (vm_compute); spectral clauses by dense oracle')


def forced_cases(seed):
    """boundary values / rare branches that are not left to chance (a fixed list, independent of the random stream)"""
    import random
    rng = random.Random(seed)
    out = []

    def plain_spec(n, herm, cplx, sizes=None, charges=None, mods=(), spectrum=None, sector=0, sd=0):
        leg = {'mods': list(mods), 'sizes': sizes or [n], 'charges': charges or [[]], 'qconj': 1}
        return {'leg': leg, 'seed': seed + sd, 'herm': herm, 'cplx': cplx, 'spectrum': spectrum, 'sector': sector, 'start': 'random', 'few': 1, 'scale': 1.0}
    # Arnoldi / ArnoldiEvolution forced beyond the dimension of the space with a tiny cutoff: rounding-noise basis vectors, 'poorly conditioned' branch
    for evo in (False, True):
        for cplx in (False, True):
            c = {'kind': 'arnoldi', 'spec': plain_spec(2, False, cplx, sd=1), 'which': 'SM', 'wrap': None, 'wrap_shift': 0.7, 'rerun_same': False,
                 'opts': {'N_min': 5, 'N_max': 5, 'which': 'SM', 'num_ev': 2, 'E_shift': None, 'P_tol': None, 'cutoff': 1e-300, 'E_tol': None,
                          'min_gap': None, 'reortho': None}}
            if evo:
                c['evo'] = {'deltas': [[0.0, 0.5], [0.1, 0.0], [0.0, 0.0]], 'normalize': None, 'delta_as': 'auto', 'normalize_kw': False}
            out.append(c)
    # one-dimensional charge sector: N = 1 return paths of every solver
    for kind, evo in (('arnoldi', False), ('arnoldi', True), ('lanczos', False), ('lanczos', True)):
        spec = plain_spec(4, kind == 'lanczos', True, sizes=[1, 3], charges=[[0], [1]], mods=[2], sector=0, sd=2)
        if kind == 'arnoldi':
            c = {'kind': 'arnoldi', 'spec': spec, 'which': 'SR', 'wrap': None, 'wrap_shift': 0.7, 'rerun_same': not evo,
                 'opts': {'N_min': 2, 'N_max': 4, 'which': 'SR', 'num_ev': 2, 'E_shift': -1.5, 'P_tol': None, 'cutoff': None, 'E_tol': None,
                          'min_gap': None, 'reortho': None}}
            if evo:
                c['evo'] = {'deltas': [[0.0, 0.5], [0.1, 0.0], [0.3, -0.2]], 'normalize': True, 'delta_as': 'complex', 'normalize_kw': True}
        else:
            c = {'kind': 'lanczos', 'spec': spec, 'wrap': None, 'wrap_shift': 0.7, 'n_ortho': 1, 'ortho_dependent': False, 'twice': True,
                 'rerun_same': not evo, 'real_psi0': False,
                 'opts': {'N_min': 2, 'N_max': 4, 'N_cache': None, 'reortho': True, 'E_shift': 2.0, 'cutoff': None, 'P_tol': None, 'E_tol': None, 'min_gap': None}}
            if evo:
                c['evo'] = {'delta': [0.2, -0.3], 'normalize': None, 'delta_as': 'numpy', 'normalize_kw': False}
                c['rerun'] = [0.0, 0.3]
        out.append(c)
    # GMRES: the initial guess is already below the tolerance
    for i in range(2):
        out.append({'kind': 'gmresr', 'spec': plain_spec(6, False, bool(i), sd=3 + i), 'diag_shift': [4.0, 0.0], 'b_scale': 1.0, 'x0_scale': 0.0,
                    'real_dtype': not i, 'opts': {'N_min': 1, 'N_max': 3, 'restart': 2, 'res': 10.0}})
    # FlatLinearOperator.eigenvectors: ARPACK stopped after `maxiter` restarts -> retry with more eigenvalues and tolerance max_tol, then give up
    for i, (maxiter, max_tol, herm) in enumerate([(1, None, False), (1, 1e-2, True), (3, 1e-3, False)]):
        out.append({'kind': 'flateig', 'spec': plain_spec(40, herm, False, sd=5 + i), 'tree': None, 'charge_sector': None, 'cs_init': None,
                    'use_setter': False, 'compact_flat': None, 'herm_cls': herm, 'hermitian_flag': False, 'which': 'SM', 'which_default': False,
                    'num_ev': 2, 'v0': 'flat', 'cutoff': None, 'max_num_ev': None, 'tol': None, 'maxiter': maxiter, 'max_tol': max_tol, 'ncv': 6})
    # charge_sector=None with eigenvalues that are exactly degenerate between and inside charge sectors
    for i, (cls, flag) in enumerate([(True, False), (False, True), (False, False)]):
        spec = plain_spec(7, True, bool(i % 2), sizes=[2, 3, 2], charges=[[0], [1], [2]], mods=[3], spectrum='integer', sd=9 + i)
        out.append({'kind': 'flateig', 'spec': spec, 'tree': None, 'charge_sector': None, 'cs_init': None, 'use_setter': False, 'compact_flat': None,
                    'herm_cls': cls, 'hermitian_flag': flag, 'which': 'LM', 'which_default': False, 'num_ev': 7, 'v0': None, 'cutoff': 1e-8,
                    'max_num_ev': None, 'tol': None})
    return out


def coverage_audit(ctx, cases):
    """coverage table of the two anchored files (evidence: coverage.api_coverage); holes are correspondence failures"""
    try:
        tab, problems = c16_audit.table(common.REPO, {k: set(v) for k, v in HIT_LINES.items()})
        tally = option_tally(cases)
        otab, oproblems = c16_audit.option_problems(common.REPO, tally)
    except (SyntaxError, OSError) as e:
        ctx.fail('correspondence', 'coverage audit: the anchored files do not parse: %s' % e, None)
        return
    refl, err = common.run_impl('c16_impl.py', {'kind': 'reflect'})
    if err:
        problems.append('reflection runner failed: ' + err[-300:])
    else:
        # the names the running code has (inherited / generated ones included) against the AST table
        for mod, info in refl['reflect'].items():
            for name in info['names']:
                if '%s:%s' % (mod, name) not in tab:
                    problems.append('%s.%s exists in the imported module but not in the source table' % (mod, name))
    ctx.cov['api_coverage'] = {'how': sorted(str(h) for h in TRACE_HOW), 'summary': c16_audit.summary(tab), 'functions': tab, 'options': otab}
    if not any(HIT_LINES.values()):
        problems.append('no line events were recorded (sys.monitoring unavailable?)')
    for pr in problems + oproblems:
        ctx.fail('correspondence', 'coverage audit: ' + pr, None)


def option_tally(cases):
    from collections import Counter
    t = {}

    def add(key, val):
        t.setdefault(key, Counter())['default' if val is None else str(val)] += 1
    for c in cases:
        kind = c['kind']
        o = c.get('opts') or {}
        if kind in ('lanczos', 'arnoldi'):
            evo = c.get('evo')
            cls = {'lanczos': 'LanczosEvolution' if evo else 'LanczosGroundState', 'arnoldi': 'ArnoldiEvolution' if evo else 'Arnoldi'}[kind]
            for k in ('N_min', 'N_max', 'P_tol', 'min_gap', 'reortho', 'E_shift', 'cutoff', 'E_tol') + \
                    (('N_cache',) if kind == 'lanczos' else ('which', 'num_ev')):
                add('%s[%s]' % (cls, k), o.get(k) if o.get(k) is not False else None)
            if evo:
                add('%s.run(normalize)' % cls, evo['normalize'] if evo.get('normalize_kw', True) else 'omitted')
                if evo.get('normalize_kw', True) and evo['normalize'] is None:
                    t['%s.run(normalize)' % cls]['None'] += 1
        elif kind in ('gmres', 'gmresr'):
            for k in ('N_min', 'N_max', 'restart', 'res'):
                add('GMRES[%s]' % k, o.get(k))
        elif kind == 'gs':
            add('gram_schmidt(rcond)', c.get('rcond'))
        elif kind == 'arpack':
            add('lanczos_arpack[P_tol]', o.get('P_tol'))
            add('lanczos_arpack[N_min]', o.get('N_min'))
            add('lanczos_arpack(options)', 'omitted' if c.get('no_options') else 'given')
            add('FlatLinearOperator.from_guess_with_pipe(dtype)', 'H.dtype')
            add('FlatHermitianOperator.eigenvectors(**)', 'tol, ncv, v0')
        elif kind == 'flat' and c['mode'] == 'array':
            add('FlatLinearOperator.from_NpcArray(charge_sector)', c['charge_sector'])
            add('FlatLinearOperator.from_NpcArray(compact_flat)', c.get('compact_flat'))
            add('FlatLinearOperator.__init__(compact_flat)', c.get('compact_flat'))
            add('FlatLinearOperator.__init__(vec_label)', None if c.get('unlabelled') else 'v')
            if c['charge_sector'] is None:
                add('FlatLinearOperator.flat_to_npc_None_sector(cutoff)', c.get('none_cutoff'))
        elif kind == 'flat':
            add('FlatLinearOperator.from_guess_with_pipe(labels_split)', c.get('labels_split'))
            add('FlatLinearOperator.from_guess_with_pipe(dtype)', c.get('dtype'))
            add('FlatLinearOperator.from_guess_with_pipe(compact_flat)', c['compact_flat'] if c.get('compact_flat_kw', True) else 'omitted')
        elif kind == 'flateig':
            if c.get('tree'):
                add('FlatLinearOperator.__init__(charge_sector)', 'omitted' if c.get('ctor_defaults') else c['cs_init'])
                add('FlatLinearOperator.__init__(vec_label)', None if c.get('ctor_defaults') else 'v')
                add('FlatLinearOperator.__init__(compact_flat)', c.get('compact_flat'))
            else:
                add('FlatLinearOperator.from_NpcArray(charge_sector)', 'omitted' if c.get('cs_kw_omitted') else c['cs_init'])
                add('FlatLinearOperator.from_NpcArray(compact_flat)', c.get('compact_flat'))
            kw = ', '.join(k for k in ('tol', 'maxiter', 'ncv') if c.get(k) is not None) or 'none'
            for cls in ['FlatLinearOperator'] + (['FlatHermitianOperator'] if c['herm_cls'] else []):
                add('%s.eigenvectors(**)' % cls, kw)
            add('FlatLinearOperator.eigenvectors(num_ev)', 'omitted' if c.get('num_ev_default') else c['num_ev'])
            add('FlatLinearOperator.eigenvectors(max_num_ev)', c.get('max_num_ev'))
            add('FlatLinearOperator.eigenvectors(max_tol)', c.get('max_tol'))
            add('FlatLinearOperator.eigenvectors(which)', None if c.get('which_default') else c['which'])
            add('FlatLinearOperator.eigenvectors(v0)', 'given' if c['v0'] == 'flat' else None)
            add('FlatLinearOperator.eigenvectors(v0_npc)', 'given' if c['v0'] == 'npc' else None)
            add('FlatLinearOperator.eigenvectors(cutoff)', c.get('cutoff'))
            add('FlatLinearOperator.eigenvectors(hermitian)', True if (c['hermitian_flag'] or c['herm_cls']) else None)
    return t


RULE = ('block-sparse operators of dimension 1-60 (no charge, U(1), Z2, Z3, U(1)xZ2; sorted/unsorted/duplicate-charge legs), Hermitian '
        '(random, degenerate extremal eigenvalues, low rank, integer, clustered spectra) and general; start vectors random / in an '
        'invariant subspace / unit vectors / rescaled / real dtype on complex operators; every documented option of every solver class drawn at >= 2 '
        'values (table coverage.api_coverage.options: N_min, N_max, N_cache (2..>N_max), reortho, E_shift (also 0.0), cutoff, P_tol, E_tol, min_gap, which, '
        'num_ev, normalize omitted/None/True/False, delta float/complex/numpy scalar/0, rcond 1e-14..2); wrappers Shift/Sum/Boost/Orthogonal nested up to '
        'depth 3 on one- and two-leg vectors (matvec, to_matrix, adjoint, unwrapped, delegation, list vectors) and given to the solvers; second run() '
        'on the same solver object; FlatLinearOperator / FlatHermitianOperator incl. eigenvectors (which, num_ev, v0, v0_npc, cutoff, hermitian, '
        'charge_sector given / 0 / None / changed by the setter), lanczos_arpack; exponents real/imaginary/complex; GMRES also with N_max far below the dimension (1..10 restarts), '
        'right-hand sides of norm 1e-3..1e3, zero / small / large initial guess, real and complex dtype (a gmresr case is non-trivial when it '
        'restarted).  A Lanczos case is non-trivial when N > 1; distinct = '
        'distinct (operator seed, options, wrapper).')
