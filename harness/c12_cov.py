"""Coverage table of C12: which public functions / methods (and which of their source lines = explicit branches) of the anchored
files of the tree under test are executed by the cases of harness/c12.py.

The items are enumerated from the SOURCE (ast + the code objects of compile()), not by hand: every class / function / method of
tenpy/networks/site.py and the named Jordan-Wigner functions of tenpy/networks/terms.py and tenpy/networks/mps.py.  The runner
(harness/impl/c12_impl.py, class Tracer) records the executed lines with sys.settrace; `table()` joins both.  A public name of the
anchored code that is neither executed nor classified in EXCLUDED is reported (correspondence failure in c12.py), so that a
function added to site.py later can not silently stay outside the check.
"""
import ast
import os

SITE = 'tenpy/networks/site.py'
TERMS = 'tenpy/networks/terms.py'
MPS = 'tenpy/networks/mps.py'

# the Jordan-Wigner bookkeeping of terms.py / mps.py the property names (anchors.mechanism) + their direct consumers
NAMED = {
    TERMS: ['order_combine_term', 'CouplingTerms.coupling_term_handle_JW', 'MultiCouplingTerms.multi_coupling_term_handle_JW'],
    MPS: ['*._term_to_ops_list', '*.correlation_function', '*._corr_up_diag', '*.expectation_value_term',
          '*.term_correlation_function_right', '*.term_correlation_function_left', '*.term_list_correlation_function_right',
          'MPS.apply_local_term', 'MPS.expectation_value_terms_sum', '*.apply_JW_string_left_of_virt_leg', 'MPS.apply_local_op'],
}

# deliberately not exercised: qualname -> reason (from the property text)
EXCLUDED = {
    'Site.__repr__': 'debug representation, no statement of the property depends on it',
    'GroupedSite.__repr__': 'debug representation', 'SpinHalfSite.__repr__': 'debug representation',
    'SpinSite.__repr__': 'debug representation', 'FermionSite.__repr__': 'debug representation',
    'SpinHalfFermionSite.__repr__': 'debug representation', 'SpinHalfHoleSite.__repr__': 'debug representation',
    'BosonSite.__repr__': 'debug representation', 'ClockSite.__repr__': 'debug representation',
}


# anchored, but quantified elsewhere / outside the property text (documentation of the table, not a per-name classification)
OUTSIDE = {
    'tenpy/models/model.py': 'CouplingModel.add_coupling / add_multi_coupling with fermionic operators (plus_hc through get_hc_op_name, '
                             'op_string, str_on_first) are exercised against dense operators by C11; C12 checks the functions they call '
                             '(coupling_term_handle_JW, multi_coupling_term_handle_JW, order_combine_term, Site.get_hc_op_name)',
    'Hdf5Exportable (save_hdf5 / from_hdf5 of Site)': 'inherited, not defined in site.py; export format is not part of the property',
    'infinite boundary conditions': 'the property quantifies over chains of up to 6 sites (finite); the bc == "infinite" branches of '
                                    'apply_local_term / apply_local_op / expectation_value_terms_sum stay unreached',
    'Site.test_sanity error branches': 'raised only for hand-corrupted sites (wrong label type, missing attribute, rank != 2)',
    'MPS.apply_local_op multi-site / npc-array operators': 'no Jordan-Wigner handling for arrays (need_JW = False by construction); C07/C09',
}


def _code_objects(code, out):
    for c in code.co_consts:
        if hasattr(c, 'co_code'):
            out[c.co_qualname] = c
            _code_objects(c, out)


def _lines_of(code):
    """line numbers that can produce a 'line' event, of `code` and of the code objects nested in it (lambdas, local functions)"""
    ls = {ln for (_, _, ln) in code.co_lines() if ln is not None}
    for c in code.co_consts:
        if hasattr(c, 'co_code'):
            ls |= _lines_of(c)
    return ls


def anchored_items(repo):
    """[{file, name, first, lines (executable lines without the def line), src {line: text}, public}]"""
    items = []
    problems = []
    for f in (SITE, TERMS, MPS):
        path = os.path.join(repo, f)
        try:
            src = open(path).read()
            tree = ast.parse(src)
            codes = {}
            _code_objects(compile(src, path, 'exec'), codes)
        except Exception as e:            # fail closed
            problems.append('%s: can not be parsed (%s)' % (f, e))
            continue
        text = src.split('\n')
        names = []
        if f == SITE:
            for node in tree.body:
                if isinstance(node, ast.FunctionDef):
                    names.append(node.name)
                elif isinstance(node, ast.ClassDef):
                    names += ['%s.%s' % (node.name, n.name) for n in node.body if isinstance(n, ast.FunctionDef)]
            # every name of __all__ must be among them
            for node in tree.body:
                if isinstance(node, ast.Assign) and any(getattr(t, 'id', None) == '__all__' for t in node.targets):
                    for el in node.value.elts:
                        n = el.value
                        if n not in names and not any(x.startswith(n + '.') for x in names):
                            problems.append('%s: %r of __all__ is neither a function nor a class with methods' % (f, n))
        else:
            names = []
            for n in NAMED[f]:
                if n.startswith('*.'):          # a method of whichever class(es) of the file define it
                    found = sorted(q for q in codes if q.count('.') == 1 and q.endswith(n[1:]))
                    if not found:
                        problems.append('%s: no class defines %s' % (f, n[2:]))
                    names += found
                else:
                    names.append(n)
        for n in names:
            c = codes.get(n)
            if c is None:
                problems.append('%s: %s not found in the source' % (f, n))
                continue
            doc_lines = set()
            ls = sorted(_lines_of(c) - {c.co_firstlineno})
            # a decorator line (property) precedes the def line: the call event reports co_firstlineno
            items.append({'file': f, 'name': n, 'first': c.co_firstlineno, 'lines': [x for x in ls if x not in doc_lines],
                          'src': {x: text[x - 1].strip() for x in ls}, 'public': not n.split('.')[-1].startswith('_') or n.endswith('__init__')})
    return items, problems


def table(items, traces):
    """traces: {stream: {file: [lines]}}  ->  rows {name: {...}}, list of (name) neither reached nor excluded"""
    rows = {}
    missing = []
    tot = reached_tot = 0
    for it in items:
        by = {}
        hit = set()
        for stream, tr in traces.items():
            got = set(tr.get(it['file'], []))
            if it['first'] in got or got & set(it['lines']):
                h = got & set(it['lines'])
                by[stream] = len(h)
                hit |= h
        un = [x for x in it['lines'] if x not in hit]
        row = {'file': it['file'].split('/')[-1], 'lines': len(it['lines']), 'reached': len(it['lines']) - len(un), 'streams': by}
        if un:
            row['unreached'] = ['%d: %s' % (x, it['src'][x][:90]) for x in un[:12]]
        if not by:
            if it['name'] in EXCLUDED:
                row['excluded'] = EXCLUDED[it['name']]
            else:
                row['NOT REACHED'] = True
                missing.append(it['name'])
        if it['name'] not in EXCLUDED:
            tot += len(it['lines'])
            reached_tot += len(it['lines']) - len(un)
        rows[it['name']] = row
    return rows, missing, (reached_tot, tot)
