"""C15 - additional streams (called from harness/c15.py):

svd-exact / eigh-exact   correspondence of the ROOT-INPUT models svd_theta_book / eigh_rho_book (Model/TruncBook.v) with
                         truncation.svd_theta / truncation.eigh_rho, evaluated by Model/TruncBookCheck.v on exact data;
qr-direct / qr-engine    oracle for decompose_theta_qr_based (dense numpy; no Coq model).
"""
import itertools
import math
from fractions import Fraction
from math import isqrt

import common
from common import coq_lit


# ------------------------------------------------------------------------------------------ exact rational helpers
def _is_sq(n):
    return n >= 0 and isqrt(n) ** 2 == n


def frac_sqrt(q):
    """exact square root of a non-negative rational, or None"""
    q = Fraction(q)
    if q < 0 or not _is_sq(q.numerator) or not _is_sq(q.denominator):
        return None
    return Fraction(isqrt(q.numerator), isqrt(q.denominator))


def dyadic(q):
    d = Fraction(q).denominator
    return d & (d - 1) == 0


def dyadic_square(q):
    q = Fraction(q)
    return dyadic(q) and _is_sq(q.numerator) and _is_sq(q.denominator)


def fr(p):
    return Fraction(int(p[0]), int(p[1]))


def pair(q):
    q = Fraction(q)
    return (q.numerator, q.denominator)


# ------------------------------------------------------------------------------------------ planted spectra
_POOL = {}


def pythagorean_pool(V=24, nmax=5):
    """descending integer tuples (values 1..V, length 2..nmax) whose sum of squares is a perfect square, together with
    the prefix lengths k (cut not inside a tie) whose sum of squares is a perfect square as well, e.g.
    (12, 9, 8): 12^2+9^2 = 15^2, 15^2+8^2 = 17^2."""
    key = (V, nmax)
    if key not in _POOL:
        out = []
        for n in range(2, nmax + 1):
            for t in itertools.combinations_with_replacement(range(V, 0, -1), n):
                if not _is_sq(sum(x * x for x in t)):
                    continue
                acc, ks = 0, []
                for k in range(1, n):
                    acc += t[k - 1] ** 2
                    if _is_sq(acc) and t[k - 1] > t[k]:
                        ks.append(k)
                out.append((t, ks + [n]))
        _POOL[key] = out
    return _POOL[key]


def _tuples_with_square_sum(target, nmax):
    out = []

    def rec(prefix, last, remaining, nleft):
        if remaining == 0:
            out.append(tuple(prefix))
            return
        if nleft == 0:
            return
        for v in range(min(last, isqrt(remaining)), 0, -1):
            if v * v * nleft < remaining:
                break
            rec(prefix + [v], v, remaining - v * v, nleft - 1)
    rec([], isqrt(target), target, nmax)
    return out


def dyadic_spectrum(rng):
    """descending integers x with sum x^2 = 4^a and a prefix (length k) with sum m^2 4^b (m odd): x/r, norm_new = m 2^(b-a),
    S_new = x / (m 2^b) are all dyadic, every float operation of svd_theta is exact."""
    key = 'dy'
    if key not in _POOL:
        _POOL[key] = {b: _tuples_with_square_sum(4 ** b, 8) for b in (1, 2, 3)}
    for _ in range(200):
        b = rng.choice([1, 2, 2, 3, 3, 3])
        m = rng.choice([1, 1, 3, 5])                  # kept part m * (tuple with sum of squares 4^b): norm_new = m 2^b / 2^a
        kept = [m * v for v in rng.choice(_POOL[key][b])]
        a = b + rng.choice([0, 1, 1, 2]) if m == 1 else b + rng.choice([2, 3])
        rest = 4 ** a - m * m * 4 ** b
        disc = []
        mn = kept[-1]
        while rest > 0 and len(kept) + len(disc) < 60:
            v = rng.randint(1, min(mn, isqrt(rest)))
            if rng.random() < 0.5:
                v = min(mn, isqrt(rest))
            disc.append(v)
            rest -= v * v
        if rest == 0:
            disc.sort(reverse=True)
            return kept + disc, len(kept)
    return [2, 2, 2, 2], 4


def _options_for_cut(rng, weights_desc, k, total, sqrt_values):
    """truncation options that make truncate keep exactly the k largest of the (descending) spectrum whose squared
    normalised values are weights_desc[i] / total.  sqrt_values=True: the spectrum handed to truncate is the sqrt of
    weights/total (always the case; the argument only documents it)."""
    n = len(weights_desc)
    tie = k < n and weights_desc[k - 1] == weights_desc[k]
    modes = ['chi_max']
    if k == n:
        modes = ['all', 'chi_max', 'chi_big']
    elif not tie and weights_desc[k] > 0:
        modes = ['chi_max', 'svd_min', 'trunc_cut', 'chi_max']
    elif not tie:
        modes = ['chi_max', 'svd_min']
    mode = rng.choice(modes)
    o = {'chi_max': None, 'svd_min': None, 'trunc_cut': None, 'chi_min': rng.choice(['absent', None]),
         'degeneracy_tol': rng.choice(['absent', None])}
    if mode == 'chi_max':
        o['chi_max'] = k
    elif mode == 'chi_big':
        o['chi_max'] = n + rng.randint(0, 3)
    elif mode == 'svd_min':
        lo = math.sqrt(weights_desc[k] / total)
        hi = math.sqrt(weights_desc[k - 1] / total)
        o['svd_min'] = (lo + hi) / 2
        if rng.random() < 0.5:
            o['chi_max'] = n + 1
    elif mode == 'trunc_cut':
        D = sum(weights_desc[k:])
        o['trunc_cut'] = math.sqrt((D + weights_desc[k - 1] / 2) / total)
        if not o['trunc_cut'] < 1.0:
            o['trunc_cut'] = None
            o['chi_max'] = k
    return o, mode


def gen_exact_case(rng, eigh):
    fam = rng.random()
    if fam < 0.3:
        xs, k = dyadic_spectrum(rng)
        family = 'dyadic'
        vals = [x * x for x in xs] if eigh else xs
    elif eigh:
        family = 'rational-square'
        while True:
            q = rng.randint(2, 14)
            p = rng.randint(1, q - 1)
            m = rng.randint(1, 6)
            K, T = p * p * m, q * q * m
            k = rng.randint(1, 4)
            if K < k:
                continue
            cuts = sorted(rng.sample(range(1, K), k - 1)) if k > 1 else []
            kept = sorted([b - a for a, b in zip([0] + cuts, cuts + [K])], reverse=True)
            rest, disc = T - K, []
            while rest > 0 and len(disc) < 10:
                v = rng.randint(1, min(kept[-1], rest))
                disc.append(v)
                rest -= v
            if rest == 0:
                break
        if rng.random() < 0.25:
            k = len(kept) + len(disc)               # keep everything
        vals = kept + sorted(disc, reverse=True)
    else:
        family = 'pythagorean'
        t, ks = rng.choice(pythagorean_pool())
        k = rng.choice(ks)
        f = rng.choice([1, 1, 2, 3, 5, 7])
        vals = [x * f for x in t]
    nz = rng.choice([0, 0, 0, 1, 2])                # exact zeros in the spectrum (always discarded or kept as 0)
    vals = list(vals) + [0] * nz
    n = len(vals)
    weights = vals if eigh else [x * x for x in vals]
    opts, mode = _options_for_cut(rng, weights, k, sum(weights), True)
    if nz and mode in ('all', 'chi_big'):
        opts['svd_min'] = None
    order = list(range(n))
    rng.shuffle(order)
    planted = [vals[i] for i in order]
    perm = None
    if rng.random() < 0.6:
        perm = [rng.sample(range(n), n), rng.sample(range(n), n)]
    return {'xs': planted, 'sc': rng.choice([0, 0, 3, 12, 30]), 'perm': perm, 'eigh': eigh, 'opts': opts,
            'family': family, 'mode': mode, 'k': k}


def exact_payloads(ctx, rng, nchunk=4):
    """cases of svd-exact / eigh-exact, split into payloads for impl/c15_impl.py"""
    ncase = ctx.pick(200, 290)
    if not ctx.proof.ok:
        ncase = 290
    cases = []
    for eigh, stream in ((False, 'svd-exact'), (True, 'eigh-exact')):
        cs = [c['case'] for c in common.corpus_cases('C15') if c.get('stream') == stream]
        cs += [gen_exact_case(rng, eigh) for _ in range(ncase - len(cs))]
        cases += cs
    chunks = [cases[i::nchunk] for i in range(nchunk)]
    return [{'kind': 'book_exact', 'cases': ch, 'cov': True} for ch in chunks if ch]


def exact_streams(ctx, payloads, res):
    """svd-exact, eigh-exact: oracle + Coq evaluation of the implementation's results `res` for `payloads`"""
    per = {'svd-exact': ([], [], {}), 'eigh-exact': ([], [], {})}
    for st in per:
        per[st][2].update({'exact-equality': 0, 'enclosure': 0, 'truncated': 0, 'lapack-inexact': 0, 'irrational-root': 0})
    for pl, (r, err) in zip(payloads, res):
        if err:
            ctx.fail('correspondence', 'svd-exact/eigh-exact runner failed: %s' % err[-400:], None)
            continue
        for c, x in zip(pl['cases'], r):
            stream = 'eigh-exact' if c['eigh'] else 'svd-exact'
            lits, keep, hist = per[stream]
            lit = exact_case_literal(ctx, stream, c, x, hist)
            if lit is not None:
                lits.append(lit)
                keep.append((c, x))
    for stream, fn in (('svd-exact', 'check_svd_theta_exact'), ('eigh-exact', 'check_eigh_rho_exact')):
        lits, keep, hist = per[stream]
        bad, cerr = common.coq_failing_indices('cases_c15_' + stream.replace('-', '_'),
                                               ['Base.Prelude', 'Model.TruncBook', 'Model.TruncBookCheck'], fn, lits)
        if cerr:
            ctx.fail('correspondence', 'model evaluation failed: ' + cerr[-600:], None)
        for b in bad[:5]:
            ctx.fail('correspondence', 'Model/TruncBook.v %s_book (roots supplied) and truncation.%s disagree (%s)'
                     % (stream[:-6].replace('svd', 'svd_theta').replace('eigh', 'eigh_rho'),
                        stream[:-6].replace('svd', 'svd_theta').replace('eigh', 'eigh_rho'), fn),
                     {'stream': stream, 'case': keep[b][0], 'impl': keep[b][1]})
        ctx.cov['traces_validated_against_impl'] = ctx.cov.get('traces_validated_against_impl', 0) + len(lits)
        ctx.cov.setdefault('exact_streams', {})[stream] = hist
        if lits and hist['exact-equality'] == 0:
            ctx.fail('correspondence', '%s: no case was compared by exact equality (generator lost the dyadic family)' % stream, None)


def exact_case_literal(ctx, stream, c, x, hist):
    """oracle on one svd-exact / eigh-exact result (exact rational arithmetic, written from the documentation) and the
    Coq literal for the checker; None when the case cannot be sent to Coq"""
    eigh = c['eigh']
    if 'runner_error' in x:
        ctx.fail('correspondence', '%s runner failed: %s' % (stream, x['runner_error'][-400:]), {'stream': stream, 'case': c})
        return None
    if 'error' in x:
        ctx.fail('oracle', 'svd_theta/eigh_rho raised: %s' % x['error'], {'stream': stream, 'case': c},
                 match_key='C15:decomp-raises')
        return None
    vin = [fr(p) for p in x['in']]
    planted = sorted(Fraction(v, 1 << c['sc']) for v in c['xs'])
    if sorted(vin) != planted:
        hist['lapack-inexact'] += 1
        ctx.count(stream, c, nontrivial=False)       # LAPACK did not return the planted values bit for bit
        return None
    mask = x['mask']
    kept = [v for v, m in zip(vin, mask) if m]
    disc = [v for v, m in zip(vin, mask) if not m]
    probs = []
    eps = fr(x['eps'])
    tol = Fraction(1, 2 ** 48)
    if eigh:
        tot = sum(vin)
        W = [fr(p) for p in x['W']]
        nn = frac_sqrt(sum(kept) / tot)
        if len(W) != len(kept) or any(abs(w * (1 - sum(disc) / tot) - v) > tol * v for w, v in zip(W, kept)):
            probs.append('eigh_rho: W_new * (1 - discarded weight) != kept eigenvalues')
        if abs(sum(W) - tot) > tol * tot:
            probs.append('eigh_rho: sum(W_new) != trace')
        if abs(eps - sum(disc) / tot) > tol:
            probs.append('eigh_rho: eps %r != discarded/trace %r' % (float(eps), float(sum(disc) / tot)))
    else:
        tot = sum(v * v for v in vin)
        r = frac_sqrt(tot)
        S = [fr(p) for p in x['S']]
        ren = fr(x['renorm'])
        nn = frac_sqrt(sum(v * v for v in kept) / tot)
        if len(S) != len(kept) or any(abs(s * ren - v) > tol * v for s, v in zip(S, kept)):
            probs.append('svd_theta: S_new * renormalization != kept singular values')
        if abs(sum(s * s for s in S) - 1) > tol:
            probs.append('svd_theta: S_new not normalised')
        if abs(ren * ren - sum(v * v for v in kept)) > tol * tot:
            probs.append('svd_theta: renormalization^2 != kept weight')
        if abs(eps - sum(v * v for v in disc) / tot) > tol:
            probs.append('svd_theta: eps != discarded weight / total weight')
    if abs(x['ov'] - (1. - 2. * float(eps))) > 1e-15:
        probs.append('err.ov != 1 - 2 eps')
    if disc and kept and max(disc) > min(kept):
        probs.append('a discarded value is larger than a kept one')
    if probs:
        ctx.fail('oracle', '; '.join(probs), {'stream': stream, 'case': c, 'impl': x}, match_key='C15:' + stream)
    if nn is None or nn == 0 or (not eigh and r is None):
        hist['irrational-root'] += 1
        ctx.count(stream, c, nontrivial=False)
        return None
    # the decision "everything is dyadic" is recomputed inside Coq and must agree
    if eigh:
        R = sum(vin)
        W1 = [w / R for w in vin]
        outW = [w / (nn * nn) * R for w, m in zip(W1, mask) if m]
        oe = sum(w for w, m in zip(W1, mask) if not m)
        want = all(dyadic_square(w) for w in W1) and dyadic(nn) and all(dyadic(w) for w in outW) and dyadic(oe)
        lit = coq_lit(([pair(v) for v in vin], mask, pair(nn), bool(want),
                       ([tuple(p) for p in x['W']], tuple(x['eps']))))
    else:
        S1 = [v / r for v in vin]
        outS = [s / nn for s, m in zip(S1, mask) if m]
        oe = sum(s * s for s, m in zip(S1, mask) if not m)
        want = all(dyadic(s) for s in S1) and dyadic(nn) and all(dyadic(s) for s in outS) and dyadic(r * nn) and dyadic(oe)
        lit = coq_lit(([pair(v) for v in vin], pair(r), mask, pair(nn), bool(want),
                       ([tuple(p) for p in x['S']], tuple(x['renorm']), tuple(x['eps']))))
    hist['exact-equality' if want else 'enclosure'] += 1
    hist['truncated'] += 0 if all(mask) else 1
    ctx.count(stream, c, nontrivial=not all(mask) or len(set(vin)) > 1,
              sample={'xs': c['xs'], 'sc': c['sc'], 'opts': c['opts'], 'family': c['family'], 'kept': len(kept),
                      'exact_equality': bool(want)})
    return lit


# ------------------------------------------------------------------------------------------ QR based decomposition
KNOWN_GAUGE = 'C15:_qr_theta_Y0:nonzero-old-qtotal:gauge_total_charge-result-dropped'


def gen_qr_case(rng, seed, engine):
    model = rng.choice(['tfi', 'xxz'])
    conserve = rng.choice([None, 'parity']) if model == 'tfi' else rng.choice([None, 'Sz', 'parity'])
    L = rng.choice([4, 5, 6, 6, 7])
    eig = rng.random() < 0.3
    c = {'model': model, 'conserve': conserve, 'L': L, 'seed': seed, 'g': rng.choice([0.5, 1.0, 1.5]),
         'shuffle_prod': rng.random() < 0.5, 'pre_steps': rng.choice([1, 2, 3]), 'pre_chi': rng.choice([4, 8, 16]),
         'expand': rng.choice([0.1, 0.3, 0.5, 1.0, 2.0]), 'min_block_increase': rng.choice([0, 1, 1, 2]),
         'eig': eig, 'compute_err': rng.random() < 0.9,
         'trunc': {'chi_max': rng.choice([None, 1, 2, 3, 4, 5, 6, 8, 100]), 'svd_min': rng.choice([None, 1e-12, 1e-3, 'absent']),
                   'trunc_cut': rng.choice([None, 1e-14, 1e-2, 'absent'])}}
    if engine:
        c['engine'] = True
        c['imag'] = (not eig) and rng.random() < 0.3
        c['N_steps'] = rng.choice([1, 2])
        c['order'] = rng.choice([1, 2])
        c['dt'] = rng.choice([0.05, 0.2])
        c['compute_err'] = True
        if c['trunc']['chi_max'] is not None and rng.random() < 0.3:
            c['expand_0'] = rng.choice([1.0, 2.0])
    else:
        c['bond'] = rng.choice([L // 2 - 1, L // 2 - 1, L // 2, rng.randint(0, L - 2)])
        c['move_right'] = rng.random() < 0.5
        c['both'] = rng.random() < 0.5
        c['apply_U'] = rng.random() < 0.8
        c['real_time'] = rng.random() < 0.7
        c['dt'] = rng.choice([0.1, 0.3, 1.0])
        c['scale'] = rng.choice([1.0, 1.0, 2.0, 0.5, 0.125])
        # equivalent presentations of the same input: non-zero total charges of the old tensors, old bond leg not blocked
        if conserve is not None and rng.random() < 0.4:
            c['qshift'] = rng.choice([1, 1, -1, 2])
        if rng.random() < 0.3:
            c['unblocked_leg'] = True
        c['config'] = rng.random() < 0.3
        c['trunc']['chi_min'] = rng.choice(['absent', 'absent', None, 2])
        c['trunc']['degeneracy_tol'] = rng.choice(['absent', 'absent', None, 1e-6])
    return c


def qr_call_problems(rep, chi_max, compute_err):
    """oracle for one decompose_theta_qr_based call, from the dense numbers of impl/c15_qr.py:dense_report.
    Documentation: theta ~= renormalization * T_Lc S T_Rc (forms A, B) resp. renormalization * T_Lc T_Rc (one form Th);
    S normalised; trunc_err = error of the approximate factorisation (squared, relative; NaN when compute_err=False)."""
    probs = []
    nontrivial = False
    if abs(rep['normS'] - 1) > 1e-12:
        probs.append('S not normalised: |S| - 1 = %.3e' % (rep['normS'] - 1))
    if rep['minS'] < -1e-12:
        probs.append('negative singular value %.3e' % rep['minS'])
    if chi_max is not None and rep['chi'] > max(chi_max, 1):
        probs.append('chi %d > chi_max %d' % (rep['chi'], chi_max))
    for side, idx in (('L', 0), ('R', 1)):
        if side + '_iso' not in rep:
            continue
        f = rep['form'][idx]
        if f in ('A', 'B') and rep[side + '_iso'] > 1e-10:
            probs.append('T_%sc is declared %s form but is not isometric (%.3e)' % (side, f, rep[side + '_iso']))
        if f == 'Th' and abs(rep[side + '_norm'] - 1) > 1e-10:
            probs.append('T_%sc is declared Th form but has norm %.12f' % (side, rep[side + '_norm']))
        want = ['(vL.p)', 'vR'] if side == 'L' else ['vL', '(p.vR)']
        if rep[side + '_labels'] != want:
            probs.append('T_%sc labels %s' % (side, rep[side + '_labels']))
    if not rep['renorm'] > 0:
        probs.append('renormalization %r' % rep['renorm'])
    if compute_err:
        eps = rep['eps']
        if not (eps == eps) or 'rel_err2' not in rep:
            probs.append('compute_err=True but eps = %r / tensors missing' % eps)
        else:
            if abs(eps - rep['rel_err2']) > 1e-12 + 1e-9 * rep['rel_err2']:
                probs.append('reported trunc_err.eps %.6e != squared relative error %.6e of renormalization*T_L S T_R'
                             % (eps, rep['rel_err2']))
            if eps < rep['opt_eps'] - 1e-12:
                probs.append('eps %.3e below the optimum %.3e of any rank-%d approximation' % (eps, rep['opt_eps'], rep['chi']))
            # the kept part is an orthogonal projection of theta: |kept|^2 = |theta|^2 (1 - eps)
            kept2 = rep['norm_theta'] ** 2 * (1 - eps)
            if abs(rep['renorm'] ** 2 - kept2) > 1e-9 * rep['norm_theta'] ** 2:
                probs.append('renormalization^2 %.12e != |theta|^2 (1 - eps) = %.12e (norm of what is kept)' % (rep['renorm'] ** 2, kept2))
            if abs(rep['ov'] - (1 - 2 * eps)) > 1e-14:
                probs.append('err.ov != 1 - 2 eps')
            nontrivial = eps > 1e-20
    else:
        if rep['eps'] == rep['eps']:
            probs.append('compute_err=False but eps = %r (documented: NaN)' % rep['eps'])
        nontrivial = rep['chi'] < rep['rank_theta']
    return probs, nontrivial


def note_qr_params(ctx, c, x):
    p = ctx.c15params
    f = 'decompose_theta_qr_based'
    p.note(f, 'move_right', str(c['move_right']))
    p.note(f, 'expand', str(c['expand']))
    p.note(f, 'min_block_increase', str(c['min_block_increase']))
    p.note(f, 'use_eig_based_svd', str(c['eig']))
    p.note(f, 'compute_err', str(c['compute_err']))
    p.note(f, 'return_both_T', str(c['both']))
    p.note(f, 'trunc_params', 'Config' if c.get('config') else 'dict')
    p.note_opts(f, c['trunc'], 'trunc_params')
    v = x.get('variant') or {}
    p.note(f, 'old_qtotal_L', 'non-zero' if any(v.get('qtotal_L', [0])) else 'zero')
    p.note(f, 'old_qtotal_R', 'non-zero' if any(v.get('qtotal_R', [0])) else 'zero')
    p.note(f, 'old_bond_leg', 'not blocked' if v.get('leg_blocked') is False else 'blocked')


def qr_payloads(ctx, rng, nchunk):
    nd, ne = ctx.pick(200, 290), ctx.pick(40, 150)
    if not ctx.proof.ok:
        nd, ne = 290, 150
    cases = [c['case'] for c in common.corpus_cases('C15') if c.get('stream') in ('qr-direct', 'qr-engine')]
    direct = [gen_qr_case(rng, ctx.seed * 100000 + i, False) for i in range(nd)]
    for i, c in enumerate(direct):
        # stratified: the rarely drawn corner "one tensor only, no error" for both directions and both SVD routes
        if i % 20 in (7, 17):
            c.update({'compute_err': False, 'both': False, 'move_right': i % 20 == 7, 'eig': (i // 20) % 2 == 1})
    cases += direct
    cases += [gen_qr_case(rng, ctx.seed * 100000 + 50000 + i, True) for i in range(ne)]
    # directed: no minimum block increase, tiny chi_max, charge conservation (old bond leg has charge blocks that the new
    # leg (vL.p0) lacks once the neighbouring bond was truncated)
    for i in range(12):
        c = gen_qr_case(rng, ctx.seed * 100000 + 90000 + i, True)
        c.update({'model': 'xxz', 'conserve': rng.choice(['Sz', 'Sz', 'parity']), 'L': 6, 'min_block_increase': 0,
                  'expand': rng.choice([0.1, 0.3]), 'imag': False, 'pre_steps': 3, 'pre_chi': rng.choice([4, 8])})
        c['trunc']['chi_max'] = rng.choice([1, 1, 1, 2])
        c.pop('expand_0', None)
        cases.append(c)
    chunks = [cases[i::nchunk] for i in range(nchunk)]
    return [{'kind': 'qr', 'cases': ch, 'cov': True} for ch in chunks if ch]


def qr_streams(ctx, payloads, res):
    chunks = [pl['cases'] for pl in payloads]
    hist = {'calls': 0, 'truncating': 0, 'Th-form': 0, 'charge': 0, 'move_right': 0, 'eig_based': 0}
    for ci, (r, err) in enumerate(res):
        if err:
            ctx.fail('correspondence', 'qr runner failed: ' + err[-400:], None)
            continue
        for c, x in zip(chunks[ci], r):
            stream = 'qr-engine' if c.get('engine') else 'qr-direct'
            chi_max = c['trunc']['chi_max']
            if 'runner_error' in x:
                ctx.fail('correspondence', 'qr runner failed: ' + x['runner_error'][-500:], {'stream': stream, 'case': c})
                continue
            gauged = any((x.get('variant') or {}).get('qtotal_L', [0])) or any((x.get('variant') or {}).get('qtotal_R', [0]))
            if 'error' in x:
                # structural condition of the failure: did _qr_theta_Y0 hand back an EMPTY expanded bond?
                mk = (KNOWN_GAUGE if gauged and x.get('empty_Y0') else
                      'C15:decompose_theta_qr_based:empty-Y0-raises' if x.get('empty_Y0') and c['min_block_increase'] == 0
                      else 'C15:qr-raises:' + x['error'].split(':')[0])
                if not c.get('engine'):
                    note_qr_params(ctx, c, x)
                ctx.count(stream, c, nontrivial=True)
                ctx.fail('oracle', 'decompose_theta_qr_based raised: %s%s' % (x['error'], ' (_qr_theta_Y0 returned an empty expanded bond)' if x.get('empty_Y0') else ''),
                         {'stream': stream, 'case': c, 'impl': x}, match_key=mk)
                continue
            calls = x['calls'] if c.get('engine') else [x]
            probs, nontriv = [], False
            if not c.get('engine'):
                note_qr_params(ctx, c, x)
                if not x.get('theta_unchanged', True):
                    probs.append('decompose_theta_qr_based modified its argument theta')
                if 'base' in x:
                    # the same two-site wave function presented with gauged total charges / an unblocked old bond leg
                    b = x['base']
                    if 'error' in b:
                        probs.append('the plain presentation of the same input raises ' + b['error'])
                    else:
                        same = len(b['S']) == len(x['S']) and all(abs(u - v) < 1e-9 for u, v in zip(sorted(b['S']), sorted(x['S'])))
                        eps_same = (b['eps'] != b['eps'] and x['eps'] != x['eps']) or abs(b['eps'] - x['eps']) < 1e-11
                        if not same or not eps_same or abs(b['renorm'] - x['renorm']) > 1e-9 * abs(b['renorm']):
                            probs.append('equivalent presentation of the input (%s) changes the decomposition: chi %d vs %d, eps %.6e vs %.6e'
                                         % (x['variant'], len(x['S']), len(b['S']), x['eps'], b['eps']))
                    hist['variants'] = hist.get('variants', 0) + 1
                    hist['variants_nonzero_qtotal'] = hist.get('variants_nonzero_qtotal', 0) + (1 if gauged else 0)
                    if probs and gauged and all(p.startswith('equivalent presentation') for p in probs):
                        # root cause: the charges of Y0 are not gauged to the non-zero total charge of the old tensor
                        ctx.count(stream, c, nontrivial=True)
                        ctx.fail('oracle', 'decompose_theta_qr_based: ' + probs[0], {'stream': stream, 'case': c, 'impl': {k: x[k] for k in ('variant', 'base', 'S', 'eps')}},
                                 match_key=KNOWN_GAUGE)
                        continue
            for rep in calls:
                ce = rep['kw']['compute_err'] if 'kw' in rep else c['compute_err']
                p, nt = qr_call_problems(rep, chi_max, ce)
                probs += p[:3]
                nontriv = nontriv or nt
                hist['calls'] += 1
                hist['truncating'] += 1 if nt else 0
                hist['Th-form'] += 1 if 'Th' in rep['form'] else 0
            hist['charge'] += 1 if c['conserve'] else 0
            hist['eig_based'] += 1 if c['eig'] else 0
            hist['move_right'] += 1 if c.get('move_right') else 0
            if c.get('engine'):
                s = sum(rep['eps'] for rep in calls)
                if abs(x['total_eps'] - s) > 1e-12 + 1e-9 * abs(s) or abs(sum(x['bond_eps']) - s) > 1e-12 + 1e-9 * abs(s):
                    probs.append('engine.trunc_err.eps %.6e / sum over bonds %.6e != sum of the reported errors %.6e'
                                 % (x['total_eps'], sum(x['bond_eps']), s))
                pr = x['norm0']
                for rep in calls:
                    pr *= rep['renorm']
                # (real-time run() renormalises psi afterwards: preserve_norm; the sweep of update_imag does not)
                if c.get('imag') and abs(x['norm'] - pr) > 1e-9 * abs(pr):
                    probs.append('psi.norm %.12e != product of the reported renormalizations %.12e' % (x['norm'], pr))
                if not calls:
                    probs.append('engine made no decompose_theta_qr_based call')
            ctx.count(stream, c, nontrivial=nontriv,
                      sample={'case': {k: c[k] for k in ('model', 'conserve', 'L', 'expand', 'min_block_increase', 'eig', 'trunc')},
                              'eps': [rep['eps'] for rep in calls][:4], 'chi': [rep['chi'] for rep in calls][:4]})
            if probs:
                ctx.fail('oracle', 'decompose_theta_qr_based: ' + '; '.join(probs[:4]), {'stream': stream, 'case': c, 'impl': x if not c.get('engine') else {'calls': calls[:3]}},
                         match_key='C15:qr')
    ctx.cov['qr_streams'] = hist


def run(ctx, rng):
    """all additional streams; one parallel round of implementation processes"""
    nex = 4
    pe = exact_payloads(ctx, rng, nex)
    pq = qr_payloads(ctx, rng, max(2, common.NPROC - nex))
    res = common.run_impl_parallel('c15_impl.py', pe + pq)
    res = [ctx.c15cov.unwrap('book-exact' if i < len(pe) else 'qr', r) for i, r in enumerate(res)]
    exact_streams(ctx, pe, res[:len(pe)])
    qr_streams(ctx, pq, res[len(pe):])
