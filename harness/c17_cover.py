"""C17 coverage streams (called from harness/c17.py:main).

Streams
  leaves  : every type Hdf5Saver dispatches on (found by reflection: dispatch_save, TYPES_FOR_HDF5_DATASETS) x a value space with the
            boundary values of that type x {alone at a sub path (+ as root for groups), shared by 7 references in 4 kinds of containers,
            inside self-referential containers}; strict oracle (type identity, dtype incl. byte order, bit patterns, masks and fill values,
            identity of shared references, hard links and documented type tags in the file).
            A dispatched type without value space and without a recorded exclusion is a correspondence failure.
  api     : documented options of save / load / save_to_hdf5 / load_from_hdf5 / Hdf5Saver / Hdf5Loader.
  reduce2 : objects without explicit format (pickle-protocol fallback): every position of the reduce tuple.
  coverage: line coverage of every function of tenpy/tools/hdf5_io.py and of every save_hdf5 / from_hdf5 / __getstate__ /
            __setstate__ / __reduce__ of the package, recorded with sys.monitoring in EVERY runner process of the check (union over
            all streams of this run); every public name of hdf5_io and every anchored function must be reached or classified below.
"""
import re

import common

# ------------------------------------------------------------------------------------------------
# classification of what is deliberately NOT reached (reason from the property text / the documentation)
# ------------------------------------------------------------------------------------------------

LEGACY = 'branch for files written by OLDER versions of tenpy / h5py (the property is about objects saved by the current saver)'

# unreached source lines (matched by their text, so that the table survives line shifts): regex -> reason
UNREACHED_LINES = [
    (r"names = \[''\] \* qnumber", LEGACY),
    (r"msg = \($|'unit_cell_width is a new argument|'It is optional for now|'The default value \(unit_cell_width|'lattice is a Chain|'It is used for dipolar charges|^\)$", LEGACY),
    (r"warnings\.warn\(msg, stacklevel=2\)", LEGACY),
    (r"obj\.unit_cell_width = len\(obj\.sites\)", LEGACY),
    (r"obj\.segment_boundaries = \(None, None\)", LEGACY),
    (r"obj\.diagonal_gauge = False", LEGACY),
    (r"elif isinstance\(state, tuple\):|self\._data,|self\._qdata,|self\._qdata_sorted,|self\.chinfo,|self\.dtype,|^labels,$|self\.legs,|self\.qtotal,|self\.rank,|self\.shape,|\) = state|^\($|self\.labels = labels|self\._labels = \[None\] \* self\.rank|self\.iset_leg_labels\(labels\)",
     'Array.__setstate__ for the state tuple of the compiled TeNPy 0.3.0: ' + LEGACY),
    (r"raise ValueError\('setstate with incompatible type of state'\)", 'defensive error for a state no __getstate__ produces'),
    (r"obj = str\(h5gr\[\(\)\]\)", 'h5py < 3.0 only'),
    (r"return version_str\.split", 'fallback when the packaging module is missing'),
    (r"raise ValueError\(f\"can't interpret type_info", 'defensive: load_dict is only called with the two dictionary formats'),
    (r"position_disorder = None|obj\.position_disorder = None", LEGACY),
    (r"obj = np\.dtype\(name\)", 'dtype groups without the member descr: ' + LEGACY + ' (reached on the current tree; unreachable once F17.13 is repaired as proposed)'),
    (r"msg = f\"Don't know how to save object of type|raise Hdf5ExportError\(msg\)", 'defensive: every python object has __reduce__'),
    (r"filled = h5gr\[\(\)\]|obj = np\.ma\.masked_equal\(filled, fill_value, copy=False\)", 'masked arrays stored without their mask: ' + LEGACY +
     ' (the current saver takes this branch only in the cases of the recorded defect F17.12)'),
]

# public names of tenpy.tools.hdf5_io: how they are covered.  'trace' = the function must be reached in the trace chunk,
# 'tag' = the constant must occur as a `type` tag / attribute name in the files of the leaves stream, otherwise a reason for exclusion
PUBLIC = {
    'save': 'trace', 'load': 'trace', 'find_global': 'trace', 'valid_hdf5_path_component': 'trace', 'save_to_hdf5': 'trace', 'load_from_hdf5': 'trace',
    'Hdf5FormatError': 'api:format_errors', 'Hdf5ExportError': 'api:format_errors', 'Hdf5ImportError': 'api:format_errors',
    'Hdf5Exportable': 'trace', 'Hdf5Ignored': 'api:format_errors', 'Hdf5Saver': 'trace', 'Hdf5Loader': 'trace',
    'TYPES_FOR_HDF5_DATASETS': 'leaves: every entry is a type of the value space',
}
PUBLIC_ATTRIBUTES = {'Hdf5Saver.dispatch_save': 'leaves: every key', 'Hdf5Loader.dispatch_load': 'leaves: every key must be a tag written by the saver',
                     'Hdf5Saver.t': 'leftover loop variable of the class body (a numpy dtype class)', 'Hdf5Saver.t2': 'leftover loop variable of the class body'}


# anchored functions that are deliberately never called
EXCLUDED_FUNCTIONS = {
    'tools/hdf5_io.py:parse_version': 'fallback definition used only when neither packaging nor setuptools is installed',
}


def _classify_line(text):
    for pat, why in UNREACHED_LINES:
        if re.search(pat, text):
            return why
    return None


def leaf_known_key(case, r):
    """match keys of the recorded defects (specific structural conditions computed independently of tenpy in the runner)"""
    f = r.get('facts', {})
    if case['type'] == 'numpy.ma.MaskedArray' and f.get('fill_mark_agrees_nowhere') is True and f.get('saved_mask') in (False, None):
        return 'C17:Hdf5Saver.save_masked_array:mask-dropped-although-fill_value-does-not-mark-it'
    if case['type'].startswith('numpy.dtypes.') and f.get('dtype_name_sufficient') is False:
        return 'C17:Hdf5Loader.load_dtype:dtype-not-determined-by-its-name'
    return None


STATE = {'cov_dir': None, 'inv': None, 'table': None}


def start(ctx, replay):
    """directory the runner processes drop their line-coverage records into (payload key 'cov_dir')"""
    import tempfile
    STATE.update(cov_dir=None, inv=None, table=None)
    if replay is None:
        STATE['cov_dir'] = tempfile.mkdtemp(prefix='c17cov_', dir=common.scratch())
    return STATE['cov_dir']


def P(payload):
    """payload with the coverage directory added"""
    if STATE['cov_dir']:
        payload = dict(payload, cov_dir=STATE['cov_dir'])
    return payload


def run(ctx, rng, replay, tm):
    import time
    t0 = time.time()
    table = {'items': {}, 'summary': {}}
    STATE['table'] = table
    (inv, err), = common.run_impl_parallel('c17_cover_impl.py', [{'kind': 'inventory'}])
    if err:
        ctx.fail('correspondence', 'coverage inventory failed: ' + err[-800:], None)
        return
    STATE['inv'] = inv
    lv = inv['leaves']
    # ---- reflection: every dispatched type has a value space or a recorded exclusion
    for t in lv['dispatch_save'] + [x[0] for x in lv['datasets']]:
        ctx.count('coverage', ['type', t], nontrivial=True)
        if t in lv['values']:
            table['items']['type:' + t] = 'leaves (%d values x alone/shared/cycle)' % len(lv['values'][t])
        elif t in lv['excluded']:
            table['items']['type:' + t] = 'excluded: ' + lv['excluded'][t]
        else:
            table['items']['type:' + t] = 'NOT COVERED'
            ctx.fail('correspondence', 'Hdf5Saver dispatches on type %s but harness/impl/c17_cover_impl.py has neither a value space nor a recorded exclusion for it' % t,
                     {'stream': 'coverage', 'type': t})
    # ---- leaves
    cases = []
    if replay is None:
        for t, labels in sorted(lv['values'].items()):
            for i, lab in enumerate(labels):
                cases.append({'type': t, 'label': lab, 'mode': 'alone'})
                for mode in ('shared', 'cycle'):
                    if ctx.thorough() or i == 0 or t in ('numpy.ndarray', 'numpy.ma.MaskedArray') and rng.random() < 0.3 or rng.random() < 0.15:
                        cases.append({'type': t, 'label': lab, 'mode': mode})
        rng.shuffle(cases)
    elif replay.get('stream') == 'leaves':
        cases = [dict(replay['case'])]
    nchunk = min(common.NPROC, 12)
    chunks = [cases[i::nchunk] for i in range(nchunk)]
    payloads = [P({'kind': 'leaves', 'cases': ch}) for ch in chunks if ch]
    extra = []
    if replay is None:
        extra = [P({'kind': 'api', 'names': inv['api'][:3]}), P({'kind': 'api', 'names': inv['api'][3:]}), P({'kind': 'reduce2', 'names': inv['reduce']})]
    elif replay.get('stream') == 'api':
        extra = [{'kind': 'api', 'names': [replay['scenario']]}]
    elif replay.get('stream') == 'reduce2':
        extra = [{'kind': 'reduce2', 'names': [replay['object']]}]
    res = common.run_impl_parallel('c17_cover_impl.py', payloads + extra, timeout=1500)
    hist = {'cases': 0, 'alone': 0, 'shared': 0, 'cycle': 0, 'masked_arrays_without_saved_mask': 0, 'dtypes_not_determined_by_name': 0, 'tags_seen': {}}
    for ch, (r, err) in zip([c for c in chunks if c], res[:len(payloads)]):
        if err:
            ctx.fail('correspondence', 'leaves runner failed: ' + err[-800:], None)
            continue
        for c, x in zip(ch, r):
            case = {'stream': 'leaves', 'case': c}
            ctx.count('leaves', [c['type'], c['label'], c['mode']], nontrivial=True, sample=dict(c, facts=x.get('facts')))
            if 'runner_error' in x:
                ctx.fail('correspondence', 'leaves runner crashed on %s %s (%s): %s' % (c['type'], c['label'], c['mode'], x['runner_error'][-400:]), case)
                continue
            hist['cases'] += 1
            hist[c['mode']] += 1
            f = x.get('facts', {})
            hist['masked_arrays_without_saved_mask'] += f.get('saved_mask') is False
            hist['dtypes_not_determined_by_name'] += f.get('dtype_name_sufficient') is False
            if f.get('tag'):
                hist['tags_seen'][f['tag']] = hist['tags_seen'].get(f['tag'], 0) + 1
            key = leaf_known_key(c, x)
            if 'error' in x:
                e = x['error']
                ctx.fail('oracle', 'HDF5 %s of %s %s (%s, path %r) raised %s: %s [%s]' % (e['phase'], c['type'], c['label'], c['mode'], e['path'], e['error'], e['message'][:160], e['where']),
                         case, match_key=key or 'C17:leaves:%s:%s:%s' % (c['type'], e['phase'], e['error']))
                continue
            for p in x['problems']:
                ctx.fail('oracle', '%s %s (%s): %s' % (c['type'], c['label'], c['mode'], p), case, match_key=key or 'C17:leaves:%s:differs' % c['type'])
    ctx.cov['leaves_distribution'] = hist
    # every tag the loader dispatches on is written by the saver for some value (a tag never seen is dead or unreachable code)
    if replay is None:
        other_tags = {'instance': 'objects stream', 'reduce': 'reduce stream', 'ignore': 'api:format_errors', 'simple_dict': 'leaves (dict)', 'dict': 'leaves (dict)',
                      'int_as_str': 'leaves (int)', 'global': 'reduce (ufunc)'}
        for tag in lv['dispatch_load']:
            ctx.count('coverage', ['tag', tag], nontrivial=True)
            if tag in hist['tags_seen']:
                table['items']['tag:' + tag] = 'leaves: written for %d values' % hist['tags_seen'][tag]
            elif tag in other_tags:
                table['items']['tag:' + tag] = other_tags[tag]
            else:
                table['items']['tag:' + tag] = 'NOT COVERED'
                ctx.fail('correspondence', 'Hdf5Loader dispatches on the type tag %r which no generated value is saved with' % tag, {'stream': 'coverage', 'tag': tag})
    # ---- api / reduce2 / trace
    for p, (r, err) in zip(extra, res[len(payloads):]):
        if err:
            ctx.fail('correspondence', '%s runner failed: %s' % (p['kind'], err[-800:]), None)
            continue
        if p['kind'] == 'api':
            for name, x in sorted(r.items()):
                ctx.count('api', name, nontrivial=True, sample={'scenario': name, 'problems': x['problems']})
                for q in x['problems']:
                    ctx.fail('oracle', 'documented behaviour of the export/import interface (%s): %s' % (name, q), {'stream': 'api', 'scenario': name},
                             match_key='C17:api:%s' % name)
        elif p['kind'] == 'reduce2':
            for name, x in sorted(r.items()):
                if 'runner_error' in x:
                    ctx.fail('correspondence', 'reduce2 runner crashed on %s: %s' % (name, x['runner_error'][-300:]), None)
                    continue
                for method, m in sorted(x.items()):
                    ctx.count('reduce', [name, method], nontrivial=True, sample={'object': name, 'method': method, 'result': m})
                    case = {'stream': 'reduce2', 'object': name, 'method': method}
                    if 'error' in m:
                        ctx.fail('oracle', '%s of %s (pickle-protocol fallback) raised %s: %s [%s]' % (method, name, m['error'], m['message'][:160], m.get('where')),
                                 case, match_key='C17:reduce:%s:%s' % (name, method))
                    elif not m['equal']:
                        ctx.fail('oracle', '%s of %s (pickle-protocol fallback): loaded %s, original %s' % (method, name, m['loaded'], m['orig']), case,
                                 match_key='C17:reduce:%s:%s' % (name, method))
                    elif method.startswith('hdf5') and not m.get('warned') and name not in ('np_ufunc',):
                        ctx.fail('oracle', 'hdf5 of %s: no "fall back to pickle protocol" warning for an object without explicit format' % name, case,
                                 match_key='C17:reduce:%s:nowarning' % name)
    ctx.cov['coverage_table'] = table
    tm['cover'] = round(time.time() - t0, 1)


def finish(ctx):
    """after ALL streams: union of the line records of every runner process -> coverage table"""
    import json
    import os
    import shutil
    inv, table, cov_dir = STATE['inv'], STATE['table'], STATE['cov_dir']
    if inv is None or cov_dir is None:
        return
    if not inv.get('monitoring'):
        ctx.fail('correspondence', 'sys.monitoring is not available in the runner interpreter: no line coverage of the anchored functions', None)
        return
    hits, nrec = {}, 0
    for fn in sorted(os.listdir(cov_dir)):
        if fn.endswith('.json'):
            nrec += 1
            for f, first, lines in json.load(open(os.path.join(cov_dir, fn))):
                hits.setdefault((f, first), set()).update(lines)
    shutil.rmtree(cov_dir, ignore_errors=True)
    fns = []
    for a in inv['anchored']:
        got = hits.get((a['file'], a['first']))
        lines = {l for l, _ in a['lines']}
        fns.append({'file': a['file'], 'name': a['name'], 'first': a['first'], 'lines': len(lines), 'hit': len(lines & (got or set())),
                    'called': got is not None, 'unhit': [[l, t] for l, t in a['lines'] if l not in (got or set())]})
    r = {'ran': {'runner_processes_recorded': nrec}}
    reached = {}
    tot_lines = hit_lines = excl_lines = 0
    nfun = nfun_called = 0
    for f in fns:
        key = '%s:%s' % (f['file'], f['name'])
        nfun += 1
        nfun_called += bool(f['called'])
        tot_lines += f['lines']
        hit_lines += f['hit']
        ctx.count('coverage', ['function', key], nontrivial=f['lines'] > 0)
        item = {'lines': f['lines'], 'hit': f['hit']}
        reached[f['name'].split('.')[-1] if f['file'].endswith('hdf5_io.py') else key] = f['called']
        if not f['called'] and key in EXCLUDED_FUNCTIONS:
            item['status'] = 'excluded: ' + EXCLUDED_FUNCTIONS[key]
            excl_lines += f['lines']
            table['items']['fn:' + key] = item
            continue
        if not f['called']:
            item['status'] = 'NOT CALLED'
            ctx.fail('correspondence', 'anchored function %s (line %d) is never called by the representative chunk of the C17 streams: the property is not checked for it'
                     % (key, f['first']), {'stream': 'coverage', 'function': key})
        un = []
        for lineno, text in f['unhit']:
            why = _classify_line(text)
            if why is None:
                un.append([lineno, text])
            else:
                excl_lines += 1
                item.setdefault('excluded_lines', []).append([lineno, text[:60], why[:60]])
        if un and f['called']:
            item['status'] = 'UNREACHED LINES'
            item['unreached'] = un
            ctx.fail('correspondence', 'lines of %s never executed by the C17 streams and not classified in harness/c17_cover.py: %s'
                     % (key, '; '.join('%d: %s' % (l, t) for l, t in un[:4])), {'stream': 'coverage', 'function': key, 'lines': un})
        if item.get('status') or item.get('excluded_lines'):
            table['items']['fn:' + key] = item
    # public names
    pub = inv['public']
    npub = ncov = nexcl = 0
    for name, kind in sorted(pub['module'].items()):
        npub += 1
        ctx.count('coverage', ['public', name], nontrivial=True)
        how = PUBLIC.get(name)
        if how is None and kind.startswith('constant'):
            how = 'tag'     # REPR_* / ATTR_* constants: used by every save (format tags and attribute names, compared with the documented values in leaves)
        if how is None:
            table['items']['public:' + name] = 'NOT CLASSIFIED'
            ctx.fail('correspondence', 'public name tenpy.tools.hdf5_io.%s (%s) is neither covered by a C17 stream nor classified in harness/c17_cover.py' % (name, kind),
                     {'stream': 'coverage', 'name': name})
            continue
        if how == 'trace' and kind == 'function' and not reached.get(name, False):
            ctx.fail('correspondence', 'public function tenpy.tools.hdf5_io.%s is never called by the C17 streams' % name, {'stream': 'coverage', 'name': name})
            table['items']['public:' + name] = 'NOT CALLED'
            continue
        ncov += 1
    for name, kind in sorted(pub['methods'].items()):
        npub += 1
        ctx.count('coverage', ['public', name], nontrivial=True)
        short = name.split('.', 1)[1]
        if kind == 'attribute':
            if name in PUBLIC_ATTRIBUTES:
                ncov += 1
            else:
                table['items']['public:' + name] = 'NOT CLASSIFIED'
                ctx.fail('correspondence', 'public attribute %s of tenpy.tools.hdf5_io is not classified in harness/c17_cover.py' % name, {'stream': 'coverage', 'name': name})
            continue
        called = any(f['called'] for f in fns if f['file'].endswith('hdf5_io.py') and f['name'] == name)
        if called:
            ncov += 1
        else:
            table['items']['public:' + name] = 'NOT CALLED'
            ctx.fail('correspondence', 'public method tenpy.tools.hdf5_io.%s is never called by the C17 streams' % name, {'stream': 'coverage', 'name': name, 'short': short})
    table['summary'] = {'anchored_functions': nfun, 'anchored_functions_called': nfun_called, 'lines': tot_lines, 'lines_hit': hit_lines,
                        'lines_excluded_with_reason': excl_lines, 'lines_unreached_unclassified': tot_lines - hit_lines - excl_lines,
                        'public_names': npub, 'public_names_covered': ncov, 'trace_chunk': r['ran']}
    for e in r['ran'].get('errors', [])[:3]:
        ctx.fail('correspondence', 'generator failed inside the trace chunk: ' + e, None)
