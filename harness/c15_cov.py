"""C15 helper (harness side): merge the coverage reports of the implementation processes (impl/c15_cov.py) into the
coverage table of the evidence and turn holes into correspondence failures.

Table rows
  names     public functions / methods of tenpy/linalg/truncation.py (found by reflection in the runner process)
            -> calls per stream, or the reason why the name is deliberately not exercised (EXCLUDED_NAMES)
  branches  conditional jumps of these functions -> (jumped, fell through) per stream, or the reason (EXCLUDED_BRANCHES)
A name that is neither called nor classified and a branch outcome that is neither reached nor classified is a
correspondence failure: additions to the anchored module cannot silently escape the generators."""

# deliberately not exercised, with the reason from the property text
EXCLUDED_NAMES = {
    'TruncationError.save_hdf5': 'inherited from tools.hdf5_io.Hdf5Exportable: generic export, subject of C17 (exercised all the same in stream err-api)',
    'TruncationError.from_hdf5': 'inherited from tools.hdf5_io.Hdf5Exportable: generic import, subject of C17 (exercised all the same in stream err-api)',
}

# (function, source text of the tested expression, outcome) -> reason;  outcome: 'jump' / 'fall' of the conditional jump
# (for `if x:` compiled to POP_JUMP_IF_FALSE, 'jump' = x false, 'fall' = x true; FOR_ITER: 'jump' = loop exhausted)
EXCLUDED_BRANCHES = {
    ('truncate', 'np.any(S < -1.0e-10)', 'fall'):
        'warning for negative Schmidt values: the property quantifies over non-negative spectra',
    ('_qr_theta_Y0', 'min_block_increase >= 0', 'fall'):
        'assert on a precondition (negative min_block_increase is not a documented value): outside the quantifier',
    ('_qr_theta_Y0', 'expand != 0', 'fall'):
        'assert on a precondition (expand = 0: no expansion requested, the callers then use the plain SVD path): outside the quantifier',
    ('_qr_theta_Y0', 'expand is not None', 'jump'):
        'assert on a precondition (expand = None: the callers then use the plain SVD path): outside the quantifier',
    ('_qr_theta_Y0', 'for j_new, q_new in enumerate(v_new.charges):', 'jump'):
        'loop exhaustion is unreachable for theta != 0: every block of the rank-2 Y0 is matched exactly once in sorted '
        'order and the loop leaves by `break` after the last one (theta = 0 has no relative error)',
    ('_eig_based_svd', 'A.rank == 2', 'fall'):
        'assert on a precondition (the decompositions are defined for matrices): outside the quantifier',
    ('_eig_based_svd', 'need_U and need_Vd', 'fall'):
        'raises NotImplementedError by documentation ("Does not (yet) support computing both U and Vd"); exercised as an '
        'error-class case in stream eig-svd when reached',
}


# parameters that carry the input data itself (drawn by the generators of the named streams), not an option
DATA_PARAMS = {
    ('TruncationError.__init__', 'self'), ('TruncationError.copy', 'self'), ('TruncationError.__add__', 'self'),
    ('TruncationError.__add__', 'other'), ('TruncationError.ov_err', 'self'), ('TruncationError.from_norm', 'cls'),
    ('TruncationError.from_S', 'cls'), ('TruncationError.from_norm', 'norm_new'), ('TruncationError.from_S', 'S_discarded'),
    ('TruncationError.__init__', 'eps'), ('TruncationError.__init__', 'ov'),
    ('svd_theta', 'theta'), ('eigh_rho', 'rho'), ('_eig_based_svd', 'A'), ('decompose_theta_qr_based', 'theta'),
    ('_qr_theta_Y0', 'theta'), ('_combine_constraints', 'good1'), ('_combine_constraints', 'good2'),
    ('_combine_constraints', 'warn'),
}
# parameters of internal helpers that are only forwarded from the public function (varied there)
FORWARDED = {'_qr_theta_Y0': 'decompose_theta_qr_based'}


class Params:
    """which categories of values every documented parameter / option received (recorded by the streams)"""

    def __init__(self):
        self.seen = {}

    def note(self, func, param, category):
        d = self.seen.setdefault((func, param), {})
        d[category] = d.get(category, 0) + 1

    def note_opts(self, func, opts, prefix='trunc_par'):
        for k in ('chi_max', 'chi_min', 'degeneracy_tol', 'svd_min', 'trunc_cut'):
            v = opts.get(k, 'absent') if opts is not None else 'absent'
            self.note(func, prefix + '.' + k, 'absent' if v == 'absent' else 'None' if v is None else 'value')


class Merger:
    def __init__(self):
        self.signatures = {}
        self.options = {}
        self.names = {}        # name -> {stream: calls} or None for plain attributes
        self.nested = {}
        self.branches = {}     # key tuple -> {'line': n, 'streams': {stream: [jumps, falls]}}
        self.reports = 0
        self.missing = 0

    def unwrap(self, stream, res):
        """res = one (result, err) pair of run_impl_parallel for a payload sent with cov=True; returns the same pair with
        the plain result list and records the coverage"""
        r, err = res
        if err or not isinstance(r, dict) or 'res' not in r:
            return res
        cov = r.get('cov')
        if cov is None:
            self.missing += 1
        else:
            self.reports += 1
            for n, k in cov['names'].items():
                if k is None:
                    self.names.setdefault(n, None)
                else:
                    d = self.names.setdefault(n, {})
                    if k:
                        d[stream] = d.get(stream, 0) + k
            for n, k in cov['nested'].items():
                d = self.nested.setdefault(n, {})
                if k:
                    d[stream] = d.get(stream, 0) + k
            self.signatures.update(cov.get('signatures') or {})
            self.options.update(cov.get('options') or {})
            for (key, j, f) in cov['branches']:
                fn, seg, op, num, line = key
                b = self.branches.setdefault((fn, seg, op, num), {'line': line, 'streams': {}})
                if j or f:
                    s = b['streams'].setdefault(stream, [0, 0])
                    s[0] += j
                    s[1] += f
        return r['res'], None

    def table(self, ctx):
        """writes ctx.cov['coverage_table'] and raises the correspondence failures"""
        if self.reports == 0:
            ctx.fail('correspondence', 'no coverage report from any implementation process (sys.monitoring unavailable?)', None)
            return
        names = {}
        holes = []
        for n in sorted(self.names):
            d = self.names[n]
            if d is None:
                names[n] = 'attribute'
            elif d:
                names[n] = d
            elif n in EXCLUDED_NAMES:
                names[n] = 'excluded: ' + EXCLUDED_NAMES[n]
            else:
                names[n] = 'NOT REACHED'
                holes.append('public name %s of tenpy/linalg/truncation.py is never called by any stream and is not classified' % n)
        br = []
        nreached = nexcl = ntotal = 0
        for key in sorted(self.branches, key=lambda k: (self.branches[k]['line'], k)):
            fn, seg, op, num = key
            b = self.branches[key]
            tot = [sum(s[0] for s in b['streams'].values()), sum(s[1] for s in b['streams'].values())]
            row = {'function': fn, 'line': b['line'], 'test': seg, 'op': op, 'n': num, 'streams': b['streams']}
            for which, cnt in (('jump', tot[0]), ('fall', tot[1])):
                ntotal += 1
                if cnt:
                    nreached += 1
                    continue
                reason = EXCLUDED_BRANCHES.get((fn, seg, which))
                if reason:
                    nexcl += 1
                    row[which] = 'excluded: ' + reason
                else:
                    row[which] = 'NOT REACHED'
                    holes.append('branch outcome never reached: %s line %d `%s` (%s #%d) outcome %s'
                                 % (fn, b['line'], seg, op, num, which))
            br.append(row)
        ctx.cov['coverage_table'] = {
            'how': 'sys.monitoring (PY_START / BRANCH local events on the code objects of tenpy/linalg/truncation.py) in every '
                   'implementation process; names by reflection over the module and its classes',
            'names': names, 'branches': br,
            'summary': {'names': len(names), 'names_called': sum(1 for v in names.values() if isinstance(v, dict)),
                        'names_excluded': sum(1 for v in names.values() if isinstance(v, str) and v.startswith('excluded')),
                        'branch_outcomes': ntotal, 'branch_outcomes_reached': nreached, 'branch_outcomes_excluded': nexcl,
                        'processes_reporting': self.reports, 'processes_without_report': self.missing}}
        # ---- parameters / options
        params = getattr(ctx, 'c15params', None)
        ptable = {}
        if params is not None:
            rows = []
            for fn, sig in sorted(self.signatures.items()):
                for name, default in sig:
                    rows.append((fn, name, default))
            for fn, opts in sorted(self.options.items()):
                for name, default in opts:
                    rows.append((fn, 'options.' + name, default))
            for fn, name, default in rows:
                key = '%s(%s)' % (fn, name)
                if (fn, name) in DATA_PARAMS:
                    ptable[key] = 'input data'
                    continue
                seen = params.seen.get((fn, name))
                if seen is None and fn in FORWARDED:
                    seen = params.seen.get((FORWARDED[fn], name))
                if name.startswith('options.') and default not in (None, 'None'):
                    # an option with a non-trivial default: the DEFAULT itself has to decide some case
                    need = {'absent:binding'}
                    if not seen or not (need <= set(seen)):
                        holes.append('option %s of %s (default %s): no case where the default decided the result (%s)'
                                     % (name, fn, default, seen))
                if not seen or len(seen) < 2:
                    ptable[key] = 'NOT VARIED: %s' % (seen,)
                    holes.append('parameter %s of %s (default %s) is not varied by any stream: %s' % (name, fn, default, seen))
                else:
                    ptable[key] = dict(sorted(seen.items()))
            # sub-options of the truncation parameters handed to the decompositions
            for (fn, name), seen in sorted(params.seen.items()):
                key = '%s(%s)' % (fn, name)
                if key not in ptable:
                    ptable[key] = dict(sorted(seen.items()))
                    if len(seen) < 2:
                        holes.append('parameter %s of %s is not varied: %s' % (name, fn, seen))
            ctx.cov['coverage_table']['parameters'] = ptable
            ctx.cov['coverage_table']['summary']['parameters'] = len(ptable)
            ctx.cov['coverage_table']['summary']['parameters_varied'] = sum(1 for v in ptable.values() if isinstance(v, dict))
        ctx.cov['coverage_table']['summary']['holes'] = len(holes)
        for h in holes[:12]:
            ctx.fail('correspondence', 'coverage: ' + h, None)
