"""Stream `valued` of check C07: Model/MpsDenote.v (vget_B / vconv / vapply_op / vget_B_at / window_den) against
MPS.get_B / set_B / convert_form / get_theta.

MPS are built directly from dyadic tensors (small integers times powers of two), singular values 4^k and arbitrary
stored labels (named forms, custom (nuL, nuR) in units of 1/2, None) on finite, segment and infinite chains; random
histories of convert_form([...]) and set_B(i, get_B(i, f), f) at any integer i, with probes get_B(i, form) (also partial
forms) and get_theta(i, n, formL=0, formR=1) (windows across the unit-cell boundary).  Every float of every stored
tensor is dumped as mantissa * 2^exponent; Coq recomputes each step with the functions of MpsDenote.v instantiated at
dyadic tensors / diagonal powers of two (Model/MpsDenoteCheck.v) and compares every entry exactly.
"""
import common
import mps_gen as G
from common import coq_lit, Nat, CoqRaw, Some

KINDS = ['SH:none', 'S1:none', 'F:none', 'B2:none']
DIM = {'SH:none': 2, 'S1:none': 3, 'F:none': 2, 'B2:none': 3}


def gen_form(rng):
    if rng.random() < 0.7:
        return list(G.HALF[rng.choice(G.FORMS)])
    return [rng.choice([0, 1, 2, 3, -1]), rng.choice([0, 1, 2, 3, -1])]


def gen_case(rng):
    bc = rng.choice(['finite', 'finite', 'infinite', 'infinite', 'segment'])
    fin = bc != 'infinite'
    L = rng.choice([1, 2, 2, 3, 3, 4])
    kinds = [rng.choice(KINDS) for _ in range(L)]
    chi = [rng.randint(1, 3) for _ in range(L + 1)]
    if bc == 'finite':
        chi[0] = chi[L] = 1
    if bc == 'infinite':
        chi[L] = chi[0]
    nb = L + 1 if fin else L
    svlog = [[rng.choice([0, 0, 1, 2, -1, -2, 3]) for _ in range(chi[b])] for b in range(nb)]
    if bc == 'finite':
        svlog[0] = [0]
        svlog[L] = [0]
    B = [[[[[rng.randint(-3, 3), rng.choice([0, 0, 0, 1, -1])] for _ in range(chi[i + 1])] for _ in range(DIM[kinds[i]])]
          for _ in range(chi[i])] for i in range(L)]
    form = [list(G.HALF[rng.choice(G.FORMS)]) for _ in range(L)]     # the constructor accepts only the named forms (test_sanity)
    if rng.random() < 0.12:
        form[rng.randrange(L)] = None
    ops = []
    for _ in range(rng.randint(1, 5)):
        r = rng.random()
        if fin:
            i = rng.randrange(L) if rng.random() < 0.85 else rng.randint(-L - 1, L + 1)
        else:
            i = rng.randint(-2 * L, 3 * L)
        if r < 0.30:
            ops.append({'op': 'convert_form', 'forms': rng.choice(G.FORMS) if rng.random() < 0.3 else [gen_form(rng) for _ in range(L)]})
        elif r < 0.55:
            ops.append({'op': 'set_get', 'i': i, 'form': gen_form(rng), 'copy': rng.random() < 0.5})
        elif r < 0.80:
            f = rng.choice([None, gen_form(rng), [rng.choice([None, 0, 1, 2]), rng.choice([None, 0, 1, 2])]])
            ops.append({'op': 'get_B', 'i': i, 'form': f, 'copy': rng.random() < 0.5})
        else:
            n = rng.randint(1, min(3, L)) if fin else rng.randint(1, 3)
            i0 = rng.randrange(L - n + 1) if fin else rng.randint(-2 * L, 2 * L)
            ops.append({'op': 'window', 'i': i0, 'n': n})
    if rng.random() < 0.5:
        ops.append({'op': 'window', 'i': 0, 'n': L})         # chain_den: the whole chain / unit cell
    return {'bc': bc, 'sites': kinds, 'chi': chi, 'svlog': svlog, 'B': B, 'form': form, 'ops': ops}


def tlit(t):
    """[vL][p][vR][m, k] -> Coq literal of type tens"""
    return [[[(int(x[0]), int(x[1])) for x in row] for row in mat] for mat in t]


def obs_lit(snap):
    return [(None if f is None else Some((f[0], f[1])), tlit(t)) for f, t in zip(snap['form'], snap['B'])]


def expand(forms, L):
    if isinstance(forms, str):
        return [tuple(G.HALF[forms])] * L
    return [tuple(f) for f in forms]


def valued_stream(ctx, script, rng, ncases):
    cases = [gen_case(rng) for _ in range(ncases)]
    n = min(common.NPROC, 4)
    chunks = [cases[i::n] for i in range(n)]
    res = common.run_impl_parallel(script, [{'kind': 'valued', 'cases': ch} for ch in chunks if ch])
    outs = [None] * len(cases)
    for k, (r, err) in enumerate(res):
        if err:
            ctx.fail('correspondence', 'valued-form runner failed: ' + err[-600:], None)
            continue
        for j, o in enumerate(r):
            outs[k + j * n] = o
    lits = {'check_valued_case': [], 'check_valued_get_B': [], 'check_valued_window': []}
    meta = {k: [] for k in lits}
    for c, o in zip(cases, outs):
        if o is None:
            continue
        info = {'stream': 'valued', 'case': c}
        if 'error' in o:
            ctx.fail('correspondence', 'valued-form runner: unexpected exception: ' + o['error'][:500], info)
            continue
        fin = c['bc'] != 'infinite'
        L = len(c['sites'])
        if o['svlog'] != c['svlog'] or not o['S_unchanged']:
            ctx.fail('correspondence', 'valued-form: the stored singular values are not the ones given to the constructor / were changed by a form conversion', info)
            continue
        ctx.count('valued', [c], nontrivial=max(c['chi']) > 1,
                  sample={'bc': c['bc'], 'sites': c['sites'], 'chi': c['chi'], 'form': c['form'], 'ops': [x['op'] for x in c['ops']]})
        for k, (op, r) in enumerate(zip(c['ops'], o['res'])):
            before = obs_lit(o['snap'][k])
            after = o['snap'][k + 1]
            inf = dict(info, step=k, impl={'before': o['snap'][k], 'after': after, 'res': r})
            raised = 'raised' in r
            t = op['op']
            if t in ('convert_form', 'set_get'):
                if t == 'convert_form':
                    cop = CoqRaw('(OConvert %s)' % coq_lit(expand(op['forms'], L)))
                else:
                    cop = CoqRaw('(OSetBScaled %s %s)' % (coq_lit(op['i']), coq_lit(tuple(op['form']))))
                lits['check_valued_case'].append(coq_lit((fin, c['svlog'], before, cop, None if raised else Some(obs_lit(after)))))
                meta['check_valued_case'].append(inf)
            else:
                if o['snap'][k] != after:
                    ctx.fail('correspondence', 'valued-form: the probe %s changed the stored tensors or labels' % t, inf)
                res_l = None if raised else Some(tlit(r['probe']))
                if t == 'get_B':
                    f = op['form']
                    new = None if f is None else Some((None if f[0] is None else Some(f[0]), None if f[1] is None else Some(f[1])))
                    lits['check_valued_get_B'].append(coq_lit((fin, c['svlog'], before, op['i'], new, res_l)))
                    meta['check_valued_get_B'].append(inf)
                else:
                    lits['check_valued_window'].append(coq_lit((fin, c['svlog'], before, op['i'], Nat(op['n']), res_l)))
                    meta['check_valued_window'].append(inf)
    total = 0
    imports = ['Base.Prelude', 'Model.MpsIndex', 'Model.MpsForm', 'Model.MpsDenote', 'Model.MpsDenoteCheck']
    for fn in sorted(lits):
        if not lits[fn]:
            continue
        bad, err = common.coq_failing_indices('c07_' + fn, imports, fn, lits[fn])
        if err:
            ctx.fail('correspondence', 'valued-form: model evaluation failed: ' + err[-500:], None)
        for b in bad[:3]:
            ctx.fail('correspondence', 'Model/MpsDenote.v (%s) and the tensors of get_B / set_B / convert_form / get_theta disagree '
                     '(which power of which singular values on which side)' % fn, meta[fn][b])
        total += len(lits[fn])
    ctx.cov.setdefault('valued_steps', {}).update({k: len(v) for k, v in lits.items()})
    return total
