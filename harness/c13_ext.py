"""C13, option-space strata: the documented options of DMRGEngine / Sweep / IterativeSweeps / Mixer / VUMPSEngine / MPOEnvironment that the
older streams of harness/c13.py leave at their defaults, the other documented ways of starting an engine (dmrg.run, orthogonal_to,
resume_data / init_env_data, init_env, a second run() on the same engine, DMRGThreadPlusHC) and the documented errors.  Every feature is
forced by stratification (feature k of the list for the k-th case), on top of a randomly drawn model / chain / initial state / option set.
The oracle is the same everywhere: the RETURNED state is normalised, canonical (norm_test), in the charge sector, the reported energy is
<psi|H|psi> of the returned state up to the reported truncation and not below the exact ground-state energy (dense Hamiltonians and
closed-form energies of harness/c13.py)."""
import json

import numpy as np

FINITE_FEATURES = [
    'ED_all', 'ED_all_mixer', 'E_tol_to_trunc', 'P_tol_none', 'tol_bounds', 'max_S_err', 'norm_tol', 'mixer_never_disabled', 'mixer_eps',
    'mixer_on_at_end', 'mixer_class', 'chi_list_none', 'chi_list_fn', 'chi_list_fn_small', 'dm_mixer_1site_ZN', 'via_run_1', 'via_run_2', 'shelve', 'shelve_mixer', 'nsc', 'L_big',
    'start_env_sites_finite', 'rerun', 'reinit_env', 'reinit_env_model', 'thread', 'thread_ED', 'orth1', 'orth2_dict', 'orth_single',
    'orth_thread', 'orth_positive', 'err_active_sites', 'err_diag', 'err_thread_nohc', 'err_thread_nocombine',
]
INFINITE_FEATURES = [
    'combine', 'start_env_sites', 'TM', 'start_env_0', 'noncanonical_init', 'chi_list_inf', 'norm_tol_loop', 'norm_tol_loose',
    'resume_seq', 'resume_incompatible_psi', 'resume_other_model', 'tol_trunc_inf', 'err_orth_inf', 'reinit_env_inf', 'resume_seq_chi_list',
]
VUMPS_FEATURES = [
    'L1', 'check_overlap_false', 'diag_gauge', 'norm_tol_tight', 'lanczos_options_alias', 'psi_uniform', 'chi_list_vumps', 'parity_vumps2',
    'nsc2_split', 'mixer_class_vumps2', 'err_L1_two',
]


def _strip(case):
    case.pop('regauge', None)
    case['ext'] = True
    return case


def gen_finite(rng, k, gen_case):
    """feature FINITE_FEATURES[k mod n] on top of a case of gen_case (model, L, initial state, engine, mixer, eigensolver options)."""
    feat = FINITE_FEATURES[k % len(FINITE_FEATURES)]
    exact = feat in ('ED_all_mixer', 'mixer_never_disabled', 'mixer_class', 'chi_list_fn', 'chi_list_fn_small', 'via_run_2', 'L_big', 'thread', 'rerun',
                     'reinit_env_model', 'start_env_sites_finite') or (feat in ('nsc', 'E_tol_to_trunc') and rng.random() < 0.5)
    case = _strip(gen_case(rng, exact=exact))
    case['feature'] = feat
    case['stream'] = 'dmrg-finite-options'
    opts = case['options']
    m = case['model']
    L = case['L']
    if opts.get('diag_method') == 'arpack':
        opts['diag_method'] = 'lanczos'
        opts['lanczos_params'] = {}
    mixer_on = opts.get('mixer') is not None

    def hc_model():
        # DMRGThreadPlusHC "works only with explicit_plus_hc set" and combine=True
        m['explicit_plus_hc'] = True
        opts['combine'] = True
        case['engine'] = 'thread'
        if opts.get('mixer') is None:
            opts['mixer'] = True
            opts['mixer_params'] = {'amplitude': 1e-3, 'decay': 2.0, 'disable_after': 3}
            opts['min_sweeps'] = 5
            opts['max_sweeps'] = max(opts['max_sweeps'], 7)
    if feat in ('ED_all', 'ED_all_mixer'):
        # "ED_all: allows to change the charge sector even for explicitly conserved charges"
        opts['diag_method'] = 'ED_all'
        opts.pop('max_N_for_ED', None)
        if feat == 'ED_all':
            opts['mixer'] = None
            opts.pop('mixer_params', None)
        case['any_sector'] = True
        if m.get('conserve') in (None, 'None'):
            # (a conserved charge, so that "all sectors" differs from "the sector of the initial state")
            m['conserve'] = 'parity' if m['name'] == 'tfi' else 'Sz'
        if L > 7:
            case['L'] = L = 6
            case['init_idx'] = case['init_idx'][:L]
            case['init'] = case['init'][:L]
    elif feat == 'E_tol_to_trunc':
        opts['E_tol_to_trunc'] = rng.choice([0.05, 0.5, 1.0])
        opts['diag_method'] = 'lanczos'
    elif feat == 'P_tol_none':
        opts['P_tol_to_trunc'] = None
        opts['diag_method'] = 'lanczos'
    elif feat == 'tol_bounds':
        opts.update({'E_tol_to_trunc': rng.choice([0.1, 1.0]), 'E_tol_min': rng.choice([1e-14, 1e-10]), 'E_tol_max': rng.choice([1e-8, 1e-5]),
                     'P_tol_to_trunc': rng.choice([0.01, 0.5]), 'P_tol_min': rng.choice([1e-20, 1e-12]), 'P_tol_max': rng.choice([1e-9, 1e-6]),
                     'diag_method': 'lanczos'})
        if 'chi_list' not in opts:
            opts['trunc_params']['chi_max'] = rng.choice([2, 3, 4])        # truncation: the tolerances are actually updated
    elif feat == 'max_S_err':
        opts['max_S_err'] = rng.choice([1e-3, 1e-8, 1e-12])
    elif feat == 'norm_tol':
        # (norm_tol = None, an undocumented value that switches the final canonicalisation off, is not drawn)
        opts['norm_tol'] = rng.choice([1e-3, 1e-5, 1e-12])
        opts['norm_tol_final'] = rng.choice([1e-10, 1e-14, 1e-6])
        if 'chi_list' not in opts:
            opts['trunc_params']['chi_max'] = rng.choice([2, 3, 4])
    elif feat == 'mixer_never_disabled':
        # "disable_after: None means to never disable the mixer", "decay None: the amplitude does not decay": the run converges with an
        # enabled mixer, which stopping_criterion then disables before it continues
        opts['mixer_params'] = {'amplitude': rng.choice([1e-3, 1e-5]), 'decay': rng.choice([None, 1.0, 1.5]), 'disable_after': None}
        opts['min_sweeps'] = rng.choice([1, 2, 3])
        opts['max_sweeps'] = 30
    elif feat == 'mixer_eps':
        # the amplitude decays below machine precision before disable_after
        opts['mixer'] = opts.get('mixer') or True
        opts['mixer_params'] = {'amplitude': rng.choice([1e-15, 3e-16, 1e-14]), 'decay': rng.choice([2.0, 10.0]), 'disable_after': 20}
        opts['min_sweeps'] = 3
        opts['max_sweeps'] = max(opts['max_sweeps'], 6)
    elif feat == 'mixer_on_at_end':
        # the run stops at max_sweeps while the mixer is still active
        opts['mixer'] = opts.get('mixer') or rng.choice([True, 'SubspaceExpansion', 'DensityMatrixMixer'])
        opts['mixer_params'] = {'amplitude': rng.choice([1e-2, 1e-3, 1e-5]), 'decay': rng.choice([1.0, 2.0]), 'disable_after': rng.choice([None, 20])}
        opts['max_sweeps'] = rng.choice([2, 3, 5])
        opts['min_sweeps'] = 10
        opts.pop('chi_list', None)
        opts['trunc_params'].setdefault('chi_max', 16)
    elif feat == 'mixer_class':
        opts['mixer'] = rng.choice(['SubspaceExpansion', 'DensityMatrixMixer'])
        case['mixer_as_class'] = True
    elif feat == 'chi_list_none':
        # "a value of None is initialized to the current value of trunc_params['chi_max'] at algorithm initialization"
        chi = rng.choice([4, 8, 16])
        opts['trunc_params']['chi_max'] = chi
        opts['chi_list'] = {'0': rng.choice([2, 3]), str(rng.choice([2, 3, 4])): None}
        opts['max_sweeps'] = max(opts['max_sweeps'], 8)
        opts.pop('min_sweeps', None)
    elif feat == 'dm_mixer_1site_ZN':
        # one-site engine + DensityMatrixMixer on a Z_2 charge, started from site tensors with qtotal != 0 (regauged bonds: same state)
        case['engine'] = 'single'
        if m['name'] not in ('tfi', 'fermion', 'longrange'):
            case['model'] = m = {'name': 'tfi', 'J': 1.0, 'g': rng.choice([0.4, 1.7]), 'conserve': 'parity'}
            case['init'] = [['up', 'down'][i] for i in case['init_idx']]
        m['conserve'] = 'parity'
        opts['mixer'] = 'DensityMatrixMixer'
        opts['mixer_params'] = {'amplitude': 1e-3, 'decay': 2.0, 'disable_after': 3}
        opts['min_sweeps'] = 5
        opts['max_sweeps'] = max(opts['max_sweeps'], 7)
        case['regauge'] = [[rng.randrange(L - 1), 1] for _ in range(rng.choice([1, 2]))]
        case['exact'] = False
    elif feat in ('chi_list_fn', 'chi_list_fn_small'):
        full = 2 ** (L // 2)
        chi_max = rng.choice([full, full + 3, 16])
        # (chi_max < dchi: the documented ramp is the single entry {0: chi_max})
        case['chi_list_fn'] = [chi_max, rng.choice([2, 3, 4, 5]) if feat == 'chi_list_fn' else rng.choice([20, chi_max + 1, 64]), rng.choice([1, 2, 3])]
        opts['trunc_params'].pop('chi_max', None)
        opts.pop('chi_list', None)
        opts.pop('min_sweeps', None)
        opts['max_sweeps'] = 40
        opts['mixer_params'] = {'amplitude': 1e-4, 'decay': 2.0, 'disable_after': 3}
        case['exact'] = False
        case['ramp_exact'] = True
    elif feat in ('via_run_1', 'via_run_2'):
        case['via_run'] = True
        opts['active_sites'] = 1 if feat == 'via_run_1' else 2
        case['engine'] = 'single' if feat == 'via_run_1' else 'two'
        if feat == 'via_run_1':
            case['exact'] = False
            if opts.get('mixer') is None or (opts['mixer'] == 'DensityMatrixMixer' and m.get('conserve') == 'parity'):
                opts['mixer'] = 'SubspaceExpansion'
                opts.setdefault('mixer_params', {'amplitude': 1e-3, 'decay': 2.0, 'disable_after': 3})
                opts['min_sweeps'] = max(opts.get('min_sweeps', 1), 5)
                opts['max_sweeps'] = max(opts['max_sweeps'], 6)
    elif feat in ('shelve', 'shelve_mixer'):
        nsc = rng.choice([1, 1, 2])
        opts['N_sweeps_check'] = nsc
        case['shelve_after'] = rng.choice([1, 2, 3])
        if rng.random() < 0.5:
            opts['max_hours'] = rng.choice([0.5, 24.0, 1000.0])
        if feat == 'shelve_mixer':
            opts['mixer'] = opts.get('mixer') or True
            opts['mixer_params'] = {'amplitude': 1e-3, 'decay': 2.0, 'disable_after': 12}
        elif mixer_on:
            opts['mixer_params']['disable_after'] = 1
        opts['min_sweeps'] = 12
        opts['max_sweeps'] = 14
        case['no_stop_trace'] = True
    elif feat == 'nsc':
        opts['N_sweeps_check'] = nsc = rng.choice([2, 3, 4])
        opts['max_sweeps'] = max(opts['max_sweeps'], 3 * nsc + (opts.get('mixer_params') or {}).get('disable_after', 0))
        if rng.random() < 0.5:
            opts.pop('min_sweeps', None)
            if mixer_on:
                opts['mixer_params']['disable_after'] = 1
    elif feat == 'L_big':
        case['L'] = L = rng.choice([9, 10])
        idx = [(i + rng.randint(0, 1)) % 2 for i in range(L)] if rng.random() < 0.3 else [i % 2 for i in range(L)]
        names = ['empty', 'full'] if m['name'] == 'fermion' else ['up', 'down']
        case['init_idx'], case['init'] = idx, [names[i] for i in idx]
        opts['trunc_params']['chi_max'] = 32
        opts['max_sweeps'] = 16
        opts['max_E_err'] = 1e-13
    elif feat == 'start_env_sites_finite':
        case['init_env_data'] = {'start_env_sites': rng.choice([1, 2, 5])}
        case['expect_warning'] = 'setting `start_env_sites` to 0 for finite MPS'
    elif feat == 'rerun':
        case['rerun'] = rng.choice([1, 1, 2])
        case['no_stop_trace'] = True
    elif feat in ('reinit_env', 'reinit_env_model'):
        case['rerun'] = 1
        case['no_stop_trace'] = True
        if feat == 'reinit_env':
            case['reinit_env'] = True
        else:
            m2 = json.loads(json.dumps(m))
            for key in ('g', 'Jz', 'V', 'hz'):
                if key in m2:
                    m2[key] = m2[key] + rng.choice([0.3, -0.2, 0.7])
                    break
            case['reinit_env'] = m2
    elif feat in ('thread', 'thread_ED'):
        hc_model()
        if feat == 'thread_ED':
            opts['diag_method'] = rng.choice(['ED_block', 'default'])       # TwoSiteHThreadPlusHC.to_matrix
            opts.pop('max_N_for_ED', None)
    elif feat in ('orth1', 'orth2_dict', 'orth_single', 'orth_thread', 'orth_positive'):
        # excited states: orthogonal_to = the lower states found by the engine itself
        case['orthogonal'] = {'n': 2 if feat == 'orth2_dict' else 1, 'as_dict': feat == 'orth2_dict' or rng.random() < 0.3}
        case['engine'] = 'single' if feat == 'orth_single' else 'two'
        case['exact'] = False
        if feat == 'orth_single' and (opts.get('mixer') in (None, 'DensityMatrixMixer')):
            opts['mixer'] = 'SubspaceExpansion'
            opts['mixer_params'] = {'amplitude': 1e-3, 'decay': 2.0, 'disable_after': 3}
            opts['min_sweeps'] = 5
            opts['max_sweeps'] = max(opts['max_sweeps'], 7)
        if feat == 'orth_thread':
            hc_model()
        if feat == 'orth_positive':
            # all energies of the sector are >= 0: "terminated with an energy consistent with zero. Orthogonality can not be guaranteed."
            case['model'] = m = {'name': 'fermion', 'J': rng.choice([1.0, 0.5]), 'V': rng.choice([6.0, 9.0]), 'mu': rng.choice([-4.0, -6.0]),
                                 'conserve': rng.choice(['N', 'parity'])}
            case['init'] = [['empty', 'full'][i] for i in case['init_idx']]
        if sum(case['init_idx']) in (0, L) and m.get('conserve', 'Sz') in ('Sz', 'N'):
            case['init_idx'] = idx = [i % 2 for i in range(L)]                # (the sector needs more than one state)
            names = ['empty', 'full'] if m['name'] == 'fermion' else ['up', 'down']
            case['init'] = [names[i] for i in idx]
        if L > 8:
            case['L'] = 8
            case['init_idx'], case['init'] = case['init_idx'][:8], case['init'][:8]
    elif feat == 'err_active_sites':
        case['via_run'] = True
        opts['active_sites'] = rng.choice([0, 3, 4])
        case['expect_error'] = 'ValueError'
    elif feat == 'err_diag':
        opts['diag_method'] = rng.choice(['ed', 'Lanczos', 'exact'])
        case['expect_error'] = 'ValueError'
    elif feat == 'err_thread_nohc':
        case['engine'] = 'thread'
        opts['combine'] = True
        m.pop('explicit_plus_hc', None)
        case['expect_error'] = 'ValueError'
    elif feat == 'err_thread_nocombine':
        hc_model()
        opts['combine'] = False
        case['expect_error'] = 'NotImplementedError'
    return case


def _inf_base(rng, engine):
    L = rng.choice([2, 2, 3, 4])
    mixer = rng.choice([True, 'DensityMatrixMixer', 'SubspaceExpansion'])
    cons = 'None' if (engine == 'single' and mixer == 'DensityMatrixMixer') else rng.choice(['None', 'parity'])
    model = {'name': 'tfi', 'J': 1.0, 'g': rng.choice([0.5, 1.5, 2.0]), 'conserve': cons}
    # (one-site engine: even number of environment sweeps per iteration, see F13.3)
    nsc = rng.choice([2, 3]) if engine == 'two' else rng.choice([1, 4])
    opts = {'trunc_params': {'chi_max': rng.choice([8, 12, 16]), 'svd_min': 1e-10}, 'max_sweeps': 32, 'N_sweeps_check': nsc, 'max_E_err': 1e-10,
            'mixer': mixer, 'mixer_params': {'amplitude': 1e-3, 'decay': 2.0, 'disable_after': 8}}
    if engine == 'single' and nsc == 1:
        opts['update_env'] = 2
    return {'ext': True, 'model': model, 'L': L, 'bc': 'infinite', 'engine': engine, 'init': ['up'] * L, 'init_idx': [0] * L, 'options': opts,
            'stream': 'dmrg-infinite-options', 'init_chi': None}


def gen_infinite(rng, k):
    feat = INFINITE_FEATURES[k % len(INFINITE_FEATURES)]
    engine = ['two', 'single'][(k // len(INFINITE_FEATURES) + k) % 2]
    case = _inf_base(rng, engine)
    case['feature'] = feat
    opts = case['options']
    first_opts = {'mixer': True if engine == 'two' else 'SubspaceExpansion', 'trunc_params': {'chi_max': 4, 'svd_min': 1e-10},
                  'max_sweeps': rng.choice([2, 4]), 'N_sweeps_check': 2, 'update_env': 2,
                  'mixer_params': {'amplitude': 1e-3, 'decay': 2.0, 'disable_after': 1}}
    if feat == 'combine':
        opts['combine'] = True
    elif feat == 'start_env_sites':
        # MPOEnvironment.init_first_LP_last_RP: "If start_env_sites is given as an integer, contract that many sites into the environment"
        case['init_env_data'] = {'start_env_sites': rng.choice([0, 1, 2, 3, 5])}
        if rng.random() < 0.5:
            opts['start_env'] = 0           # no environment sweep at construction: the ages are those of init_LP / init_RP
            case['expect_env_age0'] = case['init_env_data']['start_env_sites']
    elif feat == 'TM':
        case['init_env_data'] = {'force_init_method': rng.choice(['TM', 'iter'])}
        case['init_chi'] = rng.choice([None, 4])
        if case['init_chi']:
            case['model']['conserve'] = 'None'
    elif feat == 'start_env_0':
        case['init_env_data'] = {'start_env_sites': 0}
        opts['start_env'] = rng.choice([0, 2, 3])
    elif feat == 'noncanonical_init':
        case['init_noncanonical'] = rng.choice([0.3, -0.5, 0.05])
        case['init_chi'] = rng.choice([2, 4])
        case['model']['conserve'] = 'None'
        case['expect_warning'] = 'call psi.canonical_form() to regenerate MPO environments'
    elif feat == 'chi_list_inf':
        c1 = opts['trunc_params'].pop('chi_max')
        opts['chi_list'] = {'0': rng.choice([2, 4]), str(rng.choice([2, 4])): c1}
        if rng.random() < 0.5:
            opts['chi_list_reactivates_mixer'] = False
    elif feat == 'norm_tol_loop':
        # post_run_cleanup: "update the environment with at most norm_tol_iter sweeps until norm_err < norm_tol", then canonical_form
        opts['norm_tol'] = rng.choice([1e-13, 1e-12])
        opts['norm_tol_iter'] = rng.choice([1, 2, 3])
        opts['norm_tol_final'] = rng.choice([1e-14, 1e-10])
        if 'update_env' not in opts and engine == 'two':
            opts['update_env'] = rng.choice([1, 2])
    elif feat == 'norm_tol_loose':
        opts['norm_tol'] = rng.choice([1e-3, 1e-4])
        opts['norm_tol_final'] = rng.choice([1e-7, 1e-9])
    elif feat == 'rerun_inf':
        case['rerun'] = 1
        case['no_stop_trace'] = True
    elif feat == 'resume_seq':
        # sequential simulations: init_env_data of a first run is handed to the engine of the next one (same psi)
        case['resume_from'] = {'options': first_opts}
    elif feat == 'resume_incompatible_psi':
        case['resume_from'] = {'options': first_opts, 'keep_psi': False}
        case['expect_warning'] = 'incompatible virtual legs'
    elif feat == 'resume_other_model':
        case['model']['conserve'] = cons = rng.choice(['None', 'parity'])
        case['resume_from'] = {'options': first_opts, 'keep_psi': True,
                               'model': {'name': 'longrange', 'couplings': [[1, 1.0, 0.0, 0.5], [2, 0.3, 0.0, 0.2]], 'hz': 0.0, 'conserve': cons}}
        case['expect_warning'] = 'incompatible MPO legs'
        if engine == 'single' and opts['mixer'] == 'DensityMatrixMixer':
            opts['mixer'] = 'SubspaceExpansion'
    elif feat == 'tol_trunc_inf':
        opts.update({'E_tol_to_trunc': rng.choice([0.1, 1.0]), 'P_tol_to_trunc': rng.choice([None, 0.05, 0.5]), 'max_S_err': rng.choice([1e-4, 1e-6])})
        opts['trunc_params']['chi_max'] = rng.choice([4, 6])
    elif feat == 'err_orth_inf':
        case['orthogonal'] = {'n': 1, 'copy_only': True}
        case['expect_error'] = 'ValueError'
    elif feat == 'reinit_env_inf':
        # Sweep.init_env on an engine that has run: "reuse previous environments" (infinite), then a second run()
        case['rerun'] = 1
        case['reinit_env'] = True
        case['no_stop_trace'] = True
    elif feat == 'resume_seq_chi_list':
        case['resume_from'] = {'options': first_opts}
        c1 = opts['trunc_params'].pop('chi_max')
        opts['chi_list'] = {'0': 4, str(rng.choice([2, 4])): c1}
        case['expect_warning'] = 'Re-using environment with `chi_list` set'
    return case


def gen_vumps(rng, k):
    feat = VUMPS_FEATURES[k % len(VUMPS_FEATURES)]
    engine = 'vumps2' if feat in ('chi_list_vumps', 'parity_vumps2', 'mixer_class_vumps2', 'err_L1_two') else ('vumps1' if feat in ('L1',) else rng.choice(['vumps1', 'vumps2']))
    L = rng.choice([2, 2, 3])
    model = {'name': 'tfi', 'J': 1.0, 'g': rng.choice([0.5, 1.5, 2.0]), 'conserve': 'None'}
    opts = {'trunc_params': {'chi_max': 8, 'svd_min': 1e-10}, 'max_sweeps': rng.choice([10, 14]), 'max_E_err': 1e-10, 'combine': False, 'mixer': None}
    case = {'ext': True, 'model': model, 'L': L, 'bc': 'infinite', 'engine': engine, 'options': opts, 'stream': 'vumps-options', 'feature': feat,
            'init_chi': 8 if engine == 'vumps1' else None}
    if feat == 'L1':
        case['L'] = L = 1
    elif feat == 'check_overlap_false':
        opts['check_overlap'] = False
    elif feat == 'diag_gauge':
        opts['diagonal_gauge_frequency'] = rng.choice([1, 2, 3])
        opts['cutoff'] = rng.choice([0.0, 1e-14, 1e-10])
        opts['N_sweeps_check'] = rng.choice([1, 2])
    elif feat == 'norm_tol_tight':
        # "norm_tol: check if final state is in canonical form": above it the energy of the last sweep is returned
        opts['norm_tol'] = rng.choice([1e-17, 1e-3])
    elif feat == 'lanczos_options_alias':
        opts['lanczos_options'] = {'N_min': rng.choice([2, 4]), 'N_max': rng.choice([20, 30]), 'reortho': rng.random() < 0.5}
        case['expect_warning'] = "'lanczos_options' renamed to 'lanczos_params'"
    elif feat == 'psi_uniform':
        case['psi_uniform'] = True
    elif feat == 'chi_list_vumps':
        opts['trunc_params'].pop('chi_max')
        opts['chi_list'] = {'0': rng.choice([2, 4]), str(rng.choice([2, 3, 5])): 8}
        opts['mixer'] = rng.choice([None, 'SubspaceExpansion'])
    elif feat == 'parity_vumps2':
        model['conserve'] = 'parity'
        opts['mixer'] = rng.choice([None, 'SubspaceExpansion', 'DensityMatrixMixer'])
        if opts['mixer'] == 'DensityMatrixMixer':
            case['L'] = L = 3
    elif feat == 'nsc2_split':
        opts['N_sweeps_check'] = rng.choice([2, 3])
        opts['max_split_err'] = rng.choice([1e-4, 1e-12])
        opts['max_S_err'] = rng.choice([1e-3, 1e-9])
    elif feat == 'mixer_class_vumps2':
        opts['mixer'] = rng.choice(['SubspaceExpansion', True])
        case['mixer_as_class'] = True
    elif feat == 'err_L1_two':
        case['L'] = L = 1
        case['expect_error'] = 'ValueError'
    if opts['mixer'] is not None:
        opts['mixer_params'] = {'amplitude': 1e-3, 'decay': 2.0, 'disable_after': 5}
    case['init'] = ['up'] * L
    case['init_idx'] = [0] * L
    return case


# ------------------------------------------------------------------------------ oracle for the finite strata
def doc_chi_list(chi_max, dchi, nsweeps):
    """documentation of dmrg.chi_list: 'increases chi by dchi every nsweeps sweeps up to a given maximal chi_max ... keys increase by
    nsweeps, values by dchi, until a maximum of chi_max is reached'."""
    out, chi, s = {}, dchi, 0
    while chi < chi_max:
        out[str(s)] = chi
        chi, s = chi + dchi, s + nsweeps
    out[str(s)] = chi_max
    return out


def finite_oracle(case, r, dense_H, sector_mask, h_symmetry_labels, hist, tag=''):
    """-> (problems, known) for one (E, psi) returned by run(): problems as strings, known = match key of a registered finding or None."""
    probs = []
    L = case['L']
    H = dense_H(case)
    mask = sector_mask(case)
    psi = np.array([complex(a, b) for a, b in r[tag + 'psi']])
    nrm = np.linalg.norm(psi)
    lab = h_symmetry_labels(case)
    if case.get('any_sector'):
        # ED_all may leave the sector of the initial state, but the result still has a definite value of every conserved charge
        cons = case['model'].get('conserve', 'Sz')
        labc = lab % 2 if cons == 'parity' else (lab if cons in ('Sz', 'N') else np.zeros_like(lab))
        wts = {int(l): np.linalg.norm(psi[labc == l]) for l in set(labc.tolist())}
        best = max(wts, key=wts.get)
        mask = labc == best
        hist['ED_all_left_sector'] = hist.get('ED_all_left_sector', 0) + int(r['q0'] != r[tag + 'q1'])
    w = np.linalg.eigvalsh(H[np.ix_(mask, mask)])
    E0 = w[0]
    scale = max(1.0, np.abs(w).max())
    if abs(nrm - 1) > 1e-8 or abs(r[tag + 'norm'] - 1) > 1e-8:
        probs.append('returned state not normalised: |psi| = %.12g, psi.norm = %.12g' % (nrm, r[tag + 'norm']))
    # ("norm_tol_final: if norm_err < norm_tol_final [the state is returned as it is, otherwise] call canonical_form")
    if r[tag + 'norm_test'] > max(1e-8, case['options'].get('norm_tol_final') or 0.0):
        probs.append('returned state not canonical: norm_test = %.3e' % r[tag + 'norm_test'])
    if r[tag + 'S_ndim'] != 1:
        probs.append('returned state has a non-diagonal (2D) matrix of singular values')
    out_w = np.linalg.norm(psi[~mask])
    if out_w > 1e-10 or (r['q0'] != r[tag + 'q1'] and not case.get('any_sector')):
        probs.append('state left the charge sector of the initial state (weight outside %.3e, charges %s -> %s)' % (out_w, r['q0'], r[tag + 'q1']))
    Eexp = (psi.conj() @ H @ psi).real / max(1e-300, nrm ** 2)
    if abs(Eexp - r[tag + 'E_mpo']) > 1e-9 * scale:
        probs.append('H_MPO.expectation_value %.12g differs from dense <psi|H|psi> %.12g' % (r[tag + 'E_mpo'], Eexp))
    terr = max(r.get(tag + 'last_trunc_err') or 0.0, 0.0)
    tolE = 1e-8 * scale + 20 * scale * np.sqrt(terr)
    E = r[tag + 'E']
    if E is None or not np.isfinite(E):
        probs.append('reported E = %s' % E)
        return probs, Eexp, w, scale
    if abs(E - Eexp) > tolE:
        probs.append('reported E = %.12g, <psi|H|psi> = %.12g (truncation error of the last sweep %.2e)' % (E, Eexp, terr))
    if Eexp < E0 - 1e-10 * scale or E < E0 - 1e-9 * scale:
        probs.append('energy below the exact ground-state energy of the sector: E = %.12g, <H> = %.12g, E0 = %.12g' % (E, Eexp, E0))
    return probs, Eexp, w, scale


def exact_clause(case, r, H, mask, psi, scale, h_symmetry_labels, hist, what):
    """'two-site DMRG with a mixer reaches the exact ground-state energy and state' (same rule as the stream dmrg-finite of harness/c13.py:
    the ground state of the explicitly conserved sector, or - when the model conserves less than H does - of the symmetry sector of H in
    which the returned state lies)."""
    probs = []
    w, V = np.linalg.eigh(H[np.ix_(mask, mask)])
    E0 = w[0]
    lab = h_symmetry_labels(case)
    wts = {int(l): np.linalg.norm(psi[mask & (lab == l)]) for l in set(lab[mask].tolist())}
    mask2 = mask & (lab == max(wts, key=wts.get))
    w2, V2 = np.linalg.eigh(H[np.ix_(mask2, mask2)])
    if w2[0] > E0 + 1e-9 * scale and abs(r['E'] - w2[0]) < abs(r['E'] - E0):
        w = w2
        V = np.zeros((int(mask.sum()), V2.shape[1]), dtype=complex)
        V[mask2[mask], :] = V2
    E0x = w[0]
    deg = int(np.sum(w < E0x + 1e-9 * scale))
    gap = (w[deg] - E0x) if deg < len(w) else 1.0
    if abs(r['E'] - E0x) > 1e-7 * scale:
        probs.append('%s did not reach the exact energy: E = %.12g, E0 = %.12g (sweeps %d, chi %s)' % (what, r['E'], E0x, r['sweeps'], r['chi']))
    elif gap > 1e-3:
        ov = np.linalg.norm(V[:, :deg].conj().T @ psi[mask])
        if ov < 1 - 1e-5:
            probs.append('%s: exact energy but overlap with the ground-state eigenspace is %.8f' % (what, ov))
        else:
            hist['ext_exact_reached'] = hist.get('ext_exact_reached', 0) + 1
    return probs


KEY_DM_1SITE_ZN = 'C13:SingleSiteDMRGEngine+DensityMatrixMixer:Z_N-charge:qtotal-wraps:determine_qtotal_L_R-ValueError'
KEY_MIXER_END = 'C13:DMRGEngine.post_run_cleanup:run-ends-with-active-mixer:state-not-canonical'


def check_finite(ctx, case, r, helpers, hist):
    """oracle of one finite case of the option strata; helpers = (dense_H, sector_mask, h_symmetry_labels)."""
    dense_H, sector_mask, h_symmetry_labels = helpers
    stream, feat = case['stream'], case['feature']
    hist['feature_' + feat] = hist.get('feature_' + feat, 0) + 1
    info = {'stream': stream, 'case': case}
    if case.get('expect_error'):
        ctx.count(stream, [feat, case['model'], case['L'], case['engine'], case['options']], nontrivial=True)
        if not str(r.get('error', '')).startswith(case['expect_error']):
            ctx.fail('oracle', 'feature %s: documented %s not raised (%s)' % (feat, case['expect_error'], r.get('error') or 'run returned E = %s' % r.get('E')),
                     info, match_key='C13:' + stream + ':' + feat)
        return
    if 'error' in r:
        ctx.count(stream, [feat, case['model'], case['L'], case['engine'], case['options']], nontrivial=True)
        key = 'C13:raises'
        if r['error'].startswith('ValueError: qtotal_LR must add up to') and 'determine_qtotal_L_R' in (r.get('tb') or '') and case['engine'] == 'single' \
                and case['options'].get('mixer') == 'DensityMatrixMixer' and case['model'].get('conserve') == 'parity' and case.get('regauge'):
            key = KEY_DM_1SITE_ZN
        ctx.fail('oracle', 'feature %s: engine raised %s' % (feat, r['error']), dict(info, tb=r.get('tb')), match_key=key)
        return
    probs = []
    allw = ' | '.join((r.get('warnings') or []) + (r.get('log_warnings') or []))
    if case.get('expect_warning') and case['expect_warning'] not in allw:
        probs.append('documented warning %r not issued (got: %s)' % (case['expect_warning'], allw[:300]))
    # ---- every (E, psi) that a run() returned: earlier runs of the same engine first
    for kk in range(int(case.get('rerun', 0))):
        tag = 'run%d_' % kk
        c0 = case
        p0, Eexp0, _w, _s = finite_oracle(c0, r, dense_H, sector_mask, h_symmetry_labels, hist, tag=tag)
        probs += ['run %d of the same engine: %s' % (kk, x) for x in p0]
    cfin = case
    if isinstance(case.get('reinit_env'), dict):
        cfin = dict(case, model=case['reinit_env'])
    p1, Eexp, w, scale = finite_oracle(cfin, r, dense_H, sector_mask, h_symmetry_labels, hist)
    caveat = False
    if case.get('orthogonal'):
        # documented limitation (DMRGEngine.post_run_cleanup, KrylovBased option E_shift): the states projected out are exact eigenvectors
        # of the projected effective Hamiltonian with eigenvalue 0 (independent of E_shift), so a target level that is not negative (after
        # the shift) is not the lowest one: "Orthogonality can not be guaranteed", and the eigenvalue that is reported belongs to a
        # projected-out vector.  Then only normalisation, canonical form and the charge sector are required.
        n_o = int(case['orthogonal']['n'])
        lp = case['options'].get('lanczos_params') or {}
        shift = lp.get('E_shift', 0.0) if (r.get('N_lanczos_last') or [-1])[-1] >= 1 else 0.0
        warned = 'energy consistent with zero' in allw
        caveat = warned or (len(w) > n_o and w[n_o] + shift > -1e-6) or len(w) <= n_o or any(lo.get('warned') for lo in (r.get('lower') or []))
        hist['ext_orth_target_level_not_negative'] = hist.get('ext_orth_target_level_not_negative', 0) + int(caveat)
        if caveat:
            p1 = [x for x in p1 if not (x.startswith('reported E') or x.startswith('energy below'))]
    ended_with_mixer = bool(r.get('mixer_end'))
    if not ended_with_mixer:
        # (since the partial repair of F13.7 the engine deactivates the mixer in post_run_cleanup, before the runner can see it:
        # decide from the options instead - a mixer that is never disabled and a run that used up max_sweeps)
        o_ = case.get('options', {})
        mp_ = o_.get('mixer_params') or {}
        ended_with_mixer = bool(o_.get('mixer')) and 'disable_after' in mp_ and mp_['disable_after'] is None and \
            o_.get('max_sweeps') is not None and (r.get('sweeps') or 0) >= o_['max_sweeps']
    hist['ext_mixer_active_at_end'] = hist.get('ext_mixer_active_at_end', 0) + int(ended_with_mixer)
    hist['ext_shelved'] = hist.get('ext_shelved', 0) + int(bool(r.get('shelve')))
    if ended_with_mixer and p1 and all(('not canonical' in x or 'reported E' in x or 'not normalised' in x or 'non-diagonal' in x or 'differs from dense' in x) for x in p1):
        ctx.fail('oracle', 'run ended (max_sweeps / shelved) with an active %s mixer: %s' % (case['options'].get('mixer'), '; '.join(p1[:3])),
                 dict(info, impl={k_: r.get(k_) for k_ in ('E', 'E_mpo', 'norm_test', 'sweeps', 'chi', 'shelve')}), match_key=KEY_MIXER_END)
        p1 = []
    probs += p1
    mask = sector_mask(cfin)
    H = dense_H(cfin)
    psi = np.array([complex(a, b) for a, b in r['psi']])
    if case.get('rerun') and not isinstance(case.get('reinit_env'), dict):
        # another run() on the converged state does not raise the energy (same model, same options)
        E_prev = r['run%d_E' % (int(case['rerun']) - 1)]
        if r['E'] > E_prev + 1e-8 * scale + 40 * scale * np.sqrt(max(r.get('last_trunc_err') or 0.0, 0.0)):
            probs.append('second run() of the same engine raised the energy: %.12g -> %.12g' % (E_prev, r['E']))
    # ---- feature-specific documented facts
    if feat in ('shelve', 'shelve_mixer'):
        nsc = case['options'].get('N_sweeps_check', 1)
        want = r['sweeps'] == case['shelve_after'] * nsc
        if bool(r.get('shelve')) != want:
            probs.append('max_hours exceeded after %d iterations: engine.shelve = %s after %d sweeps' % (case['shelve_after'], r.get('shelve'), r['sweeps']))
    elif r.get('shelve'):
        probs.append('engine.shelve is set although max_hours was not exceeded')
    if case.get('via_run') and r.get('info_keys') != ['E', 'bond_statistics', 'shelve', 'sweep_statistics']:
        probs.append("dmrg.run returned the keys %s, documented: 'E', 'shelve', 'bond_statistics', 'sweep_statistics'" % r.get('info_keys'))
    if case.get('chi_list_fn'):
        want = doc_chi_list(*case['chi_list_fn'])
        if r.get('chi_list_fn') != want:
            probs.append('dmrg.chi_list%s = %s, documented ramp %s' % (tuple(case['chi_list_fn']), r.get('chi_list_fn'), want))
        last = max(int(k_) for k_ in want)
        if want[str(last)] < 2 ** (case['L'] // 2):
            case = dict(case, ramp_exact=False)
    if case.get('orthogonal'):
        n_o = int(case['orthogonal']['n'])
        lows = r.get('lower') or []
        E_last = r.get('E_stats_last')
        if E_last is not None and warned != (E_last > -1e-8):
            probs.append('orthogonal_to: final energy %.3e, warning about an energy consistent with zero %s' % (E_last, 'issued' if warned else 'not issued'))
        hist['ext_orth_warned'] = hist.get('ext_orth_warned', 0) + int(warned)
        warned = caveat
        if r.get('n_ortho') != n_o:
            probs.append('engine holds %s environments for %d states to orthogonalise against' % (r.get('n_ortho'), n_o))
        exact_lower = True
        # the projection acts on the local eigenproblem; the truncation of the new tensors afterwards discards weight err of a normalised
        # state and can bring back an overlap of the order sqrt(err)
        mte = max(r.get('max_trunc_err') or 0.0, 0.0)
        tol_ov = 1e-6 + 10 * np.sqrt(mte)
        hist['ext_orth_untruncated'] = hist.get('ext_orth_untruncated', 0) + int(mte < 1e-18)
        for j, lo in enumerate(lows):
            pl = np.array([complex(a, b) for a, b in lo['psi']])
            if abs(lo['E'] - w[j]) > 1e-8 * scale or abs(np.linalg.norm(pl) - 1) > 1e-8:
                exact_lower = False
            ov = abs(np.vdot(pl, psi))
            if not warned and ov > tol_ov:
                probs.append('orthogonal_to: |<state %d|psi>| = %.3e for the returned psi (largest truncation error of the run %.2e)' % (j, ov, mte))
        if not warned and any(o > tol_ov for o in (r.get('ortho_overlaps') or [])):
            probs.append('orthogonal_to: MPS.overlap of the returned psi with the given states %s' % r.get('ortho_overlaps'))
        if exact_lower and not warned and len(w) > n_o:
            hist['ext_orth_exact_lower'] = hist.get('ext_orth_exact_lower', 0) + 1
            # orthogonal to the n lowest eigenvectors of the sector: Rayleigh-Ritz bound by the next level
            if Eexp < w[n_o] - 1e-7 * scale:
                probs.append('orthogonal_to the %d lowest states of the sector: <H> = %.12g below the next level %.12g' % (n_o, Eexp, w[n_o]))
            hist['ext_orth_reached_next_level'] = hist.get('ext_orth_reached_next_level', 0) + int(abs(r['E'] - w[n_o]) < 1e-7 * scale)
    # ---- the exact clause
    untrunc = (r.get('max_trunc_err') or 0.0) < 1e-18
    if case.get('ramp_exact') and not ended_with_mixer:
        probs += exact_clause(cfin, r, H, mask, psi, scale, h_symmetry_labels, hist, 'two-site DMRG with mixer and the chi_list of dmrg.chi_list (last entry does not truncate)')
    elif case.get('exact') and untrunc and not ended_with_mixer and not r.get('shelve') and not case.get('orthogonal') and not case.get('any_sector'):
        probs += exact_clause(cfin, r, H, mask, psi, scale, h_symmetry_labels, hist, 'untruncated two-site DMRG with mixer (%s)' % feat)
    elif case.get('exact') and untrunc and not ended_with_mixer and case.get('any_sector'):
        # ED_all diagonalises the two-site problem in ALL charge sectors; with bonds grown to the full dimension (mixer, chi not
        # truncated) the two-site problem in the middle of the chain is the full problem: the result is the overall ground state
        Eg = np.linalg.eigvalsh(H)[0]
        if abs(r['E'] - Eg) > 1e-7 * scale:
            probs.append('untruncated two-site DMRG with mixer and diag_method ED_all did not reach the lowest energy of all sectors: E = %.12g, '
                         'E0(all sectors) = %.12g (chi %s)' % (r['E'], Eg, r['chi']))
        else:
            hist['ext_ED_all_global_gs'] = hist.get('ext_ED_all_global_gs', 0) + 1
    probs += check_effh(r, scale, True, r['norm_test'] <= 1e-10)
    pt = check_lanczos_tols(case, r)
    hist['ext_lanczos_tol_updates_checked'] = hist.get('ext_lanczos_tol_updates_checked', 0) + int('lanczos_tols_end' in r)
    probs += pt
    hist['effh_probes'] = hist.get('effh_probes', 0) + int(bool(r.get('effh')))
    ctx.count(stream, [feat, case['model'], case['L'], case['engine'], case['init_idx'], case['options']], nontrivial=True,
              sample={'feature': feat, 'model': case['model'], 'L': case['L'], 'engine': case['engine'], 'E': r['E'], 'E0': float(w[0]), 'sweeps': r['sweeps']})
    if probs:
        ctx.fail('oracle', 'feature %s: ' % feat + '; '.join(probs[:4]),
                 dict(info, impl={k_: r.get(k_) for k_ in ('E', 'E_mpo', 'norm_test', 'sweeps', 'chi', 'shelve', 'mixer_end', 'warnings', 'log_warnings')}),
                 match_key='C13:' + stream + ':' + feat)


def check_effh(r, scale, finite=True, canonical=True):
    """the effective Hamiltonians read through their other accessors on the returned state (runner: effh_probe)."""
    probs = []
    for name, (de, dm, da, dh, n) in sorted((r.get('effh') or {}).items()):
        if finite and canonical and de > 1e-8 * scale:
            probs.append('%s: <theta|H_eff|theta> differs from <psi|H|psi> by %.3e at some position' % (name, de))
        if dm > 1e-10 * scale:
            probs.append('%s: to_matrix() and matvec() differ by %.3e' % (name, dm))
        if da > 1e-12 * scale:
            probs.append('%s: adjoint().to_matrix() differs from the conjugate transpose of to_matrix() by %.3e' % (name, da))
        if dh > 1e-9 * scale:
            probs.append('%s: the operator handed to the eigensolver is not hermitian (%.3e)' % (name, dh))
    return probs


def check_lanczos_tols(case, r):
    """DMRGEngine.run_iteration: "we update P_tol of lanczos_params to max_trunc_err * P_tol_to_trunc, restricted to the interval [P_tol_min,
    P_tol_max]" (default of P_tol_min: max(1e-30, svd_min^2 * P_tol_to_trunc, trunc_cut^2 * P_tol_to_trunc), of P_tol_max 1e-4), the same
    for E_tol with max_E_trunc, E_tol_to_trunc (default None: no update), E_tol_min 5e-16, E_tol_max 1e-4; evaluated for the last
    iteration of the run (the truncation error / energy of the last sweep are reported in sweep_stats)."""
    probs = []
    opts = case['options']
    end = r.get('lanczos_tols_end')
    if not end or case.get('rerun') or r.get('shelve') is None:
        return probs
    tp = opts.get('trunc_params') or {}
    ptt = opts.get('P_tol_to_trunc', 0.05)
    terr = r.get('last_trunc_err')
    if ptt is not None and terr is not None:
        svd_min = tp.get('svd_min') or 0.0
        cut = tp.get('trunc_cut') or 0.0
        pmin = opts.get('P_tol_min', max(1e-30, svd_min ** 2 * ptt, cut ** 2 * ptt))
        pmax = opts.get('P_tol_max', 1e-4)
        if terr > pmin:
            want = max(pmin, min(pmax, terr * ptt))
            got = end.get('P_tol')
            if got is None or abs(got - want) > 1e-9 * want:
                probs.append('lanczos_params[P_tol] = %s after the run, documented: max_trunc_err * P_tol_to_trunc = %.3e * %s restricted to [%.1e, %.1e] = %.6e'
                             % (got, terr, ptt, pmin, pmax, want))
    ett = opts.get('E_tol_to_trunc')
    etr = r.get('last_E_trunc')
    if ett is not None and etr is not None:
        emin, emax = opts.get('E_tol_min', 5e-16), opts.get('E_tol_max', 1e-4)
        if etr > emin:
            want = max(emin, min(emax, etr * ett))
            got = end.get('E_tol')
            if got is None or abs(got - want) > 1e-9 * want:
                probs.append('lanczos_params[E_tol] = %s after the run, documented: max_E_trunc * E_tol_to_trunc = %.3e * %s restricted to [%.1e, %.1e] = %.6e'
                             % (got, etr, ett, emin, emax, want))
    return probs
