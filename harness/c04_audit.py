"""C04 coverage audit: what the property quantifies over, read from the SOURCE of the tree under test, against what was executed.

1. enumerate_pairs(repo): the `@use_cython` pairs of np_conserved.py / charges.py by AST, their replacement names in _npc_helper.pyx
   and both argument lists.
2. pyx_branches(repo): the branch structure (if / elif / else / while / raise / assert and the loops) of every function of
   _npc_helper.pyx, by a small indentation parser.  PYX_TABLE maps every branch condition to INPUT CLASSES recorded by
   harness/impl/c04_cov.py (the compiled code cannot be line-traced: the inputs are instrumented, not the binary) or to an
   exclusion with the reason from the property text.  A branch condition of the .pyx that the table does not know is a
   correspondence failure (future edits cannot silently escape), so is a class that no generated input satisfied.
3. REQUIRED: the table  pair x (dtype class, rank, storage layout, sortedness of _qdata, number of blocks, aliasing, prefactor
   class, axes forms, error classes)  that must have occurred in BOTH configurations.
4. LINE_EXCLUDED: the only lines of the Python twins (and of the helpers only they use) that may stay unexecuted.
"""
import ast
import os
import re


def merge_cov(total, part):
    """merge the coverage records (harness/impl/c04_cov.py) of two runner processes of one configuration"""
    if total is None:
        total = {'tags': {}, 'lines_hit': {}, 'install_problems': [], 'aux_errors': []}
    for k, d in (part.get('tags') or {}).items():
        t = total['tags'].setdefault(k, {})
        for tag, e in d.items():
            te = t.setdefault(tag, {})
            for st, n in e.items():
                te[st] = te.get(st, 0) + n
    for k, v in (part.get('lines_hit') or {}).items():
        total['lines_hit'][k] = sorted(set(total['lines_hit'].get(k, [])) | set(v))
    total['install_problems'] = sorted(set(total['install_problems']) | set(part.get('install_problems') or []))
    total['aux_errors'] = (total['aux_errors'] + (part.get('aux_errors') or []))[:5]
    if 'lines' in part:
        total['lines'] = part['lines']
    return total


# ------------------------------------------------------------------------------------------------
# 1. the pairs
# ------------------------------------------------------------------------------------------------

PY_FILES = ('tenpy/linalg/np_conserved.py', 'tenpy/linalg/charges.py')
PYX_FILE = 'tenpy/linalg/_npc_helper.pyx'

# python name of every pair this check knows (= the recorders of harness/impl/c04_cov.py) -> streams that compare it
PAIRS = {
    'ChargeInfo.make_valid': 'kernels:make_valid (direct, + Coq model) and every program (legs, qtotal)',
    'ChargeInfo.check_valid': 'kernels:check_valid (direct, + Coq model) and every program (test_sanity of every observed tensor)',
    'LegPipe._init_from_legs': 'kernels:pipe (direct, + Coq model), programs/pair-classes (combine_legs, make_pipe)',
    '_find_row_differences': 'kernels:find_row_differences (direct, + Coq model), programs (bunch, sort_legcharge, combine, tensordot)',
    '_map_blocks': 'kernels:map_blocks (direct, + Coq model), programs/pair-classes (split_legs)',
    '_sliced_copy': 'kernels:sliced_copy (direct, + Coq model, numpy slicing oracle), programs/pair-classes (combine_legs, split_legs)',
    '_make_stride': 'kernels:make_stride (direct, + Coq model), programs (pipes, tensordot, inner, iadd)',
    'Array.itranspose': 'kernels:itrans (+ Coq model), programs, strided-views, pair-classes',
    'Array.iadd_prefactor_other': 'kernels:merge (+ Coq model), programs, permuted-label-sums, inplace-chains, blockfree-dtype, strided-views, pair-classes',
    'Array.iscale_prefactor': 'programs, inplace-chains, blockfree-dtype, strided-views, pair-classes',
    'Array._imake_contiguous': 'inplace-chains, strided-views (direct) and inside every BLAS-backed kernel',
    '_combine_legs_worker': 'programs (combine / w_combine), strided-views, pair-classes',
    '_split_legs_worker': 'programs (split / w_split), pair-classes',
    '_inner_worker': 'programs (inner / w_inner / full tensordot), strided-views, pair-classes',
    '_tensordot_transpose_axes': 'programs (tensordot / w_tensordot), strided-views, pair-classes',
    '_tensordot_worker': 'programs (tensordot / w_tensordot), strided-views, pair-classes, algorithms',
}


def _args(fn):
    return [a.arg for a in fn.args.posonlyargs + fn.args.args] + ([('*' + fn.args.vararg.arg)] if fn.args.vararg else [])


def enumerate_pairs(repo):
    """{python qualified name: {'file', 'line', 'replacement', 'args', 'pyx_args'}}, problems"""
    pairs, problems = {}, []
    pyx = open(os.path.join(repo, PYX_FILE)).read()
    pyx_defs = {}
    for m in re.finditer(r'^(?:cpdef|def)\s+(?:[\w\.\[\], ]+?\s+)?(\w+)\s*\(([^)]*)\)\s*:', pyx, re.M | re.S):
        args = []
        for a in re.sub(r'\[[^\]]*\]', '', m.group(2)).split(','):
            a = a.split('=')[0].strip()
            if a:
                args.append(a.split()[-1].strip())
        pyx_defs[m.group(1)] = args
    for rel in PY_FILES:
        tree = ast.parse(open(os.path.join(repo, rel)).read())

        def visit(node, prefix):
            for ch in ast.iter_child_nodes(node):
                if isinstance(ch, ast.ClassDef):
                    visit(ch, prefix + ch.name + '.')
                elif isinstance(ch, ast.FunctionDef):
                    for d in ch.decorator_list:
                        src = ast.unparse(d)
                        if 'use_cython' not in src:
                            continue
                        repl = ch.name
                        if isinstance(d, ast.Call):
                            for kw in d.keywords:
                                if kw.arg == 'replacement':
                                    repl = ast.literal_eval(kw.value)
                        name = prefix + ch.name
                        pairs[name] = {'file': rel, 'line': ch.lineno, 'end_line': ch.end_lineno, 'replacement': repl,
                                       'args': _args(ch), 'pyx_args': pyx_defs.get(repl)}
                        if repl not in pyx_defs:
                            problems.append('%s: replacement %s is not defined in %s' % (name, repl, PYX_FILE))
                        elif [a.rstrip('_') for a in pyx_defs[repl]] != _args(ch):
                            problems.append('%s: argument lists differ: python %s, compiled %s' % (name, _args(ch), pyx_defs[repl]))
                    visit(ch, prefix + ch.name + '.')
        visit(tree, '')
    for name in pairs:
        if name not in PAIRS:
            problems.append('pair %s (%s:%d) is not known to the check (no input recorder, no class table)' % (
                name, pairs[name]['file'], pairs[name]['line']))
    for name in PAIRS:
        if name not in pairs:
            problems.append('pair %s of the class table no longer exists in the source' % name)
    return pairs, problems


# ------------------------------------------------------------------------------------------------
# 2. branch structure of the .pyx
# ------------------------------------------------------------------------------------------------

def pyx_branches(repo):
    """{function: [(line, kind, text)]}; kind in if/elif/else/while/for/raise/assert/CT (compile-time IF/ELSE).  The text of an
    `else` is 'else of: <condition of the if/elif chain it closes>'; repeated texts inside one function get '#2', '#3' appended"""
    src = open(os.path.join(repo, PYX_FILE)).read().split('\n')
    funcs, cur, cls, indoc = {}, None, None, False
    chain = {}                      # indentation -> condition of the last if/elif at that indentation
    for i, line in enumerate(src, 1):
        s = line.strip()
        ind = len(line) - len(line.lstrip())
        if not s or s.startswith('#'):
            continue
        q = s.count('"""')
        if indoc:
            if q % 2 == 1:
                indoc = False
            continue
        if q % 2 == 1:
            indoc = True
            continue
        if q == 2:
            continue
        m = re.match(r'^cdef class (\w+)', line)
        if m:
            cls, cur = m.group(1), None
            continue
        m = re.match(r'^(\s*)(cpdef|cdef|def)\s+(?:inline\s+)?(?:[\w\.\[\],:\* ]+?\s+)?(\w+)\s*\(', line)
        if m and not s.startswith('cdef extern') and len(m.group(1)) in (0, 4) and s.rstrip().endswith((':', ',')) is not None \
                and ('(' in s) and not re.match(r'^\s*cdef\s+[\w\.\[\], :\*]+\s*=', line) and \
                re.search(r'\)\s*(nogil|noexcept nogil|except \*|noexcept)?\s*:\s*$', _join(src, i)):
            if len(m.group(1)) == 0:
                cls = None
            cur = (cls + '.' if cls and len(m.group(1)) == 4 and ind == 4 else '') + m.group(3)
            funcs[cur] = []
            chain = {}
            continue
        if ind == 0 and not s.startswith('@'):
            cur, cls = None, None                      # (also the compile-time IF/ELSE at top level end a class body)
        if cur is None:
            continue
        m = re.match(r'^(if|elif|while|for)\s+(.*?):\s*(#.*)?$', s)
        if m:
            cond = m.group(2).strip()
            cond = re.sub(r':\s*#.*$', '', cond).strip()
            if m.group(1) in ('if', 'elif'):
                chain[ind] = cond
            funcs[cur].append([i, m.group(1), cond])
        elif re.match(r'^else\s*:', s):
            funcs[cur].append([i, 'else', 'else of: ' + chain.get(ind, '?')])
        elif re.match(r'^(IF|ELSE|ELIF)\b', s):
            funcs[cur].append([i, 'CT', s.rstrip(':')])
        elif re.match(r'^(raise|assert)\b', s):
            funcs[cur].append([i, s.split()[0], re.sub(r'\s+#.*$', '', s)])
    for f, bl in funcs.items():
        seen = {}
        for b in bl:
            k = (b[1], b[2])
            seen[k] = seen.get(k, 0) + 1
            if seen[k] > 1:
                b[2] = '%s#%d' % (b[2], seen[k])
    return funcs


def _join(src, i):
    """the (possibly multi-line) header starting at line i"""
    out = ''
    for k in range(i - 1, min(i + 20, len(src))):
        out += ' ' + src[k].split('#')[0].rstrip()
        if out.rstrip().endswith(':'):
            break
    return out


# function of the .pyx -> pair whose recorder describes its inputs ('-': not part of any pair, with the reason)
FUNC2PAIR = {
    '_np_empty_ND': '-allocation helper without branches', '_np_empty_1D': '-allocation helper without branches',
    '_np_empty_2D': '-allocation helper without branches', '_np_zeros_1D': '-allocation helper without branches',
    '_np_zeros_2D': '-allocation helper without branches',
    '_make_stride': '_make_stride',
    'CblasGemmBatch.__cinit__': '_tensordot_worker', 'CblasGemmBatch.append': '_tensordot_worker', 'CblasGemmBatch.run': '_tensordot_worker',
    'dgemm_batch': '_tensordot_worker', 'zgemm_batch': '_tensordot_worker',
    '_blas_inpl_add': 'Array.iadd_prefactor_other', '_blas_inpl_scale': 'Array.iscale_prefactor',
    '_sliced_strided_copy': '_sliced_copy', '_find_calc_dtype': '_tensordot_worker',
    '_float_complex_are_64_bit': '-import-time check of the numpy build (tenpy/linalg/__init__.py), no tensor argument',
    '_make_valid_charges_1D': 'ChargeInfo.make_valid', '_make_valid_charges_2D': 'ChargeInfo.make_valid',
    'ChargeInfo_make_valid': 'ChargeInfo.make_valid', 'ChargeInfo_check_valid': 'ChargeInfo.check_valid',
    'LegPipe__init_from_legs': 'LegPipe._init_from_legs', '_find_row_differences': '_find_row_differences',
    '_find_row_differences_qdata': '_tensordot_worker', '_partial_qtotal': 'LegPipe._init_from_legs', '_map_blocks': '_map_blocks',
    '_sliced_copy': '_sliced_copy', 'Array_itranspose': 'Array.itranspose', 'Array_itranspose_fast': 'Array.itranspose',
    'Array_iadd_prefactor_other': 'Array.iadd_prefactor_other', 'Array_iscale_prefactor': 'Array.iscale_prefactor',
    'Array__imake_contiguous': 'Array._imake_contiguous', '_combine_legs_worker': '_combine_legs_worker',
    '_split_legs_worker': '_split_legs_worker', '_tensordot_transpose_axes': '_tensordot_transpose_axes',
    '_iter_common_sorted_push': '_inner_worker', '_tensordot_pre_sort': '_tensordot_worker',
    '_tensordot_match_charges': '_tensordot_worker', '_tensordot_worker': '_tensordot_worker', '_inner_worker': '_inner_worker',
}

X_INVARIANT = 'x:internal invariant, no input of a valid or documented-invalid program reaches it'
X_OPT = 'x:shape mismatch at optimization level 3: an INVALID program at the documented-unsafe level (undefined by the docs)'
X_DOC12 = 'x:charges documented as 1D or 2D with last dimension qnumber'
X_RANK0 = 'x:rank-0 blocks: the Array class has no rank 0 (assumption on _sliced_copy in harness/c04.py)'
X_DTYPE = 'x:dtypes outside the quantifier (float32/64, complex64/128, int); find_best_blas_type maps all of these to s/d/c/z'
X_CALLER = 'x:<= 1 stored block on a side: handled by the only caller npc.tensordot before the worker (docstring of the branch); ' \
           'direct worker calls are generated with >= 2 blocks only'
X_DEAD = 'x:a list never equals a range object in Python 3: the condition is always true, the false arm is dead'

# (true-arm requirement, false-arm requirement).  A requirement is 'x:reason' (excluded) or a list of groups 'pair|tag,tag,..':
# every group needs at least one of its tags with a positive count in the COMPILED configuration.  None: arm needs nothing
# beyond a call of the function.  For raise / assert / for / while a single requirement.
A = 'Array.iadd_prefactor_other|'
S = 'Array.iscale_prefactor|'
T = '_tensordot_worker|'
I = '_inner_worker|'
MV = 'ChargeInfo.make_valid|'
CV = 'ChargeInfo.check_valid|'
P = 'LegPipe._init_from_legs|'
TT = '_tensordot_transpose_axes|'

PYX_TABLE = {
    '_make_stride': {
        'cstyle': (['_make_stride|cstyle=1'], ['_make_stride|cstyle=0']),
        'else of: cstyle': ['_make_stride|cstyle=0'],
        'a in range(L-1, 0, -1)': ['_make_stride|L=1', '_make_stride|L=3+'],
        'a in range(0, L-1)': ['_make_stride|L=1', '_make_stride|L=3+'],
    },
    'CblasGemmBatch.append': {'self.ms.size() <= level': [T + 'levels=1', T + 'levels=2,levels=3+']},
    'CblasGemmBatch.run': {
        'N_batches == 0': ([T + 'res-blocks=0'], [T + 'res-blocks=1-63']),
        'self.int_ones.size() <= batch_size': ([T + 'res-blocks=64+'], [T + 'res-blocks=1-63']),
        'level < N_batches': [T + 'levels=2,levels=3+'],
        'assert self.ms[level].size() <= batch_size': X_INVARIANT, 'assert batch_size > 0': X_INVARIANT,
        'self.is_real': ([T + 'calc=f8'], [T + 'calc=c16']),
        'level == 0': ([T + 'calc=f8'], [T + 'f8&levels>=2']), 'else of: level == 0': [T + 'f8&levels>=2'],
        'else of: self.is_real': [T + 'calc=c16'],
        'level == 0#2': ([T + 'calc=c16'], [T + 'c16&levels>=2']), 'else of: level == 0#2': [T + 'c16&levels>=2'],
    },
    'dgemm_batch': {'b in range(batch_size)': [T + 'calc=f8']},
    'zgemm_batch': {'b in range(batch_size)': [T + 'calc=c16']},
    '_blas_inpl_add': {'dtype_num == np.NPY_FLOAT64': ([A + 'axpy=f8'], [A + 'axpy=c16']), 'else of: dtype_num == np.NPY_FLOAT64': [A + 'axpy=c16']},
    '_blas_inpl_scale': {
        'dtype_num == np.NPY_FLOAT64': ([S + 'dscal&nblk=1,dscal&nblk=2+', A + 'bscal=dscal'], [S + 'zscal&nblk=1,zscal&nblk=2+']),
        'else of: dtype_num == np.NPY_FLOAT64': [S + 'zdscal&nblk=1,zdscal&nblk=2+'],
        'prefactor.imag == 0.': ([S + 'zdscal&nblk=1,zdscal&nblk=2+', A + 'bscal=zdscal'], [S + 'zscal&nblk=1,zscal&nblk=2+', A + 'bscal=zscal']),
        'else of: prefactor.imag == 0.': [S + 'zscal&nblk=1,zscal&nblk=2+'],
    },
    '_sliced_strided_copy': {
        'ndim < 1': (X_RANK0, None),
        'ndim == 1': (['_sliced_copy|ndim=1', '_combine_legs_worker|res_rank=1', '_split_legs_worker|rank=1'], None),
        'ndim == 2': (['_sliced_copy|ndim=2', '_combine_legs_worker|res_rank=2', '_split_legs_worker|rank=2'], None),
        'ndim == 3': (['_sliced_copy|ndim=3', '_combine_legs_worker|res_rank=3', '_split_legs_worker|rank=3'],
                      ['_sliced_copy|ndim=4,ndim=5,ndim=6', '_sliced_copy|ndim=7+', '_combine_legs_worker|res_rank=4,res_rank=5+',
                       '_split_legs_worker|rank=4+']),
        'i in range(l0)': ['_sliced_copy|slice-len0'], 'i in range(l0)#2': None, 'j in range(l1)': None,
        'i in range(l0)#3': ['_sliced_copy|ndim=7+'], 'j in range(l1)#2': None, 'k in range(l2)': None,
    },
    '_find_calc_dtype': {
        "prefix == 's' or prefix == 'd'": ([T + 'res=f8', T + 'res=f4', T + 'res=i8', I + 'res=i8'], [T + 'res=c16']),
        "prefix == 'c' or prefix == 'z'": ([T + 'res=c16', T + 'res=c8', I + 'res=c8'], X_DTYPE),
        "else of: prefix == 'c' or prefix == 'z'": X_DTYPE, 'raise ValueError("can\'t handle the data type prefix "': X_DTYPE,
        'calc_dtype_num != np.NPY_FLOAT64 and calc_dtype_num != np.NPY_COMPLEX128': (X_INVARIANT, None),
        'raise ValueError("calc_dtype != double, complex double")': X_INVARIANT,
    },
    '_make_valid_charges_1D': {
        'j in range(qnumber)': None,
        'qm != 1': ([MV + 'ndim=1&val<0,ndim=1&val>=mod,ndim=1&already-valid'], [MV + 'ndim=1&mod1-column']),
        'q < 0': ([MV + 'ndim=1&val<0'], [MV + 'ndim=1&val>=mod', MV + 'ndim=1&already-valid']),
    },
    '_make_valid_charges_2D': {
        'j in range(qnumber)': None, 'i in range(L)': [MV + 'L=0'],
        'qm != 1': ([MV + 'ndim=2&val<0,ndim=2&val>=mod,ndim=2&already-valid'], [MV + 'ndim=2&mod1-column']),
        'q < 0': ([MV + 'ndim=2&val<0'], [MV + 'ndim=2&val>=mod', MV + 'ndim=2&already-valid']),
    },
    'ChargeInfo_make_valid': {
        'charges is None': ([MV + 'arg=None'], None),
        'charges_.ndim == 1': ([MV + 'ndim=1'], [MV + 'ndim=2']),
        'assert (charges_.shape[0] == qnumber)': X_DOC12, 'assert (charges_.shape[1] == qnumber)': X_DOC12,
        'qnumber == 0': ([MV + 'ndim=1&qnum=0'], [MV + 'ndim=1&qnum>0']),
        'charges_.ndim == 2': ([MV + 'ndim=2'], X_DOC12),
        'qnumber == 0#2': ([MV + 'ndim=2&qnum=0'], [MV + 'ndim=2&qnum>0']),
        'raise ValueError("wrong dimension of charges "': X_DOC12,
    },
    'ChargeInfo_check_valid': {
        'qnumber == 0': ([CV + 'qnum=0'], [CV + 'qnum=1,qnum=2+']),
        'j in range(qnumber)': None, 'q == 1': ([CV + 'mod1-column'], [CV + 'valid=1']), 'i in range(L)': [CV + 'L=0'],
        'x < 0 or x >= q': ([CV + 'val==-1', CV + 'val==mod', CV + 'val<0', CV + 'val>mod', CV + 'first-row-valid-later-invalid',
                             CV + 'first-column-valid-later-invalid'], [CV + 'valid=1', CV + 'val==0', CV + 'val==mod-1']),
    },
    'LegPipe__init_from_legs': {
        'i in range(nlegs)': [P + 'nlegs=1', P + 'nlegs=3+'], 'j in range(nblocks)': [P + 'nblocks=2+'],      # (one block per leg: special-cased by the only caller LegPipe.__init__)
        'sort and qnumber > 0': ([P + 'sort=1&qnum>0', P + 'needs-permutation=1', P + 'fused-ties=1'], [P + 'sort=0&qnum>0', P + 'sort=1&qnum=0']),
        'else of: sort and qnumber > 0': [P + 'sort=0&qnum>0'],
        'j in range(nblocks)#2': None, 'bunch': ([P + 'bunch=1'], [P + 'bunch=0']), 'else of: bunch': [P + 'bunch=0'],
        'i in range(idx.shape[0]-1)': [P + 'fused-all-equal=1', P + 'fused-ties=0'], 'j in range(idx[i], idx[i+1])': [P + 'fused-ties=1'],
        'j in range(idx[idx.shape[0]-1], nblocks)': None, 'j in range(nblocks)#3': None, 'j in range(nblocks)#4': None,
    },
    '_find_row_differences': {
        'qflat.shape[1] == 0': (['_find_row_differences|M=0'], ['_find_row_differences|M=1,M=2+']),
        'qflat.shape[0] == 0': (['_find_row_differences|L=0&M>0'], None),
        'i in range(1, L)': ['_find_row_differences|L=1'], 'j in range(M)': ['_find_row_differences|difference-in-later-column-only'],
        'qflat_c[i-1, j] != qflat_c[i, j]': (['_find_row_differences|rows=all-different,rows=mixed'], ['_find_row_differences|rows=all-equal,rows=mixed']),
        'not rows_equal': (['_find_row_differences|rows=mixed'], ['_find_row_differences|rows=all-equal']),
    },
    '_find_row_differences_qdata': {
        'qdata.shape[1] == 0': ([T + 'keep_a=0', T + 'keep_b=0'], [T + 'keep_a=1,keep_a=2,keep_a=3+']),
        'i in range(1, L)': None, 'j in range(M)': None,
        'qdata_c[i-1, j] != qdata_c[i, j]': ([T + 'rows_a=2+'], [T + 'row-with-several-blocks', '_combine_legs_worker|old-per-new=many']),
        'not rows_equal': ([T + 'cols_b=2+'], [T + 'col-with-several-blocks']),
    },
    '_partial_qtotal': {
        'qnumber == 0': ([P + 'qnum=0'], [P + 'qnum=1,qnum=2+']),
        'a in range(nlegs)': [T + 'keep_a=0'], 'i in range(qdata.shape[0])': None, 'k in range(qnumber)': None,
        'add_qtotal is not None': ([T + 'qnum=1,qnum=2+'], [P + 'qnum=1,qnum=2+']),
        'k in range(qnumber)#2': None, 'i in range(res.shape[0])': None,
    },
    '_map_blocks': {'i in range(len_blocksizes)': ['_map_blocks|len=0'], 'i in range(len_blocksizes)#2': ['_map_blocks|len=2+'],
                    'j in range(s, s + N)': ['_map_blocks|has-size0', '_map_blocks|has-size>1']},
    '_sliced_copy': {
        'dest_beg is not None': (['_sliced_copy|dest_beg=given', '_combine_legs_worker|calls'], ['_sliced_copy|dest_beg=None', '_split_legs_worker|nblk=1,nblk=2+']),
        'i in range(ndim)': None,
        'src_beg is not None': (['_sliced_copy|src_beg=given', '_split_legs_worker|nblk=1,nblk=2+'], ['_sliced_copy|src_beg=None', '_combine_legs_worker|calls']),
        'i in range(ndim)#2': None,
    },
    'Array_itranspose': {
        'axes is None': (['Array.itranspose|axes=None'], ['Array.itranspose|axes=permutation']),
        'else of: axes is None': ['Array.itranspose|axes-elems=label', 'Array.itranspose|axes-elems=int+label,axes-elems=int+label+negint',
                                  'Array.itranspose|axes-elems=negint,axes-elems=int+negint'],
        'len(axes) != self.rank or len(set(axes)) != self.rank': (['Array.itranspose|axes=wrong-length-or-duplicate'], None),
        'raise ValueError("axes has wrong length: "': ['Array.itranspose|outcome=raise:ValueError'],
        'axes == list(range(self.rank))': (['Array.itranspose|axes=identity'], ['Array.itranspose|axes=permutation', 'Array.itranspose|axes=reversal']),
    },
    'Array_itranspose_fast': {'i in range(axes.shape[0])': ['Array.itranspose|rank=1', 'Array.itranspose|rank=4+', 'Array.itranspose|lay=gaps',
                                                            'Array.itranspose|lay=perm', 'Array.itranspose|nblk=0']},
    'Array_iadd_prefactor_other': {
        # (present once finding F04.2 is repaired: the argument test of the Python twin)
        'not isinstance(other, _np_conserved.Array) or not np.isscalar(prefactor)': ([A + 'other=not-an-Array', A + 'pval=nonscalar'], None),
        'raise ValueError("wrong argument types: ': [A + 'other=not-an-Array'],
        'not optimize(OptimizationFlag.skip_arg_checks)': ([A + 'opt<3'], [A + 'opt=3']),
        'self.rank != other.rank': ([A + 'pre=rank-differs'], None), 'raise ValueError("different rank!")': [A + 'pre=rank-differs'],
        'self_leg, other_leg in zip(self.legs, other.legs)': [A + 'pre=legs-differ', A + 'labels=permuted'],
        'np.any(self.qtotal != other.qtotal)': ([A + 'pre=qtotal-differs'], None),
        'raise ValueError("Arrays can\'t have different `qtotal`!")': [A + 'pre=qtotal-differs'],
        'prefactor == 0.': ([A + 'pval=0&merge=general', A + 'pval=0&merge=identical-tables', A + 'pval=0&alias=same-object'], None),
        'self.dtype.num != calc_dtype_num': ([A + 'cast=self', A + 'cast=both'], [A + 'cast=none', A + 'cast=other']),
        'other.dtype.num != calc_dtype_num': ([A + 'cast=other', A + 'cast=both'], None),
        'calc_dtype_num != np.NPY_FLOAT64 and calc_dtype_num != np.NPY_COMPLEX128': ([A + 'calc=f4', A + 'calc=c8', A + 'calc=i8'], [A + 'calc=f8', A + 'calc=c16']),
        'Na == Nb and np.all(aq == bq)': ([A + 'merge=identical-tables', A + 'merge=both-empty'], [A + 'merge=general']),
        'i in range(Na)': None,
        'calc_dtype_num == -1': ([A + 'noblas&merge=identical-tables'], [A + 'blas&merge=identical-tables']),
        'else of: calc_dtype_num == -1': [A + 'fast-path&distinct-pointers'],
        'np.PyArray_DATA(ta) == np.PyArray_DATA(tb)': ([A + 'fast-path&same-pointer', A + 'blas&alias=same-object', A + 'blas&alias=same-buffers'],
                                                        [A + 'fast-path&distinct-pointers']),
        'else of: Na == Nb and np.all(aq == bq)': [A + 'merge=general'],
        'i < Na or j < Nb': [A + 'merge:a-empty', A + 'merge:b-empty'],
        'i < Na and j < Nb and aq_[i] == bq_[j]': ([A + 'merge:both'], None),
        'calc_dtype_num == -1#2': ([A + 'noblas&merge:both'], [A + 'blas&merge:both']),
        'else of: calc_dtype_num == -1#2': [A + 'general-path&distinct-pointers'],
        'np.PyArray_DATA(ta) == np.PyArray_DATA(tb)#2': ([A + 'general-path&same-pointer'], [A + 'general-path&distinct-pointers']),
        'k in range(rank)': None,
        'i >= Na or j < Nb and aq_[i] > bq_[j]': ([A + 'merge:b-only', A + 'merge:a-empty'], None),
        'calc_dtype_num == -1#3': ([A + 'noblas&merge:b-only'], [A + 'blas&merge:b-only']),
        'else of: calc_dtype_num == -1#3': [A + 'bscal=dscal', A + 'bscal=zdscal', A + 'bscal=zscal'],
        'k in range(rank)#2': None,
        'j >= Nb or aq_[i] < bq_[j]': ([A + 'merge:a-only', A + 'merge:b-empty'], X_INVARIANT),
        'k in range(rank)#3': None, 'else of: j >= Nb or aq_[i] < bq_[j]': X_INVARIANT, 'assert False': X_INVARIANT,
    },
    'Array_iscale_prefactor': {
        'not np.isscalar(prefactor)': ([S + 'pre=not-scalar'], None),
        'raise ValueError("prefactor is not scalar: ': [S + 'outcome=raise:ValueError'],
        'prefactor == 0.': ([S + 'pval=0'], None),
        'self.dtype.num != calc_dtype_num': ([S + 'cast=1'], [S + 'cast=0']),
        'calc_dtype_num != np.NPY_FLOAT64 and calc_dtype_num != np.NPY_COMPLEX128': ([S + 'calc=f4', S + 'calc=c8', S + 'calc=i8'], [S + 'calc=f8', S + 'calc=c16']),
        'i in range(N)': [S + 'nblk=0', S + 'nblk=2+'],
        'calc_dtype_num == -1': ([S + 'numpy&nblk=1,numpy&nblk=2+'], [S + 'dscal&nblk=1,dscal&nblk=2+']),
        'else of: calc_dtype_num == -1': [S + 'dscal&lay=gaps', S + 'dscal&lay=perm', S + 'zdscal&lay=gaps', S + 'zscal&lay=gaps'],
    },
    '_combine_legs_worker': {
        'j in range(npipes)': ['_combine_legs_worker|npipes=1', '_combine_legs_worker|npipes=2,npipes=3+'],
        'j in range(non_new_axes.shape[0])': ['_combine_legs_worker|non_combined=0', '_combine_legs_worker|non_combined=2+'],
        'j in range(npipes)#2': None, 'ax in range(res_rank)': None,
        'res_row in range(res_stored_blocks)': ['_combine_legs_worker|lay=gaps', '_combine_legs_worker|lay=perm', '_combine_legs_worker|itemsize=4',
                                                '_combine_legs_worker|itemsize=16', '_combine_legs_worker|needs-sort=1'],
        'old_row in range(beg, end)': ['_combine_legs_worker|old-per-new=many', '_combine_legs_worker|old-per-new=one'],
    },
    '_split_legs_worker': {
        'axis in range(self.rank)': None,
        'axis in split_axes_': (['_split_legs_worker|N_split=1', '_split_legs_worker|N_split=2,N_split=3+'], ['_split_legs_worker|nonsplit=1,nonsplit=2+']),
        'else of: axis in split_axes_': ['_split_legs_worker|nonsplit=2+'],
        'self_stored_blocks == 0': (['_split_legs_worker|nblk=0'], ['_split_legs_worker|nblk=1,nblk=2+']),
        'j in range(N_split)': None, 'beg, shape in zip(q_map_slices_beg, q_map_slices_shape)': ['_split_legs_worker|new-per-old=many'],
        'j in range(N_split)#2': ['_split_legs_worker|nested-pipe'], 'ax in range(res.rank)': None,
        'i in range(res_stored_blocks)': ['_split_legs_worker|lay=gaps', '_split_legs_worker|lay=perm', '_split_legs_worker|itemsize=4',
                                          '_split_legs_worker|itemsize=16', '_split_legs_worker|new-per-old=one'],
    },
    '_tensordot_transpose_axes': {
        'a.chinfo != b.chinfo': ([TT + 'pre=different-chinfo'], None), 'raise ValueError("Different ChargeInfo")': [TT + 'pre=different-chinfo'],
        'not axes_int': ([TT + 'axes=pair'], [TT + 'axes=int:int', TT + 'axes=int:int64']),
        'len(axes_a) != len(axes_b)': ([TT + 'pre=axes-lengths-differ'], None),
        'raise ValueError("different lens of axes for a, b: "': [TT + 'pre=axes-lengths-differ'],
        'axes_a != range(a_rank - len(not_axes_a), a_rank)': ([TT + 'a-standard=0', TT + 'a-standard=1'], X_DEAD),
        'axes_b != range(len(axes_b))': ([TT + 'b-standard=0', TT + 'b-standard=1'], X_DEAD),
        'not optimize(OptimizationFlag.skip_arg_checks)': ([TT + 'opt<3'], [TT + 'opt=3']),
        'lega, legb in zip(a.legs[-axes:], b.legs[:axes])': [TT + 'legs=not-contractible', TT + 'ncontract=0', TT + 'ncontract=2,ncontract=3+'],
        'axes > 0 and a.shape[-axes:] != b.shape[:axes]': (X_OPT, [TT + 'opt=3']), 'raise ValueError("Shape mismatch for tensordot")': X_OPT,
    },
    '_iter_common_sorted_push': {
        'i < i_stop and j < j_stop': None,
        'a[i] < b[j]': ([I + 'a-has-unmatched'], None), 'b[j] < a[i]': ([I + 'b-has-unmatched'], None),
        'else of: b[j] < a[i]': [I + 'common=1,common=2+', I + 'common=0', T + 'levels=1'],
    },
    '_tensordot_pre_sort': {'not b._qdata_sorted': ([T + 'qs_b=0'], [T + 'qs_b=1']), 'else of: not b._qdata_sorted': [T + 'qs_b=1']},
    '_tensordot_match_charges': {
        'qnumber == 0': ([T + 'qnum=0'], [T + 'qnum=1', T + 'qnum=2+']),
        'i < n_rows_a and j < n_cols_b': [T + 'walk:rows-left-over', T + 'walk:cols-left-over'],
        'ax in range(qnumber-1, -1, -1)': [T + 'walk:decided-by-earlier-column'],
        'a_charges_keep[i_s, ax] > b_charges_match[j_s, ax]': ([T + 'walk:a>b'], None),
        'a_charges_keep[i_s, ax] < b_charges_match[j_s, ax]': ([T + 'walk:a<b'], [T + 'walk:match']),
        'lexcomp > 0': ([T + 'walk:a>b'], None), 'lexcomp < 0': ([T + 'walk:a<b'], [T + 'walk:match']),
        'i < n_rows_a': None, 'ax in range(qnumber-1, -1, -1)#2': None,
        'a_charges_keep[i_s, ax] != a_charges_keep[i0_s, ax]': ([T + 'rows_a=2+'], [T + 'rows-same-charge']),
        'lexcomp > 0#2': None, 'j < n_cols_b': None, 'ax in range(qnumber-1, -1, -1)#3': None,
        'b_charges_match[j_s, ax] != b_charges_match[j0_s, ax]': ([T + 'cols_b=2+'], [T + 'cols-same-charge']),
        'lexcomp > 0#3': None, 'j1 in range(j0, j)': None, 'j1 in range(j, n_cols_b)': [T + 'walk:cols-left-over'],
    },
    '_tensordot_worker': {
        'a.dtype.num != calc_dtype_num': ([T + 'cast_a=1'], [T + 'cast_a=0']), 'b.dtype.num != calc_dtype_num': ([T + 'cast_b=1'], [T + 'cast_b=0']),
        'len_a_data == 0 or len_b_data == 0 or (len_a_data == 1 and len_b_data == 1)': (X_CALLER, None),
        'raise ValueError("single blocks: ': X_CALLER,
        'row_a in range(n_rows_a)': [T + 'lay_a=gaps', T + 'lay_a=perm'], 'ax in range(cut_a)': None,
        'j in range(a_slices[row_a], a_slices[row_a+1])': [T + 'row-with-several-blocks'],
        'col_b in range(n_cols_b)': [T + 'lay_b=gaps', T + 'lay_b=perm'], 'ax in range(b_rank-cut_b)': None,
        'j in range(b_slices[col_b], b_slices[col_b+1])': [T + 'col-with-several-blocks'],
        'a_qdata_keep.shape[1] == 0': ([T + 'keep_a=0'], [T + 'keep_a=1,keep_a=2,keep_a=3+']), 'else of: a_qdata_keep.shape[1] == 0': None,
        'b_qdata_keep.shape[1] == 0': ([T + 'keep_b=0'], [T + 'keep_b=1,keep_b=2,keep_b=3+']), 'else of: b_qdata_keep.shape[1] == 0': None,
        'col_b in range(n_cols_b)#2': None,
        'match1 == match0': ([T + 'walk:a>b,walk:cols-left-over'], [T + 'walk:match']),
        'ax in range(b_rank - cut_b)': None, 'row_a_sort_idx in range(match0, match1)': [T + 'rows-same-charge'],
        'contr_count == 0': ([T + 'charge-match-without-common-inner-index'], [T + 'levels=1']),
        'ax in range(cut_a)#2': None, 'level in range(contr_count)': [T + 'levels=2', T + 'levels=3+'],
        'ax in range(cut_a)#3': None, 'ax in range(b_rank - cut_b)#2': None,
        'res_n_blocks != 0': ([T + 'res-blocks=1-63'], [T + 'res-blocks=0']),
        'res_n_blocks != res_max_n_blocks': ([T + 'res<max=1&res>0'], [T + 'res<max=0']),
        'res_dtype.num != calc_dtype_num': ([T + 'res-cast=1&res>0', T + 'res=f4', T + 'res=c8', T + 'res=i8'], [T + 'res-cast=0']),
    },
    '_inner_worker': {
        'do_conj': ([I + 'do_conj=1'], [I + 'do_conj=0']),
        'np.any(a.qtotal != b.qtotal)': ([I + 'do_conj=1&qtotal=mismatch'], [I + 'do_conj=1&qtotal=match']),
        'else of: do_conj': [I + 'do_conj=0'],
        'np.any(qtotal_diff != 0)': ([I + 'do_conj=0&qtotal=mismatch'], [I + 'do_conj=0&qtotal=match']),
        'a.stored_blocks == 0 or b.stored_blocks == 0': ([I + 'qtotal=match&noblocks'], [I + 'common=1,common=2+']),
        'a.dtype != calc_dtype': ([I + 'cast=a', I + 'cast=both'], [I + 'cast=none', I + 'cast=b']),
        'b.dtype != calc_dtype': ([I + 'cast=b'], None),
        'not a._qdata_sorted': ([I + 'dot&qs_a=0'], [I + 'dot&qs_a=1']), 'not b._qdata_sorted': ([I + 'dot&qs_b=0'], [I + 'dot&qs_b=1']),
        'match in range(count)': [I + 'common=0', I + 'common=2+', I + 'dot=ddot&lay_a=gaps,dot=ddot&lay_b=gaps',
                                  I + 'dot=ddot&lay_a=perm,dot=ddot&lay_b=perm', I + 'dot=zdotu&lay_a=gaps,dot=zdotu&lay_b=gaps,dot=zdotc&lay_a=gaps,dot=zdotc&lay_b=gaps',
                                  I + 'dot=zdotu&lay_a=perm,dot=zdotu&lay_b=perm,dot=zdotc&lay_a=perm,dot=zdotc&lay_b=perm'],
        'calc_dtype_num == np.NPY_FLOAT64': ([I + 'dot=ddot'], [I + 'dot=zdotc', I + 'dot=zdotu']),
        'else of: calc_dtype_num == np.NPY_FLOAT64': None,
        'do_conj#2': ([I + 'dot=zdotc'], [I + 'dot=zdotu']), 'else of: do_conj#2': [I + 'dot=zdotu'],
        'calc_dtype_num == np.NPY_FLOAT64#2': ([I + 'calc=f8'], [I + 'calc=c16']),
    },
}

DEBUG_TEXTS = ('DEBUG_PRINT',)


def eval_branches(branches, cy_tags):
    """-> (table rows, problems).  row = [function, line, kind, text, status, detail]"""
    rows, problems = [], []
    n = {'reached': 0, 'excluded': 0, 'compile-time': 0, 'no-requirement': 0, 'hole': 0, 'unclassified': 0}

    def count(pair_tag):
        pair, tags = pair_tag.split('|', 1)
        d = cy_tags.get(pair, {})
        return sum(sum((d.get(t) or {}).values()) for t in tags.split(','))

    def check(req):
        """-> (status, detail)"""
        if req is None:
            return 'no-requirement', ''
        if isinstance(req, str):
            return 'excluded', req[2:]
        missing = [g for g in req if count(g) == 0]
        if missing:
            return 'hole', 'no generated input in class ' + '; '.join(missing)
        return 'reached', ', '.join('%s:%d' % (g.split('|', 1)[1], count(g)) for g in req)

    for f, bl in branches.items():
        pair = FUNC2PAIR.get(f)
        if pair is None:
            problems.append('function %s of %s is not classified (FUNC2PAIR)' % (f, PYX_FILE))
            n['unclassified'] += 1
            continue
        table = PYX_TABLE.get(f, {})
        calls = 0 if pair.startswith('-') else sum((cy_tags.get(pair, {}).get('calls') or {}).values())
        for line, kind, text in bl:
            if kind == 'CT' or any(x in text for x in DEBUG_TEXTS):
                n['compile-time'] += 1
                rows.append([f, line, kind, text, 'compile-time', 'build switch (HAVE_MKL / DEBUG_PRINT): one build per tree'])
                continue
            if text not in table and kind in ('raise', 'assert'):
                for k in table:                         # raise / assert statements are keyed by a prefix of their text
                    if k.split('#')[0] and text.startswith(k):
                        text_key = k
                        break
                else:
                    text_key = text
            else:
                text_key = text
            if text_key not in table:
                problems.append('branch `%s %s` (%s:%d, function %s) is not classified in PYX_TABLE' % (kind, text, PYX_FILE, line, f))
                n['unclassified'] += 1
                rows.append([f, line, kind, text, 'unclassified', ''])
                continue
            req = table[text_key]
            arms = [('', req)] if not isinstance(req, tuple) else [('true: ', req[0]), ('false: ', req[1])]
            sts, det = [], []
            for nm, r in arms:
                st, d = check(r)
                if st == 'no-requirement' and not pair.startswith('-') and calls == 0:
                    st, d = 'hole', 'function never called'
                sts.append(st)
                if d:
                    det.append(nm + d)
                n[st] += 1
                if st == 'hole':
                    problems.append('branch `%s %s` (%s:%d, %s): %s%s' % (kind, text, PYX_FILE, line, f, nm, d))
            rows.append([f, line, kind, text, '/'.join(sts), ' | '.join(det)])
    return rows, n, problems


# ------------------------------------------------------------------------------------------------
# 3. pair x input classes (both configurations)
# ------------------------------------------------------------------------------------------------

DT5 = ['f8', 'c16', 'f4', 'c8', 'i8']
PREF = ['pval=0', 'pval=1', 'pval=-1', 'pval=real', 'pval=imag', 'pval=complex',
        'ptype=pyint', 'ptype=pyfloat', 'ptype=pycomplex', 'ptype=bool', 'ptype=np.bool', 'ptype=np.float64', 'ptype=np.float32',
        'ptype=np.complex128', 'ptype=np.complex64', 'ptype=np.int64']


def _each(prefix, vals):
    return [prefix + v for v in vals]


REQUIRED = {
    'ChargeInfo.make_valid': ['arg=None', 'arg=list', 'arg=tuple', 'arg=ndarray:i8:C', 'arg=ndarray:i4:C', 'arg=ndarray:i8:strided', 'ndim=1', 'ndim=2',
                              'L=0', 'L=1', 'L=2+', 'qnum=0', 'qnum=1', 'qnum=2+', 'mod1-column', 'val<0', 'val>=mod', 'val==mod', 'val=-k*mod',
                              'val=big', 'already-valid'],
    'ChargeInfo.check_valid': ['arg=ndarray:i8:C', 'arg=ndarray:i8:strided', 'arg=ndarray:i8:F', 'L=0', 'L=1', 'L=2+', 'qnum=0', 'qnum=1', 'qnum=2+',
                               'mod1-column', 'valid=0', 'valid=1', 'val==mod', 'val==mod-1', 'val==-1', 'val==0', 'val<0', 'val>mod',
                               'first-row-valid-later-invalid', 'first-column-valid-later-invalid'],
    'LegPipe._init_from_legs': ['sort=0', 'sort=1', 'bunch=0', 'bunch=1', 'qnum=0', 'qnum=1', 'qnum=2+', 'nlegs=1', 'nlegs=2', 'nlegs=3+',
                                'pipe_qconj=+1', 'pipe_qconj=-1', 'leg_qconj=+1', 'leg_qconj=-1', 'leg_qconj=+1-1', 'nblocks=2+',
                                'nested-pipe', 'fused-ties=0', 'fused-ties=1', 'fused-all-equal=1', 'needs-permutation=0', 'needs-permutation=1'],
    '_find_row_differences': ['arg=i8:C', 'arg=i8:strided', 'L=0', 'L=1', 'L=2+', 'M=0', 'M=1', 'M=2+', 'rows=all-equal', 'rows=all-different',
                              'rows=mixed', 'difference-in-later-column-only', 'L=0&M>0'],
    '_map_blocks': ['len=0', 'len=1', 'len=2+', 'has-size0', 'all-size0', 'has-size>1'],
    '_sliced_copy': ['ndim=1', 'ndim=2', 'ndim=3', 'ndim=4', 'ndim=5', 'ndim=6', 'ndim=7+', 'dest_beg=None', 'dest_beg=given', 'src_beg=None',
                     'src_beg=given', 'itemsize=4', 'itemsize=8', 'itemsize=16', 'slice-len0', 'last-len1', 'dest-lastdim1', 'src-lastdim1',
                     'whole-array'] + _each('dt=', DT5),
    '_make_stride': ['cstyle=0', 'cstyle=1', 'L=1', 'L=2', 'L=3+', 'arg=list', 'arg=tuple', 'arg=ndarray', 'has-dim0', 'has-dim1'],
    'Array.itranspose': _each('dt=', DT5) + ['rank=1', 'rank=2', 'rank=3', 'rank=4+', 'lay=C', 'lay=perm', 'lay=gaps', 'lay=none', 'qs=0', 'qs=1',
                                             'nblk=0', 'nblk=1', 'nblk=2+', 'axes=None', 'axes=identity', 'axes=permutation', 'axes=reversal',
                                             'axes=wrong-length-or-duplicate', 'axes=unresolvable', 'axes-elems=int', 'axes-elems=label',
                                             'axes-elems=negint,axes-elems=int+negint', 'axes-type=list', 'axes-type=tuple'],
    'Array.iadd_prefactor_other': _each('dt_s=', DT5) + _each('dt_o=', DT5) + _each('calc=', DT5) + PREF + [
        'rank_s=1', 'rank_s=2', 'rank_s=3', 'rank_s=4+', 'lay_s=C', 'lay_s=perm', 'lay_s=gaps', 'lay_s=none', 'lay_o=C', 'lay_o=perm', 'lay_o=gaps',
        'lay_o=none', 'blas&lay_s=gaps', 'blas&lay_s=perm', 'blas&lay_o=gaps', 'blas&lay_o=perm', 'noblas&lay_s=gaps,noblas&lay_s=perm',
        'noblas&lay_o=gaps,noblas&lay_o=perm', 'qs_s=0', 'qs_s=1', 'qs_o=0', 'qs_o=1', 'nblk_s=0', 'nblk_s=1', 'nblk_s=2+', 'nblk_o=0', 'nblk_o=1',
        'nblk_o=2+', 'alias=none', 'alias=same-object', 'alias=same-buffers', 'blas&alias=same-object', 'blas&alias=same-buffers',
        'noblas&alias=same-object', 'noblas&alias=same-buffers', 'fast-path&same-pointer&daxpy', 'fast-path&same-pointer&zaxpy-complex-prefactor',
        # (compiled only: the Python twin never writes into existing buffers, so after `a += c` nothing is shared any more)
        'cy:general-path&same-pointer&daxpy', 'cy:general-path&same-pointer&zaxpy-complex-prefactor', 'pval=1&alias=same-object', 'pval=-1&alias=same-object', 'pval=complex&alias=same-object,pval=imag&alias=same-object',
        'merge=identical-tables', 'merge=general', 'merge=both-empty', 'merge:both', 'merge:a-only', 'merge:b-only', 'merge:a-empty', 'merge:b-empty',
        'pval=1&merge:b-only', 'pval=-1&merge:b-only', 'pval=0&calc=c16,pval=0&calc=c8', 'pval=0&calc=i8,pval=0&calc=f8,pval=0&calc=f4',
        'pval=1&calc=i8', 'pval=real&calc=i8,pval=-1&calc=i8', 'cast=none', 'cast=self', 'cast=other', 'cast=both',
        'labels=permuted', 'labels=same-order', 'pre=rank-differs', 'pre=legs-differ', 'pre=qtotal-differs', 'other=not-an-Array', 'pval=nonscalar',
        'opt=3', 'qnum=0', 'qnum=1', 'qnum=2+'],
    'Array.iscale_prefactor': _each('dt=', DT5) + _each('calc=', DT5) + PREF + [
        'rank=1', 'rank=2', 'rank=3', 'rank=4+', 'lay=C', 'lay=perm', 'lay=gaps', 'lay=none', 'nblk=0', 'nblk=1', 'nblk=2+', 'cast=0', 'cast=1',
        'scal=dscal', 'scal=zdscal', 'scal=zscal', 'scal=numpy', 'dscal&lay=gaps', 'dscal&lay=perm', 'zdscal&lay=gaps', 'zdscal&lay=perm',
        'zscal&lay=gaps', 'zscal&lay=perm', 'numpy&lay=gaps', 'numpy&lay=perm', 'pre=not-scalar', 'qs=0', 'qs=1'],
    'Array._imake_contiguous': _each('dt=', DT5) + ['lay=C', 'lay=perm', 'lay=gaps', 'lay=none', 'blocks=fortran', 'blocks=mixed-layouts', 'nblk=0', 'nblk=1',
                                                    'nblk=2+', 'rank=1', 'rank=4+'],
    '_combine_legs_worker': _each('dt=', DT5) + ['itemsize=4', 'itemsize=8', 'itemsize=16', 'lay=C', 'lay=perm', 'lay=gaps', 'qs=0', 'qs=1', 'npipes=1', 'npipes=2',
                                                 'npipes=3+', 'non_combined=0', 'non_combined=1', 'non_combined=2+', 'res_rank=1', 'res_rank=2', 'res_rank=3',
                                                 'res_rank=4', 'res_rank=5+', 'pipe_nlegs=2', 'pipe_nlegs=3+', 'old-per-new=many', 'old-per-new=one',
                                                 'needs-sort=0', 'needs-sort=1', 'block-lastdim1', 'pipe-unsorted-or-unbunched', 'qnum=0', 'qnum=1', 'qnum=2+'],
    '_split_legs_worker': _each('dt=', DT5) + ['itemsize=4', 'itemsize=8', 'itemsize=16', 'lay=C', 'lay=perm', 'lay=gaps', 'lay=none', 'qs=0', 'qs=1',
                                               'N_split=1', 'N_split=2,N_split=3+', 'nonsplit=0', 'nonsplit=1', 'nonsplit=2+', 'rank=1', 'rank=2', 'rank=3',
                                               'rank=4+', 'nblk=0', 'nblk=1', 'nblk=2+', 'new-per-old=many', 'new-per-old=one', 'nested-pipe',
                                               'block-lastdim1', 'cutoff=0', 'cutoff=float', 'qnum=0', 'qnum=1', 'qnum=2+'],
    '_inner_worker': _each('dt_a=', DT5) + _each('dt_b=', DT5) + _each('res=', DT5) + [
        'do_conj=0', 'do_conj=1', 'calc=f8', 'calc=c16', 'cast=none', 'cast=a', 'cast=b', 'cast=both', 'qtotal=match', 'qtotal=mismatch',
        'qtotal=match&noblocks', 'common=0', 'common=1', 'common=2+', 'a-has-unmatched', 'b-has-unmatched', 'dot=ddot', 'dot=zdotc', 'dot=zdotu',
        'dot=ddot&lay_a=gaps', 'dot=ddot&lay_b=gaps', 'dot=ddot&lay_a=perm', 'dot=ddot&lay_b=perm',
        'dot=zdotc&lay_a=gaps,dot=zdotu&lay_a=gaps', 'dot=zdotc&lay_b=gaps,dot=zdotu&lay_b=gaps', 'dot=zdotc&lay_a=perm,dot=zdotu&lay_a=perm',
        'dot=zdotc&lay_b=perm,dot=zdotu&lay_b=perm', 'dot&qs_a=0', 'dot&qs_a=1', 'dot&qs_b=0', 'dot&qs_b=1', 'rank_a=1', 'rank_a=2', 'rank_a=3', 'rank_a=4+',
        'nblk_a=0', 'nblk_a=1', 'nblk_a=2+', 'alias=same-object', 'qnum=0', 'qnum=1', 'qnum=2+'],
    '_tensordot_transpose_axes': ['axes=pair', 'axes=int:int', 'axes=int:int64', 'axes_a=single-label', 'axes_a=single-int', 'axes_a=label', 'axes_a=int',
                                  'axes_a=negint,axes_a=int+negint', 'axes_a=empty', 'ncontract=0', 'ncontract=1', 'ncontract=2', 'ncontract=3+',
                                  'a-standard=0', 'a-standard=1', 'b-standard=0', 'b-standard=1', 'contract=all-a+all-b', 'contract=all-a+part-b',
                                  'contract=part-a+all-b', 'contract=part-a+part-b', 'legs=not-contractible', 'pre=different-chinfo',
                                  'pre=axes-lengths-differ', 'alias=same-object', 'lay_a=gaps', 'lay_a=perm', 'lay_b=gaps', 'lay_b=perm', 'opt=3',
                                  'rank_a=1', 'rank_a=4+', 'rank_b=1', 'rank_b=4+'],
    '_tensordot_worker': _each('dt_a=', DT5) + _each('dt_b=', DT5) + _each('res=', DT5) + [
        'calc=f8', 'calc=c16', 'cast_a=1', 'cast_b=1', 'res-cast=1', 'keep_a=0', 'keep_a=1', 'keep_a=2', 'keep_a=3+', 'keep_b=0', 'keep_b=1', 'keep_b=2',
        'keep_b=3+', 'ncontract=1', 'ncontract=2', 'ncontract=3+', 'res_rank=1', 'res_rank=2', 'res_rank=3', 'res_rank=4', 'res_rank=5+',
        'f8&lay_a=gaps', 'f8&lay_a=perm', 'f8&lay_b=gaps', 'f8&lay_b=perm', 'c16&lay_a=gaps', 'c16&lay_a=perm', 'c16&lay_b=gaps', 'c16&lay_b=perm',
        'qs_a=0', 'qs_a=1', 'qs_b=0', 'qs_b=1', 'nblk_a=1', 'nblk_a=2+', 'nblk_b=1', 'nblk_b=2+', 'qnum=0', 'qnum=1', 'qnum=2+',
        'res-blocks=0', 'res-blocks=1-63', 'res-blocks=64+', 'res<max=1', 'levels=0', 'levels=1', 'levels=2', 'levels=3+', 'f8&levels>=2', 'c16&levels>=2',
        'keep_a=0&no-common-inner-index', 'keep_b=0&no-common-inner-index', 'rows-same-charge', 'cols-same-charge', 'row-with-several-blocks', 'col-with-several-blocks', 'charge-match-without-common-inner-index',
        'walk:a<b', 'walk:a>b', 'walk:match', 'walk:cols-left-over', 'walk:rows-left-over', 'walk:decided-by-earlier-column'],
}

def eval_required(tags, cfg):
    """-> ({pair: {group: [count, streams]}}, problems)"""
    table, problems = {}, []
    for pair, groups in REQUIRED.items():
        d = tags.get(pair, {})
        row = table.setdefault(pair, {})
        for g in groups:
            if g[:3] in ('cy:', 'py:'):                 # a class that can occur in one configuration only
                if g[:2] != cfg:
                    continue
                g = g[3:]
            per = {}
            for t in g.split(','):
                for st, k in (d.get(t) or {}).items():
                    per[st] = per.get(st, 0) + k
            n = sum(per.values())
            row[g] = [n, sorted(per, key=lambda s: -per[s])[:4]]
            if n == 0:
                problems.append('%s configuration: no call of %s with an input of class %s' % (
                    {'py': 'pure-Python', 'cy': 'compiled'}[cfg], pair, g))
    return table, problems


# ------------------------------------------------------------------------------------------------
# 4. lines of the Python twins
# ------------------------------------------------------------------------------------------------

# (key, stripped source text of the line) -> reason.  Only these may stay unexecuted in the pure-Python configuration.
LINE_EXCLUDED = {
    ('_tensordot_worker', "return zeros(a.legs[:-axes] + b.legs[axes:], np.promote_types(a.dtype, b.dtype), a.qtotal + b.qtotal)"):
        'an operand without blocks: handled by the only caller npc.tensordot before the worker; direct worker calls are generated with blocks',
    ('_tensordot_transpose_axes', "raise ValueError('Shape mismatch for tensordot')"):
        'shape mismatch at optimization level 3: an invalid program at the documented-unsafe level (reached only through finding F04.1)',
    ('helper:Array.ibinary_blockwise', 'return self.ibinary_blockwise(lambda a, b: func(a, b, *args, **kwargs), other)'):
        'extra arguments of the public ibinary_blockwise: never used by iadd_prefactor_other (same code in both configurations)',
    ('helper:Array.ibinary_blockwise', 'assert False'): 'internal invariant',
}


def eval_lines(repo, cov_py):
    """-> ({key: [executable, hit, [unreached lines]]}, problems)"""
    table, problems = {}, []
    info = cov_py.get('lines') or {}
    exe, where = info.get('executable') or {}, info.get('where') or {}
    hit = cov_py.get('lines_hit') or {}
    if not exe:
        return table, ['no line recording came back from the pure-Python configuration']
    cache = {}
    for key, lines in exe.items():
        if lines is None:
            problems.append('line recording: %s not found in the tree under test' % key)
            continue
        h = set(hit.get(key, []))
        fn = (where.get(key) or [None])[0]
        if fn and fn not in cache:
            try:
                cache[fn] = open(fn).read().split('\n')
            except OSError:
                cache[fn] = []
        miss = []
        texts = (info.get('text') or {}).get(key) or {}
        for l in sorted(set(lines) - h):
            txt = texts.get(str(l))
            if txt is None:
                txt = cache.get(fn, [])[l - 1].strip() if fn and 0 < l <= len(cache.get(fn, [])) else ''
            txt = re.sub(r'\s+#.*$', '', txt)
            if LINE_EXCLUDED.get((key, txt)):
                miss.append([l, txt, 'excluded: ' + LINE_EXCLUDED[(key, txt)]])
            else:
                miss.append([l, txt, 'UNREACHED'])
                problems.append('line %s:%d of the Python twin %s never executed: `%s`' % (os.path.basename(fn or '?'), l, key, txt[:90]))
        table[key] = [len(lines), len(h & set(lines)), miss]
    return table, problems
