"""Stream `add-blocks` of check C09: Model/MpsAdd.v (tadd) against MPS.add.

MPS.add is called on two MPS with small-integer tensors, trivial charges, arbitrary non-uniform bond dimensions
(finite and segment bc, shared outer bonds), power-of-two singular values and stored forms chosen so that the
tensors add reads (get_B(0, 'Th'), get_B(i, 'B')) stay integer; canonical_form_finite is a no-op during the call
(harness/impl/c09_addblocks.py).  Coq recomputes the tensors of the sum with `tadd (alpha*norm) (beta*norm')`
(Model/MpsAddCheck.v) and compares all dimensions and entries exactly.
"""
import common
from common import coq_lit, Nat

KINDS = ['SH:none', 'S1:none', 'F:none', 'B2:none']
DIM = {'SH:none': 2, 'S1:none': 3, 'F:none': 2, 'B2:none': 3}
# stored forms (half units) from which the requested form is reached by multiplying with S (never dividing)
FORMS_FIRST = [[2, 0], [0, 2], [0, 0], [2, 2]]       # -> 'Th' = (2, 2): exponents (2 - l)/2 >= 0, (2 - r)/2 >= 0
FORMS_REST = [[0, 2], [0, 0]]                         # -> 'B'  = (0, 2)


def gen_mps(rng, L, dims, chi0, chiL, bc):
    chi = [chi0] + [rng.randint(1, 3) for _ in range(L - 1)] + [chiL]
    B = [[[[rng.randint(-3, 3) for _ in range(chi[i + 1])] for _ in range(dims[i])] for _ in range(chi[i])] for i in range(L)]
    S = [[float(rng.choice([1, 2, 4])) for _ in range(c)] for c in chi]
    if bc == 'finite':
        S[0] = [1.]
        S[-1] = [1.]
    form = [rng.choice(FORMS_FIRST)] + [rng.choice(FORMS_REST) for _ in range(L - 1)]
    return {'chi': chi, 'B': B, 'S': S, 'form': form, 'norm': float(rng.choice([1, 1, 2, 3, -2]))}


def gen_case(rng):
    L = rng.choice([2, 2, 3, 3, 4, 5])
    kinds = [rng.choice(KINDS) for _ in range(L)]
    dims = [DIM[k] for k in kinds]
    bc = 'finite' if rng.random() < 0.7 else 'segment'
    c0, cL = (1, 1) if bc == 'finite' else (rng.randint(1, 2), rng.randint(1, 2))
    A = gen_mps(rng, L, dims, c0, cL, bc)
    B = gen_mps(rng, L, dims, c0, cL, bc)
    if bc == 'segment':
        B['S'][0] = A['S'][0]
        B['S'][-1] = A['S'][-1]
    return {'sites': kinds, 'bc': bc, 'A': A, 'B': B, 'alpha': rng.choice([1, 2, -1, 3, 0, -2]), 'beta': rng.choice([1, -3, 2, 5, -1])}


def tl(t):
    return (Nat(t[0]), Nat(t[1]), t[2])


def case_lit(c, o):
    return coq_lit((c['alpha'], o['normA'], c['beta'], o['normB'], [tl(t) for t in o['TA']], [tl(t) for t in o['TB']],
                    [tl(t) for t in o['TC']]))


def add_blocks_stream(ctx, script, rng, ncases):
    cases = [gen_case(rng) for _ in range(ncases)]
    n = min(common.NPROC, 4)
    chunks = [cases[i::n] for i in range(n)]
    res = common.run_impl_parallel(script, [{'kind': 'addblocks', 'cases': ch} for ch in chunks if ch])
    outs = [None] * len(cases)
    for k, (r, err) in enumerate(res):
        if err:
            ctx.fail('correspondence', 'add-blocks runner failed: ' + err[-600:], None)
            continue
        for j, o in enumerate(r):
            outs[k + j * n] = o
    lits, meta = [], []
    for c, o in zip(cases, outs):
        if o is None:
            continue
        info = {'stream': 'add-blocks', 'case': c, 'impl': o}
        if 'error' in o:
            ctx.fail('correspondence', 'add-blocks: MPS.add (canonical_form_finite stubbed) raised, or its tensors are not the integer '
                     'tensors the block model predicts: ' + o['error'][:400], info)
            continue
        if o['canonical_form_finite_calls'] != 1 or any(f is not None for f in o['form']):
            ctx.fail('correspondence', 'add-blocks: MPS.add no longer builds the sum with form=None followed by exactly one '
                     'canonical_form_finite (calls=%s, forms=%s): the instrumentation does not observe the grid_concat result' % (
                         o['canonical_form_finite_calls'], o['form']), info)
            continue
        ctx.count('add-blocks', [c], nontrivial=max(c['A']['chi'] + c['B']['chi']) > 1,
                  sample={'sites': c['sites'], 'bc': c['bc'], 'chiA': c['A']['chi'], 'chiB': c['B']['chi'], 'alpha': c['alpha'], 'beta': c['beta']})
        lits.append(case_lit(c, o))
        meta.append(info)
    if lits:
        bad, err = common.coq_failing_indices('c09_addblocks', ['Base.Prelude', 'Model.MpsAdd', 'Model.MpsAddCheck'],
                                              'check_add_case', lits)
        if err:
            ctx.fail('correspondence', 'add-blocks: model evaluation failed: ' + err[-500:], None)
        for b in bad[:3]:
            ctx.fail('correspondence', 'Model/MpsAdd.v (tadd) and the tensors MPS.add hands to the constructor of the sum disagree '
                     '(block structure / prefactors / norms)', meta[b])
    return len(lits)
