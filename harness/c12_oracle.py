"""Independent dense reference ("oracle") for C12 and C08: the local operators of the predefined sites written down
DIRECTLY from the documentation tables of tenpy/networks/site.py in the conserve=None basis, and many-body operators on a
chain built with explicit Jordan-Wigner matrices and numpy.kron.  Pure numpy; imports nothing from tenpy.

Jordan-Wigner convention of the documentation (doc/intro/JordanWigner): the physical operator of an operator `a` that needs a
string on site i is   JW_0 x JW_1 x ... x JW_{i-1} x a_i x 1 x ... x 1 ;  other operators are  1 x ... x a_i x ... x 1.
"""
import numpy as np


class DocSite:
    def __init__(self, name, labels, ops, need_JW=()):
        self.name = name
        self.labels = list(labels)          # primary state label per doc-basis index
        self.dim = len(self.labels)
        self.ops = {k: np.asarray(v, dtype=complex) for k, v in ops.items()}
        self.ops['Id'] = np.eye(self.dim, dtype=complex)
        if 'JW' not in self.ops:
            self.ops['JW'] = np.eye(self.dim, dtype=complex)
        self.need_JW = set(need_JW) | {'JW'}

    def op(self, name):
        """'A B' = A.B (B acts first), as Site.get_op documents."""
        m = np.eye(self.dim, dtype=complex)
        for n in name.split():
            m = m @ self.ops[n]
        return m

    def needs_JW(self, name):
        return sum(1 for n in name.split() if n in self.need_JW) % 2 == 1


def spin_half():
    Sx = [[0, .5], [.5, 0]]
    Sy = [[0, -.5j], [.5j, 0]]
    Sz = [[.5, 0], [0, -.5]]
    Sp = [[0, 1], [0, 0]]
    Sm = [[0, 0], [1, 0]]
    ops = dict(Sx=Sx, Sy=Sy, Sz=Sz, Sp=Sp, Sm=Sm, Sigmax=2 * np.array(Sx), Sigmay=2 * np.array(Sy), Sigmaz=2 * np.array(Sz))
    return DocSite('SpinHalfSite', ['up', 'down'], ops)


def spin(S):
    d = int(round(2 * S + 1))
    m = -S + np.arange(d)
    Sz = np.diag(m)
    Sp = np.zeros((d, d))
    for n in range(d - 1):
        Sp[n + 1, n] = np.sqrt(S * (S + 1) - m[n] * (m[n] + 1))
    Sm = Sp.T
    labels = [str(x) for x in np.arange(-S, S + 1, 1.0)]
    return DocSite('SpinSite', labels, dict(Sz=Sz, Sp=Sp, Sm=Sm, Sx=(Sp + Sm) / 2, Sy=(Sp - Sm) / 2j))


def fermion(filling=0.5):
    c = np.array([[0, 1], [0, 0]], dtype=float)
    N = c.T @ c
    dN = N - filling * np.eye(2)
    return DocSite('FermionSite', ['empty', 'full'], dict(C=c, Cd=c.T, N=N, dN=dN, dNdN=dN @ dN, JW=np.diag([1., -1.])),
                   need_JW=['C', 'Cd'])


def _spinful(filling):
    c = np.array([[0, 1], [0, 0]], dtype=float)
    Z = np.diag([1., -1.])
    I2 = np.eye(2)
    # basis index = n_up + 2 n_down : empty, up, down, full ;  kron(down factor, up factor)
    Cu = np.kron(I2, c)
    Cd = np.kron(c, Z)          # includes (-1)^{n_up}: anticommutes on site with Cu, Cdu
    Cdu, Cdd = Cu.T, Cd.T
    Nu, Nd = Cdu @ Cu, Cdd @ Cd
    Sp, Sm = Cdu @ Cd, Cdd @ Cu
    ops = dict(Cu=Cu, Cdu=Cdu, Cd=Cd, Cdd=Cdd, Nu=Nu, Nd=Nd, Ntot=Nu + Nd, NuNd=Nu @ Nd, dN=Nu + Nd - filling * np.eye(4),
               JWu=np.eye(4) - 2 * Nu, JWd=np.eye(4) - 2 * Nd, JW=(np.eye(4) - 2 * Nu) @ (np.eye(4) - 2 * Nd),
               Sz=(Nu - Nd) / 2, Sp=Sp, Sm=Sm, Sx=(Sp + Sm) / 2, Sy=(Sp - Sm) / 2j)
    return ops


FERMI_JW = ['Cu', 'Cdu', 'Cd', 'Cdd', 'JWu', 'JWd']


def spin_half_fermion(filling=1.0):
    return DocSite('SpinHalfFermionSite', ['empty', 'up', 'down', 'full'], _spinful(filling), need_JW=FERMI_JW)


def spin_half_hole(filling=1.0):
    ops = {k: v[:3, :3] for k, v in _spinful(filling).items() if k != 'NuNd'}    # no double occupancy: projected operators
    return DocSite('SpinHalfHoleSite', ['empty', 'up', 'down'], ops, need_JW=FERMI_JW)


def boson(Nmax=1, filling=0.0):
    d = Nmax + 1
    B = np.zeros((d, d))
    for n in range(1, d):
        B[n - 1, n] = np.sqrt(n)
    n_ = np.arange(d, dtype=float)
    ops = dict(B=B, Bd=B.T, N=np.diag(n_), NN=np.diag(n_ ** 2), dN=np.diag(n_ - filling), dNdN=np.diag((n_ - filling) ** 2),
               P=np.diag(1. - 2. * (n_ % 2)))
    return DocSite('BosonSite', [str(n) for n in range(d)], ops)


def clock(q):
    w = np.exp(2j * np.pi / q)
    Z = np.diag(w ** np.arange(q))
    X = np.eye(q, k=1) + np.eye(q, k=1 - q)
    return DocSite('ClockSite', [str(n) for n in range(q)], dict(X=X, Z=Z, Xhc=X.conj().T, Zhc=Z.conj().T, Xphc=X + X.conj().T,
                                                                Zphc=Z + Z.conj().T))


def doc_site(cls, kwargs):
    if cls == 'SpinHalfSite':
        return spin_half()
    if cls == 'SpinSite':
        return spin(float(kwargs.get('S', 0.5)))
    if cls == 'FermionSite':
        return fermion(float(kwargs.get('filling', 0.5)))
    if cls == 'SpinHalfFermionSite':
        return spin_half_fermion(float(kwargs.get('filling', 1.0)))
    if cls == 'SpinHalfHoleSite':
        return spin_half_hole(float(kwargs.get('filling', 1.0)))
    if cls == 'BosonSite':
        return boson(int(kwargs.get('Nmax', 1)), float(kwargs.get('filling', 0.0)))
    if cls == 'ClockSite':
        return clock(int(kwargs['q']))
    raise ValueError(cls)


# documented exclusions: operators that do not exist under a conserve option
def excluded_ops(cls, kwargs):
    c = kwargs.get('conserve', 'default')
    if cls == 'SpinHalfSite' and c in ('Sz', 'default'):
        return {'Sx', 'Sy', 'Sigmax', 'Sigmay'}
    if cls == 'SpinSite' and c in ('Sz', 'dipole', 'default'):
        return {'Sx', 'Sy'}
    if cls in ('SpinHalfFermionSite', 'SpinHalfHoleSite') and kwargs.get('cons_Sz', 'Sz') == 'Sz':
        return {'Sx', 'Sy'}
    if cls == 'ClockSite' and c in ('Z', 'default'):
        return {'Xphc', 'Zphc'}
    return set()


def doc_aliases(cls, kwargs):
    """additional state labels the class documentation promises: {alias: primary label}"""
    if cls == 'SpinHalfSite':
        return {'0.5': 'up', '-0.5': 'down'}
    if cls == 'SpinSite':
        S = float(kwargs.get('S', 0.5))          # "states range from down (0) to up (2S+1), corresponding to Sz=-S, ..., S"
        return {'down': str(-S), 'up': str(S)}
    if cls == 'BosonSite':
        return {'vac': '0'}                       # "Local states are vac, 1, 2, ... , Nmax"
    if cls == 'ClockSite':
        q = int(kwargs['q'])                      # "Special aliases are up (0), and if q is even down (q / 2)"
        a = {'up': '0'}
        if q % 2 == 0:
            a['down'] = str(q // 2)
        return a
    return {}


def kron_all(mats):
    out = np.eye(1, dtype=complex)
    for m in mats:
        out = np.kron(out, m)
    return out


def mb_op(docs, name, i):
    """Many-body operator of `name` on site i of the chain `docs` (list of DocSite), with its JW string to the left."""
    jw = docs[i].needs_JW(name)
    mats = []
    for k, d in enumerate(docs):
        if k < i:
            mats.append(d.ops['JW'] if jw else d.ops['Id'])
        elif k == i:
            mats.append(d.op(name))
        else:
            mats.append(d.ops['Id'])
    return kron_all(mats)


def term_op(docs, term):
    """Ordered product (left-most factor acts last) of the many-body operators of a term [(name, i), ...]."""
    D = int(np.prod([d.dim for d in docs]))
    M = np.eye(D, dtype=complex)
    for name, i in term:
        M = M @ mb_op(docs, name, i)
    return M


def product_op(docs, words):
    """Tensor product of explicitly given per-site operator words: words[k] = list of names multiplied left to right."""
    mats = []
    for d, w in zip(docs, words):
        m = np.eye(d.dim, dtype=complex)
        for n in w:
            m = m @ d.op(n)
        mats.append(m)
    return kron_all(mats)
