"""Shared program generator, reference (dense numpy) semantics and executor for block-sparse
tensor programs over tenpy.linalg.np_conserved  (properties C01, C02; importable by other checks).

Self-contained: needs numpy only; tenpy is imported lazily by the executor part (run inside a fresh
interpreter started by harness/common.run_impl).

Layout
  part 1  charge arithmetic, reference legs (RLeg) and reference tensors (RTensor): dense ndarray +
          per-leg block structure + labels + qtotal; the documented index map of a LegPipe
  part 2  invariant checker for real npc.Array / LegCharge objects (C02 oracle: independent recomputation)
  part 3  operation table: for every public operation  gen (choose arguments from the reference state
          only), ref (documented numpy semantics), run (call tenpy)
  part 4  program runner (steps, oracles after every step on every live object, trace for the Coq model)
  part 5  leg-level programs (LegCharge / LegPipe methods)

Everything random is drawn from a random.Random seeded per program; the concrete operation list is
recorded so a program can be replayed literally.
"""
import itertools
import random
import traceback

import numpy as np

QT = np.int64


# =========================================================================================
# part 1: charges, reference legs and tensors
# =========================================================================================

def mv(mods, q):
    """ChargeInfo.make_valid as documented: modulo mod, with x % 1 := x (1 = U(1))."""
    q = np.array(q, dtype=QT)
    if q.ndim == 0:
        raise ValueError
    for k, m in enumerate(mods):
        if m != 1:
            q[..., k] = np.mod(q[..., k], m)
    return q


def lex_key(row):
    """np.lexsort order on rows: LAST column is the primary key."""
    return tuple(int(x) for x in row[::-1])


def rows_sorted(rows):
    ks = [lex_key(r) for r in rows]
    return all(ks[i] <= ks[i + 1] for i in range(len(ks) - 1))


def rows_bunched(rows):
    return all(tuple(rows[i]) != tuple(rows[i + 1]) for i in range(len(rows) - 1))


class RLeg:
    """Reference leg: block structure (slices, charges per block), direction, optional pipe structure."""

    def __init__(self, slices, charges, qconj, q, sub=None, pmap=None):
        self.slices = np.array(slices, dtype=np.int64)
        self.q = q
        self.charges = np.array(charges, dtype=QT).reshape(len(self.slices) - 1, q)
        self.qconj = int(qconj)
        self.sub = sub          # list of RLeg for a pipe
        self.pmap = pmap        # flat incoming index (C order over sub ind_lens) -> outgoing index

    @property
    def n(self):
        return int(self.slices[-1])

    @property
    def nb(self):
        return len(self.slices) - 1

    def sizes(self):
        return [int(x) for x in np.diff(self.slices)]

    def qflat(self):
        out = np.zeros((self.n, self.q), dtype=QT)
        for b in range(self.nb):
            out[self.slices[b]:self.slices[b + 1]] = self.charges[b]
        return out

    def block_of(self, i):
        """qindex of flat index i (blocks of size 0 are skipped, like bisect on slices)."""
        for b in range(self.nb):
            if self.slices[b] <= i < self.slices[b + 1]:
                return b
        raise IndexError(i)

    def conj(self):
        sub = [l.conj() for l in self.sub] if self.sub is not None else None
        return RLeg(self.slices, self.charges, -self.qconj, self.q, sub, self.pmap)

    def plain(self):
        return RLeg(self.slices, self.charges, self.qconj, self.q)

    def equal(self, other, mods):
        """documented test_equal: same slices, charges * qconj equal (modulo)."""
        if self.nb != other.nb or not np.array_equal(self.slices, other.slices):
            return False
        return np.array_equal(mv(mods, self.charges * self.qconj), mv(mods, other.charges * other.qconj))

    def contractible(self, other, mods):
        return self.equal(other.conj(), mods)

    def spec(self):
        return {'slices': [int(x) for x in self.slices], 'charges': [[int(c) for c in r] for r in self.charges],
                'qconj': self.qconj}

    def is_blocked(self):
        return len({tuple(r) for r in self.charges.tolist()}) == self.nb

    def copy(self):
        return RLeg(self.slices, self.charges, self.qconj, self.q,
                    None if self.sub is None else list(self.sub), self.pmap)


def leg_from_spec(sp, q):
    return RLeg(sp['slices'], sp['charges'], sp['qconj'], q)


def leg_from_qflat(qflat, qconj, q, bunch=True):
    """LegCharge.from_qflat (one block per index), optionally followed by bunch()."""
    qflat = np.array(qflat, dtype=QT)
    n = qflat.shape[0] if qflat.ndim else 0
    qflat = qflat.reshape(n, q)
    if not bunch or n == 0:
        return RLeg(np.arange(n + 1), qflat, qconj, q)
    starts = [0] + [i for i in range(1, n) if tuple(qflat[i]) != tuple(qflat[i - 1])]
    return RLeg(starts + [n], qflat[starts], qconj, q)


def pipe_leg(sub, qconj, mods, sort=True, bunch=True):
    """The documented LegPipe of the legs `sub`: all combinations of incoming blocks in C order, total
    charge by the fusion rule, sorted by charge (stable, np.lexsort convention) if `sort`, adjacent equal
    charges merged if `bunch`; inside one combination plain C-order reshape.  Returns an RLeg with pmap."""
    q = len(mods)
    nbs = [l.nb for l in sub]
    combos = list(itertools.product(*[range(nb) for nb in nbs]))
    sizes = [int(np.prod([l.sizes()[i] for l, i in zip(sub, c)])) for c in combos]
    chs = []
    for c in combos:
        tot = np.zeros(q, dtype=QT)
        for l, i in zip(sub, c):
            tot = tot + l.qconj * l.charges[i]
        chs.append(mv(mods, qconj * tot))
    single = all(nb == 1 for nb in nbs)
    order = list(range(len(combos)))
    if sort and q > 0 and not single:
        order.sort(key=lambda i: lex_key(chs[i]))        # python sort is stable
    subshape = [l.n for l in sub]
    total = int(np.prod(subshape)) if subshape else 0
    pmap = np.zeros(total, dtype=np.int64)
    pos = 0
    slices = [0]
    charges = []
    for i in order:
        c = combos[i]
        if sizes[i] > 0:
            rng_ = [np.arange(l.slices[b], l.slices[b + 1]) for l, b in zip(sub, c)]
            grids = np.meshgrid(*rng_, indexing='ij')
            flat_in = np.ravel_multi_index([g.ravel() for g in grids], subshape)
            pmap[flat_in] = pos + np.arange(sizes[i])
        pos += sizes[i]
        if bunch and charges and tuple(charges[-1]) == tuple(chs[i]):
            slices[-1] = pos
        else:
            charges.append(chs[i])
            slices.append(pos)
    if single or not combos:
        pass
    return RLeg(slices, np.array(charges, dtype=QT).reshape(len(charges), q), qconj, q, list(sub), pmap)


class RTensor:
    def __init__(self, dense, legs, labels, qtotal):
        self.dense = np.array(dense, dtype=np.complex128)
        self.legs = list(legs)
        self.labels = list(labels)
        self.qtotal = np.array(qtotal, dtype=QT)

    @property
    def rank(self):
        return len(self.legs)

    @property
    def shape(self):
        return tuple(l.n for l in self.legs)

    def copy(self):
        return RTensor(self.dense.copy(), [l for l in self.legs], list(self.labels), self.qtotal.copy())

    def maxabs(self):
        return float(np.max(np.abs(self.dense))) if self.dense.size else 0.0


class ExpectError(Exception):
    """raised by reference semantics: the documented outcome is an exception of one of these classes"""

    def __init__(self, *classes):
        Exception.__init__(self, ','.join(classes))
        self.classes = classes


class OracleFail(Exception):
    """auxiliary output of the implementation violates a documented property"""


# ---- label rules, re-implemented from the doc strings / doc/intro/npc.rst -------------------

def lab_combine(labels):
    return '(' + '.'.join(labels) + ')'


def lab_split(label, count):
    if label is None:
        return [None] * count
    if not (label.startswith('(') and label.endswith(')')):
        return [None] * count
    parts, depth, cur = [], 0, ''
    for ch in label[1:-1]:
        if ch == '.' and depth == 0:
            parts.append(cur)
            cur = ''
            continue
        depth += (ch == '(') - (ch == ')')
        cur += ch
    parts.append(cur)
    if len(parts) != count:
        raise ExpectError('ValueError')
    return [None if p.startswith('?') else p for p in parts]


def lab_conj(label):
    """'a' <-> 'a*', recursively inside '(a.(b*.c))' -> '(a*.(b.c*))'"""
    if label is None:
        return None
    out, cur = '', ''

    def flush(cur):
        if cur == '':
            return ''
        return cur[:-1] if cur.endswith('*') else cur + '*'
    for ch in label:
        if ch in '(.)':
            out += flush(cur) + ch
            cur = ''
        else:
            cur += ch
    return out + flush(cur)


def lab_drop_dup(la, lb):
    la, lb = list(la), list(lb)
    for i, l in enumerate(la):
        if l is not None and l in lb:
            j = lb.index(l)
            la[i] = None
            lb[j] = None
    return la + lb


# =========================================================================================
# part 2: invariants of real objects (C02 oracle)
# =========================================================================================

def check_leg_invariants(leg, mods, where='leg'):
    """independent recomputation of the LegCharge claims; returns list of (kind, text)"""
    bad = []
    sl = np.asarray(leg.slices)
    ch = np.asarray(leg.charges)
    q = len(mods)
    if sl.ndim != 1 or len(sl) < 1 or sl[0] != 0 or np.any(np.diff(sl) < 0):
        bad.append(('leg-slices', '%s: slices %s' % (where, sl.tolist())))
        return bad
    nb = len(sl) - 1
    if ch.ndim != 2 or ch.shape != (nb, q):
        bad.append(('leg-charges-shape', '%s: charges shape %s for %d blocks, %d charges' % (where, ch.shape, nb, q)))
        return bad
    if leg.block_number != nb or leg.ind_len != sl[-1]:
        bad.append(('leg-cached-len', '%s: block_number/ind_len cache wrong' % where))
    if leg.qconj not in (1, -1):
        bad.append(('leg-qconj', '%s: qconj=%r' % (where, leg.qconj)))
    for k, m in enumerate(mods):
        if m != 1 and nb and (np.any(ch[:, k] < 0) or np.any(ch[:, k] >= m)):
            bad.append(('leg-charge-range', '%s: charge %d outside [0,%d)' % (where, k, m)))
    if leg.sorted and not rows_sorted(ch):
        bad.append(('sorted-flag-false-claim', '%s: sorted=True but charges %s' % (where, ch.tolist())))
    if leg.bunched and not rows_bunched(ch):
        bad.append(('bunched-flag-false-claim', '%s: bunched=True but charges %s' % (where, ch.tolist())))
    # the object's own predicates must agree with the recomputation
    try:
        if bool(leg.is_sorted()) != rows_sorted(ch) and q > 0:
            bad.append(('is_sorted-wrong', '%s: is_sorted()=%s' % (where, leg.is_sorted())))
        if bool(leg.is_bunched()) != rows_bunched(ch) and q > 0:
            bad.append(('is_bunched-wrong', '%s: is_bunched()=%s' % (where, leg.is_bunched())))
        blocked = len({tuple(r) for r in ch.tolist()}) == nb
        if bool(leg.is_blocked()) != blocked:
            bad.append(('is_blocked-wrong', '%s: is_blocked()=%s, charges %s' % (where, leg.is_blocked(), ch.tolist())))
    except Exception as e:
        bad.append(('leg-predicate-raises', '%s: %s' % (where, type(e).__name__)))
    sub = getattr(leg, 'legs', None)
    if sub is not None:
        if tuple(leg.subshape) != tuple(l.ind_len for l in sub) or tuple(leg.subqshape) != tuple(l.block_number for l in sub):
            bad.append(('pipe-subshape', '%s: subshape/subqshape do not match the incoming legs' % where))
        if int(np.prod([l.ind_len for l in sub])) != leg.ind_len:
            bad.append(('pipe-ind_len', '%s: ind_len is not the product of the incoming legs' % where))
        for i, l in enumerate(sub):
            bad.extend(check_leg_invariants(l, mods, where + '.legs[%d]' % i))
    try:
        leg.test_sanity()
    except Exception as e:
        bad.append(('leg-test_sanity', '%s: test_sanity raises %s: %s' % (where, type(e).__name__, str(e)[:80])))
    return bad


def sanity_class(msg):
    msg = str(msg)
    for key, pat in (('qdata-not-contiguous', 'not C-contiguous'), ('qdata_sorted-false-claim', '_qdata_sorted == True'),
                     ('charge-rule', 'incompatible with total charge'), ('qdata-shape', '_qdata shape'),
                     ('dtype', 'wrong dtype'), ('shape', 'shape mismatch'), ('qind-range', 'invalid qind')):
        if pat in msg:
            return key
    return 'other'


def check_array_invariants(x, mods):
    """C02 oracle on one npc.Array: returns list of (kind, text)."""
    bad = []
    q = len(mods)
    r = len(x.legs)
    if x.rank != r or len(x._labels) != r or tuple(x.shape) != tuple(l.ind_len for l in x.legs):
        bad.append(('rank-shape', 'rank/shape/labels inconsistent with legs'))
        return bad
    if list(x.chinfo.mod) != list(mods):
        bad.append(('chinfo', 'chinfo.mod %s, expected %s' % (list(x.chinfo.mod), list(mods))))
        return bad
    qd = x._qdata
    if not isinstance(qd, np.ndarray) or qd.ndim != 2 or qd.shape[1] != r or qd.dtype != np.intp:
        bad.append(('qdata-shape', '_qdata %r' % (getattr(qd, 'shape', None),)))
        return bad
    if len(x._data) != qd.shape[0]:
        bad.append(('qdata-shape', 'len(_data)=%d but _qdata has %d rows' % (len(x._data), qd.shape[0])))
        return bad
    if not qd.flags['C_CONTIGUOUS']:
        bad.append(('qdata-not-contiguous', '_qdata is not C-contiguous'))
    nbs = [len(l.slices) - 1 for l in x.legs]
    if qd.size and (np.any(qd < 0) or np.any(qd >= np.array(nbs))):
        bad.append(('qind-range', '_qdata %s out of range %s' % (qd.tolist(), nbs)))
        return bad
    rows = [tuple(int(v) for v in row) for row in qd]
    if len(set(rows)) != len(rows):
        bad.append(('duplicate-qdata-rows', 'duplicate rows in _qdata %s' % (rows,)))
    if x._qdata_sorted and not rows_sorted(qd):
        bad.append(('qdata_sorted-false-claim', '_qdata_sorted=True but _qdata=%s' % (rows,)))
    qt = np.asarray(x.qtotal)
    if qt.shape != (q,):
        bad.append(('qtotal-shape', 'qtotal %r' % (qt,)))
        return bad
    if not np.array_equal(mv(mods, qt), qt):
        bad.append(('qtotal-range', 'qtotal %s not reduced modulo %s' % (qt.tolist(), mods)))
    for row, blk in zip(rows, x._data):
        tot = np.zeros(q, dtype=QT)
        shp = []
        for l, qi in zip(x.legs, row):
            tot = tot + np.asarray(l.charges)[qi] * l.qconj
            shp.append(int(l.slices[qi + 1] - l.slices[qi]))
        if not np.array_equal(mv(mods, tot), qt):
            bad.append(('charge-rule', 'block %s has charge %s, qtotal %s' % (row, mv(mods, tot).tolist(), qt.tolist())))
        if tuple(blk.shape) != tuple(shp):
            bad.append(('block-shape', 'block %s has shape %s, legs say %s' % (row, blk.shape, shp)))
        if blk.dtype != x.dtype:
            bad.append(('block-dtype', 'block %s dtype %s, array dtype %s' % (row, blk.dtype, x.dtype)))
    labs = [l for l in x._labels if l is not None]
    if any(not isinstance(l, str) for l in labs):
        bad.append(('labels', 'non-string label %r' % (x._labels,)))
    elif len(set(labs)) != len(labs):
        bad.append(('labels-duplicate', 'duplicate labels %r' % (x._labels,)))
    for i, l in enumerate(x.legs):
        bad.extend(check_leg_invariants(l, mods, 'legs[%d]' % i))
    try:
        x.test_sanity()
    except Exception as e:
        k = 'test_sanity:' + sanity_class(e) if isinstance(e, ValueError) else 'test_sanity:' + type(e).__name__
        # do not report twice what the recomputation already found
        if not any(b[0] == sanity_class(e) for b in bad) and not (isinstance(e, AssertionError) and bad):
            bad.append((k, 'test_sanity() raises %s: %s' % (type(e).__name__, str(e)[:100])))
        else:
            bad.append(('own-sanity-raises', 'test_sanity() raises %s: %s' % (type(e).__name__, str(e)[:100])))
    return bad


# =========================================================================================
# part 3: environment and operation table
# =========================================================================================

LABEL_POOL = ['a', 'b', 'c', 'd', 'vL', 'vR', 'p', 'p*', 'a*', 'w', 'x*']
MAXSIZE = 2500          # max number of dense entries of any tensor
MAXABS = 1e6            # tensors with larger entries are not multiplied further (exact float arithmetic)


class Slot:
    def __init__(self, impl, ref, group):
        self.impl = impl
        self.ref = ref
        self.group = group
        self.perm = None        # name of the last operation that re-ordered / rebuilt the block table of this tensor (statistics only)


class Env:
    def __init__(self, mods, names, maxrank):
        self.mods = list(mods)
        self.names = list(names)
        self.q = len(mods)
        self.slots = []
        self.pool = []          # RLeg pool (plain legs)
        self.maxrank = maxrank
        self.chinfo = None      # impl ChargeInfo
        self.next_group = 0
        self.config = 'py'
        self.ext = False        # program key `ext` (C01 coverage audit): option spaces / operations of harness/c01_ext.py; off = earlier behaviour
        self.xr = None          # side generator of the `ext` choices
        self.api_hook = None

    def new_group(self):
        self.next_group += 1
        return self.next_group


def _npc():
    import tenpy.linalg.np_conserved as npc
    return npc


def api(env, name, **opts):
    """coverage table of C01 (program key `ext`): the public name `name` of np_conserved was called with these (optional) arguments and its
    result is compared with numpy by the runner"""
    h = getattr(env, 'api_hook', None)
    if h is not None:
        h(name, opts)


def ext_p(env, p):
    """True with probability p in programs with the key `ext` (drawn from the side generator), always False otherwise"""
    return bool(getattr(env, 'ext', False)) and env.xr.random() < p


def mk_leg(env, sp):
    npc = _npc()
    q = env.q
    ch = np.array(sp['charges'], dtype=QT).reshape(len(sp['slices']) - 1, q)
    return npc.LegCharge.from_qind(env.chinfo, sp['slices'], ch, sp['qconj'])


def enc_scalar(v):
    if isinstance(v, complex):
        return {'t': 'complex', 're': v.real, 'im': v.imag}
    if isinstance(v, float):
        return {'t': 'float', 're': v}
    return {'t': 'int', 're': int(v)}


def dec_scalar(d):
    if d['t'] == 'complex':
        return complex(d['re'], d['im'])
    if d['t'] == 'float':
        return float(d['re'])
    return int(d['re'])


def enc_vec(v):
    v = np.asarray(v)
    if np.iscomplexobj(v):
        return {'c': True, 're': [float(x) for x in v.real.ravel()], 'im': [float(x) for x in v.imag.ravel()], 'shape': list(v.shape)}
    return {'c': False, 're': [float(x) for x in v.ravel()], 'shape': list(v.shape)}


def dec_vec(d, dtype=None):
    a = np.array(d['re'], dtype=float)
    if d['c']:
        a = a + 1j * np.array(d['im'], dtype=float)
    a = a.reshape(d['shape'])
    if dtype is not None:
        a = a.astype(dtype)
    return a


def axarg(rng, T, i, p_label=0.4):
    """an axis given as label (when it has one) or as possibly negative int"""
    if T.labels[i] is not None and rng.random() < p_label:
        return T.labels[i]
    if rng.random() < 0.15:
        return i - T.rank
    return i


def as_list(x):
    return list(x) if isinstance(x, (list, tuple)) else [x]


def ax_index(T, a):
    """documented get_leg_index: label -> position (KeyError), negative ints count from the end"""
    if isinstance(a, str):
        if a not in T.labels:
            raise ExpectError('KeyError')
        return T.labels.index(a)
    a = int(a)
    if a < 0:
        a += T.rank
    if a < 0 or a >= T.rank:
        raise ExpectError('ValueError', 'IndexError')
    return a


def allowed_mask(T, mods):
    """boolean array: positions of the dense array compatible with the charge rule"""
    q = len(mods)
    shape = T.shape
    tot = np.zeros(shape + (q,), dtype=QT)
    for ax, l in enumerate(T.legs):
        qf = l.qflat() * l.qconj
        sh = [1] * len(shape) + [q]
        sh[ax] = l.n
        tot = tot + qf.reshape(sh)
    tot = mv(mods, tot) if tot.size else tot
    return np.all(tot == np.asarray(T.qtotal).reshape([1] * len(shape) + [q]), axis=-1) if q > 0 else np.ones(shape, bool)


def rand_values(rng, shape, cplx):
    n = int(np.prod(shape))
    v = np.array([rng.randint(-3, 3) for _ in range(n)], dtype=float)
    if cplx:
        v = v + 1j * np.array([rng.randint(-2, 2) for _ in range(n)], dtype=float)
    return v.reshape(shape)


def fresh_label(rng, labels):
    cand = [l for l in LABEL_POOL if l not in labels]
    return rng.choice(cand) if cand else None


OPS = {}


def op(name, weight=1.0):
    def deco(cls):
        cls.name = name
        cls.weight = weight
        OPS[name] = cls
        return cls
    return deco


def pick_slot(rng, env, pred=lambda s: True):
    c = [i for i, s in enumerate(env.slots) if pred(s)]
    return rng.choice(c) if c else None


def small(s):
    return s.ref.maxabs() <= MAXABS


# ---- contraction-like ---------------------------------------------------------------------

@op('tensordot', 4.0)
class OpTensordot:
    @staticmethod
    def gen(rng, env, malformed=False):
        a = pick_slot(rng, env, small)
        b = pick_slot(rng, env, small)
        if a is None or b is None:
            return None
        A, B = env.slots[a].ref, env.slots[b].ref
        pairs = [(i, j) for i in range(A.rank) for j in range(B.rank)
                 if A.legs[i].contractible(B.legs[j], env.mods) != malformed]
        if malformed:
            if not pairs:
                return None
            i, j = rng.choice(pairs)
            return {'op': 'tensordot', 'a': a, 'b': b, 'axes': [[i], [j]], 'malformed': 'incompatible-legs'}
        rng.shuffle(pairs)
        ia, ib = [], []
        kmax = rng.choice([0, 1, 1, 1, 2, 2, 3, 4])
        for i, j in pairs:
            if len(ia) < kmax and i not in ia and j not in ib:
                ia.append(i)
                ib.append(j)
        if A.rank + B.rank - 2 * len(ia) > env.maxrank:
            return None
        size = np.prod([A.shape[i] for i in range(A.rank) if i not in ia] + [B.shape[j] for j in range(B.rank) if j not in ib])
        if size > MAXSIZE:
            return None
        k = len(ia)
        if ia == list(range(A.rank - k, A.rank)) and ib == list(range(k)) and rng.random() < 0.5:
            return {'op': 'tensordot', 'a': a, 'b': b, 'axes': k}
        if k == 1 and ext_p(env, 0.3):      # documented: axes_a / axes_b may be a single label / index
            return {'op': 'tensordot', 'a': a, 'b': b, 'axes': [axarg(rng, A, ia[0]), axarg(rng, B, ib[0])]}
        return {'op': 'tensordot', 'a': a, 'b': b, 'axes': [[axarg(rng, A, i) for i in ia], [axarg(rng, B, j) for j in ib]]}

    @staticmethod
    def ref(env, o, aux):
        A, B = env.slots[o['a']].ref, env.slots[o['b']].ref
        ax = o['axes']
        if isinstance(ax, int):
            ia, ib = list(range(A.rank - ax, A.rank)), list(range(ax))
        else:
            ia = [ax_index(A, x) for x in as_list(ax[0])]
            ib = [ax_index(B, x) for x in as_list(ax[1])]
        for i, j in zip(ia, ib):
            if not A.legs[i].contractible(B.legs[j], env.mods):
                raise ExpectError('ValueError')
        D = np.tensordot(A.dense, B.dense, (ia, ib))
        if D.ndim == 0:
            return {'scalar': complex(D)}
        ka = [i for i in range(A.rank) if i not in ia]
        kb = [j for j in range(B.rank) if j not in ib]
        labels = lab_drop_dup([A.labels[i] for i in ka], [B.labels[j] for j in kb])
        return {'new': [RTensor(D, [A.legs[i] for i in ka] + [B.legs[j] for j in kb], labels,
                                mv(env.mods, A.qtotal + B.qtotal))], 'qtotal_rule': 'sum'}

    @staticmethod
    def run(env, o):
        npc = _npc()
        ax = o['axes']
        api(env, 'tensordot', axes='int' if isinstance(ax, int) else ('lists' if isinstance(ax[0], list) else 'single'))
        r = npc.tensordot(env.slots[o['a']].impl, env.slots[o['b']].impl, axes=ax if isinstance(ax, int) else (ax[0], ax[1]))
        return {'new': [r]} if isinstance(r, npc.Array) else {'scalar': r}


@op('outer', 1.5)
class OpOuter:
    @staticmethod
    def gen(rng, env, malformed=False):
        a = pick_slot(rng, env, small)
        b = pick_slot(rng, env, small)
        if a is None or malformed:
            return None
        A, B = env.slots[a].ref, env.slots[b].ref
        if A.rank + B.rank > env.maxrank or A.dense.size * B.dense.size > MAXSIZE:
            return None
        return {'op': 'outer', 'a': a, 'b': b}

    @staticmethod
    def ref(env, o, aux):
        A, B = env.slots[o['a']].ref, env.slots[o['b']].ref
        return {'new': [RTensor(np.multiply.outer(A.dense, B.dense), A.legs + B.legs, lab_drop_dup(A.labels, B.labels),
                                mv(env.mods, A.qtotal + B.qtotal))], 'qtotal_rule': 'sum'}

    @staticmethod
    def run(env, o):
        api(env, 'outer')
        return {'new': [_npc().outer(env.slots[o['a']].impl, env.slots[o['b']].impl)]}


@op('inner', 1.5)
class OpInner:
    @staticmethod
    def gen(rng, env, malformed=False):
        a = pick_slot(rng, env, small)
        if a is None:
            return None
        A = env.slots[a].ref
        do_conj = rng.random() < 0.5
        cands = []
        for b, s in enumerate(env.slots):
            B = s.ref
            if B.rank != A.rank or not small(s):
                continue
            # find a matching of legs
            perm = []
            for i in range(A.rank):
                js = [j for j in range(B.rank) if j not in perm and
                      (A.legs[i].equal(B.legs[j], env.mods) if do_conj else A.legs[i].contractible(B.legs[j], env.mods))]
                if not js:
                    break
                perm.append(rng.choice(js))
            if len(perm) == A.rank:
                cands.append((b, perm))
        if malformed:
            b = pick_slot(rng, env, lambda s: s.ref.rank != A.rank)
            if b is None:
                return None
            return {'op': 'inner', 'a': a, 'b': b, 'axes': 'range', 'do_conj': do_conj, 'malformed': 'different-rank'}
        if not cands:
            return None
        b, perm = rng.choice(cands)
        B = env.slots[b].ref
        if perm == list(range(A.rank)) and rng.random() < 0.5:
            axes = 'range'
        else:
            order = list(range(A.rank))
            rng.shuffle(order)
            axes = [[axarg(rng, A, i) for i in order], [axarg(rng, B, perm[i]) for i in order]]
        if all(l is not None for l in A.labels) and rng.random() < 0.5:
            want = [A.labels[i] if do_conj else lab_conj(A.labels[i]) for i in range(A.rank)]
            if sorted(want) == sorted(x if x is not None else '' for x in B.labels) and all(B.labels[perm[i]] == want[i] for i in range(A.rank)):
                axes = 'labels'
        o = {'op': 'inner', 'a': a, 'b': b, 'axes': axes, 'do_conj': do_conj}
        if ext_p(env, 0.15):
            o['as_lists'] = env.xr.randint(1, 3)        # documented: lists of Arrays -> sum of the inner products of the pairs
        return o

    @staticmethod
    def ref(env, o, aux):
        A, B = env.slots[o['a']].ref, env.slots[o['b']].ref
        if A.rank != B.rank:
            raise ExpectError('ValueError')
        ax = o['axes']
        if ax == 'range':
            ia, ib = list(range(A.rank)), list(range(B.rank))
        elif ax == 'labels':
            ia = list(range(A.rank))
            ib = [ax_index(B, A.labels[i] if o['do_conj'] else lab_conj(A.labels[i])) for i in ia]
        else:
            ia = [ax_index(A, x) for x in ax[0]]
            ib = [ax_index(B, x) for x in ax[1]]
        for i, j in zip(ia, ib):
            ok = A.legs[i].equal(B.legs[j], env.mods) if o['do_conj'] else A.legs[i].contractible(B.legs[j], env.mods)
            if not ok:
                raise ExpectError('ValueError')
        Ad = np.conj(A.dense) if o['do_conj'] else A.dense
        return {'scalar': complex(np.tensordot(Ad, B.dense, (ia, ib))) * o.get('as_lists', 1)}

    @staticmethod
    def run(env, o):
        ax = o['axes']
        x, y = env.slots[o['a']].impl, env.slots[o['b']].impl
        api(env, 'inner', axes=ax if isinstance(ax, str) else 'lists', do_conj=o['do_conj'], operands='lists' if o.get('as_lists') else 'arrays')
        if o.get('as_lists'):
            x, y = [x] * o['as_lists'], [y] * o['as_lists']
        return {'scalar': _npc().inner(x, y, axes=ax if isinstance(ax, str) else (ax[0], ax[1]), do_conj=o['do_conj'])}


@op('trace', 2.0)
class OpTrace:
    @staticmethod
    def gen(rng, env, malformed=False):
        cands = []
        for a, s in enumerate(env.slots):
            A = s.ref
            for i in range(A.rank):
                for j in range(A.rank):
                    if i != j and A.legs[i].contractible(A.legs[j], env.mods) != malformed:
                        cands.append((a, i, j))
        if not cands:
            return None
        a, i, j = rng.choice(cands)
        A = env.slots[a].ref
        o = {'op': 'trace', 'a': a, 'leg1': axarg(rng, A, i), 'leg2': axarg(rng, A, j)}
        if malformed:
            o['malformed'] = 'incompatible-legs'
        elif getattr(env, 'ext', False):
            d = [(a2, i2, j2) for a2, i2, j2 in cands if (i2, j2) == (0, 1)]
            if d and env.xr.random() < 0.3:     # default arguments leg1=0, leg2=1
                o = {'op': 'trace', 'a': d[0][0], 'leg1': 0, 'leg2': 1, 'defaults': True}
            elif env.xr.random() < 0.05 and not isinstance(o['leg1'], str):
                o['leg2'] = o['leg1']           # the same leg twice: documented ValueError
                o['malformed'] = 'same-leg'
        return o

    @staticmethod
    def ref(env, o, aux):
        A = env.slots[o['a']].ref
        i, j = ax_index(A, o['leg1']), ax_index(A, o['leg2'])
        if i == j or not A.legs[i].contractible(A.legs[j], env.mods):
            raise ExpectError('ValueError')
        D = np.trace(A.dense, axis1=i, axis2=j)
        if D.ndim == 0:
            return {'scalar': complex(D)}
        keep = [k for k in range(A.rank) if k not in (i, j)]
        return {'new': [RTensor(D, [A.legs[k] for k in keep], [A.labels[k] for k in keep], A.qtotal)], 'qtotal_rule': 'same'}

    @staticmethod
    def run(env, o):
        npc = _npc()
        api(env, 'trace', leg1='default' if o.get('defaults') else o['leg1'], leg2='default' if o.get('defaults') else o['leg2'])
        r = npc.trace(env.slots[o['a']].impl) if o.get('defaults') else npc.trace(env.slots[o['a']].impl, o['leg1'], o['leg2'])
        return {'new': [r]} if isinstance(r, npc.Array) else {'scalar': r}


# ---- transposition, conjugation ----------------------------------------------------------

def _ref_transpose(T, axes):
    if axes is None:
        perm = list(range(T.rank))[::-1]
    else:
        perm = [ax_index(T, x) for x in axes]
        if len(perm) != T.rank or len(set(perm)) != T.rank:
            raise ExpectError('ValueError')
    return RTensor(np.transpose(T.dense, perm), [T.legs[k] for k in perm], [T.labels[k] for k in perm], T.qtotal)


@op('transpose', 3.0)
class OpTranspose:
    @staticmethod
    def gen(rng, env, malformed=False):
        a = pick_slot(rng, env)
        A = env.slots[a].ref
        perm = list(range(A.rank))
        rng.shuffle(perm)
        axes = None if rng.random() < 0.15 else [axarg(rng, A, i) for i in perm]
        o = {'op': 'transpose', 'a': a, 'axes': axes, 'inplace': rng.random() < 0.4}
        if malformed:
            if A.rank < 2:
                return None
            o['axes'] = [perm[0]] * A.rank if rng.random() < 0.5 else perm[:-1]
            o['malformed'] = 'bad-axes'
        return o

    @staticmethod
    def ref(env, o, aux):
        T = _ref_transpose(env.slots[o['a']].ref, o['axes'])
        if o['inplace']:
            env.slots[o['a']].ref = T
            return {'inplace': o['a'], 'qtotal_rule': 'same'}
        return {'new': [T], 'qtotal_rule': 'same'}

    @staticmethod
    def run(env, o):
        x = env.slots[o['a']].impl
        api(env, 'Array.itranspose' if o['inplace'] else 'Array.transpose', axes=o['axes'])
        if o['inplace']:
            x.itranspose(o['axes'])
            return {'inplace': True}
        return {'new': [x.transpose(o['axes'])]}


@op('iswapaxes', 1.5)
class OpSwap:
    @staticmethod
    def gen(rng, env, malformed=False):
        a = pick_slot(rng, env, lambda s: s.ref.rank >= 2)
        if a is None or malformed:
            return None
        A = env.slots[a].ref
        i, j = rng.sample(range(A.rank), 2)
        if ext_p(env, 0.12):
            j = i       # the same axis twice: documented "nothing to do"
        return {'op': 'iswapaxes', 'a': a, 'axis1': axarg(rng, A, i), 'axis2': axarg(rng, A, j)}

    @staticmethod
    def ref(env, o, aux):
        A = env.slots[o['a']].ref
        i, j = ax_index(A, o['axis1']), ax_index(A, o['axis2'])
        perm = list(range(A.rank))
        perm[i], perm[j] = j, i
        env.slots[o['a']].ref = _ref_transpose(A, perm)
        return {'inplace': o['a'], 'qtotal_rule': 'same'}

    @staticmethod
    def run(env, o):
        api(env, 'Array.iswapaxes', axes='same' if o['axis1'] == o['axis2'] else 'different')
        env.slots[o['a']].impl.iswapaxes(o['axis1'], o['axis2'])
        return {'inplace': True}


@op('conj', 3.0)
class OpConj:
    @staticmethod
    def gen(rng, env, malformed=False):
        if malformed:
            return None
        a = pick_slot(rng, env)
        o = {'op': 'conj', 'a': a, 'inplace': rng.random() < 0.4, 'complex_conj': rng.random() < 0.85}
        if ext_p(env, 0.3):     # the same through conj(inplace=True) / with default arguments
            if o['inplace'] and env.xr.random() < 0.5:
                o['via'] = 'conj-inplace-kw'
            elif o['complex_conj']:
                o['via'] = 'defaults'
        return o

    @staticmethod
    def ref(env, o, aux):
        A = env.slots[o['a']].ref
        T = RTensor(np.conj(A.dense) if o['complex_conj'] else A.dense, [l.conj() for l in A.legs],
                    [lab_conj(l) for l in A.labels], mv(env.mods, -A.qtotal))
        if o['inplace']:
            env.slots[o['a']].ref = T
            return {'inplace': o['a'], 'qtotal_rule': 'negation'}
        return {'new': [T], 'qtotal_rule': 'negation'}

    @staticmethod
    def run(env, o):
        x = env.slots[o['a']].impl
        if o.get('via') == 'conj-inplace-kw':
            api(env, 'Array.conj', complex_conj=o['complex_conj'], inplace=True)
            x.conj(o['complex_conj'], inplace=True)
            return {'inplace': True}
        if o.get('via') == 'defaults':
            api(env, 'Array.iconj' if o['inplace'] else 'Array.conj')
            return {'inplace': True, 'r': x.iconj()} if o['inplace'] else {'new': [x.conj()]}
        api(env, 'Array.iconj' if o['inplace'] else 'Array.conj', complex_conj=o['complex_conj'], **({} if o['inplace'] else {'inplace': False}))
        if o['inplace']:
            x.iconj(o['complex_conj'])
            return {'inplace': True}
        return {'new': [x.conj(o['complex_conj'])]}


@op('complex_conj', 0.5)
class OpCConj:
    @staticmethod
    def gen(rng, env, malformed=False):
        if malformed:
            return None
        return {'op': 'complex_conj', 'a': pick_slot(rng, env)}

    @staticmethod
    def ref(env, o, aux):
        A = env.slots[o['a']].ref
        T = A.copy()
        T.dense = np.conj(A.dense)
        return {'new': [T], 'qtotal_rule': 'same'}

    @staticmethod
    def run(env, o):
        api(env, 'Array.complex_conj')
        return {'new': [env.slots[o['a']].impl.complex_conj()]}


# ---- linear combinations -------------------------------------------------------------------

SCALARS = [0, 1, -1, 2, 3, 2.0, -1.0, 0.0, 0.5, 1j, 1 + 1j, -2j]


def _align_other(A, B):
    """documented: if the labels are the same but in different order, `other` is transposed first"""
    if A.labels != B.labels and None not in A.labels and None not in B.labels and set(A.labels) == set(B.labels) \
            and A.rank == B.rank:
        return _ref_transpose(B, A.labels), True
    return B, False


# kinds of the 'add' operation with a fixed prefactor; the (i)binary_blockwise kinds (np.add / np.subtract, for which
# func(0, 0) = 0 as the doc string requires) are only produced by the directed chains of ProgramRunner.gen_chain_step
ADD_KINDS = {'add': 1, 'iadd': 1, 'sub': -1, 'isub': -1, 'binary_blockwise_add': 1, 'ibinary_blockwise_add': 1,
             'binary_blockwise_sub': -1, 'ibinary_blockwise_sub': -1}


@op('add', 5.0)
class OpAdd:
    @staticmethod
    def gen(rng, env, malformed=False):
        a = pick_slot(rng, env)
        A = env.slots[a].ref
        cands = []
        for b, s in enumerate(env.slots):
            B, _ = _align_other(A, s.ref)
            ok = B.rank == A.rank and all(x.equal(y, env.mods) for x, y in zip(A.legs, B.legs)) and \
                np.array_equal(A.qtotal, B.qtotal)
            if ok != malformed and s.ref.rank == A.rank:
                cands.append(b)
        if not cands:
            return None
        others = [b for b in cands if b != a]
        b = rng.choice(others) if others and rng.random() < 0.8 else rng.choice(cands)
        kind = rng.choice(['add', 'sub', 'iadd', 'isub', 'iadd_prefactor_other', 'iadd_prefactor_other'])
        alpha = rng.choice([1, -1, 2, 2.0, -3, 0, 0.0, 1j, 1 - 1j]) if kind == 'iadd_prefactor_other' else None
        o = {'op': 'add', 'a': a, 'b': b, 'kind': kind, 'alpha': None if alpha is None else enc_scalar(alpha)}
        if malformed:
            o['malformed'] = 'incompatible-operands'
        _, perm = _align_other(A, env.slots[b].ref)
        if perm:
            o['cond'] = 'labels-permuted'
        elif (a == b or env.slots[a].group == env.slots[b].group) and isinstance(alpha, complex) and alpha.imag != 0:
            # other is self or a shallow copy sharing the blocks of self
            o['cond'] = 'same-operand+complex-prefactor'
        return o

    @staticmethod
    def ref(env, o, aux):
        A = env.slots[o['a']].ref
        B, _ = _align_other(A, env.slots[o['b']].ref)
        if A.rank != B.rank or not all(x.equal(y, env.mods) for x, y in zip(A.legs, B.legs)) or \
                not np.array_equal(A.qtotal, B.qtotal):
            raise ExpectError('ValueError')
        k = o['kind']
        alpha = ADD_KINDS.get(k)
        if alpha is None:
            alpha = dec_scalar(o['alpha'])
        T = A.copy()
        T.dense = A.dense + alpha * B.dense
        if k in ('add', 'sub', 'binary_blockwise_add', 'binary_blockwise_sub'):
            return {'new': [T], 'qtotal_rule': 'same'}
        env.slots[o['a']].ref = T
        return {'inplace': o['a'], 'qtotal_rule': 'same'}

    @staticmethod
    def run(env, o):
        x, y = env.slots[o['a']].impl, env.slots[o['b']].impl
        k = o['kind']
        api(env, {'add': 'Array.__add__', 'sub': 'Array.__sub__', 'iadd': 'Array.__iadd__', 'isub': 'Array.__isub__',
                  'iadd_prefactor_other': 'Array.iadd_prefactor_other'}.get(k, 'Array.ibinary_blockwise' if k.startswith('i') else 'Array.binary_blockwise'),
            **({'prefactor': dec_scalar(o['alpha'])} if k == 'iadd_prefactor_other' else {}))
        if k == 'add':
            return {'new': [x + y]}
        if k == 'sub':
            return {'new': [x - y]}
        if k == 'binary_blockwise_add':
            return {'new': [x.binary_blockwise(np.add, y)]}
        if k == 'binary_blockwise_sub':
            return {'new': [x.binary_blockwise(np.subtract, y)]}
        if k == 'iadd':
            x += y
        elif k == 'isub':
            x -= y
        elif k == 'ibinary_blockwise_add':
            x.ibinary_blockwise(np.add, y)
        elif k == 'ibinary_blockwise_sub':
            x.ibinary_blockwise(np.subtract, y)
        else:
            x.iadd_prefactor_other(dec_scalar(o['alpha']), y)
        env.slots[o['a']].impl = x
        return {'inplace': True}


@op('scale', 3.0)
class OpScale:
    @staticmethod
    def gen(rng, env, malformed=False):
        if malformed:
            return None
        a = pick_slot(rng, env, small)
        if a is None:
            return None
        kind = rng.choice(['mul', 'rmul', 'imul', 'iscale_prefactor', 'div', 'idiv', 'neg'])
        s = rng.choice(SCALARS)
        if kind in ('div', 'idiv'):
            s = rng.choice([0.5, -1, 0.25, 2, -1.0, 1j])
            if ext_p(env, 0.08):
                return {'op': 'scale', 'a': a, 'kind': kind, 's': enc_scalar(env.xr.choice([0, 0.0])), 'malformed': 'division-by-zero'}
        return {'op': 'scale', 'a': a, 'kind': kind, 's': enc_scalar(s)}

    @staticmethod
    def ref(env, o, aux):
        A = env.slots[o['a']].ref
        s = dec_scalar(o['s'])
        k = o['kind']
        T = A.copy()
        if k == 'neg':
            T.dense = -A.dense
        elif k in ('div', 'idiv'):
            if s == 0:
                raise ExpectError('ZeroDivisionError')
            T.dense = A.dense / s
        else:
            T.dense = A.dense * s
        if k in ('imul', 'iscale_prefactor', 'idiv'):
            env.slots[o['a']].ref = T
            return {'inplace': o['a'], 'qtotal_rule': 'same'}
        return {'new': [T], 'qtotal_rule': 'same'}

    @staticmethod
    def run(env, o):
        x = env.slots[o['a']].impl
        s = dec_scalar(o['s'])
        k = o['kind']
        api(env, 'Array.' + {'mul': '__mul__', 'rmul': '__rmul__', 'imul': '__imul__', 'div': '__truediv__', 'idiv': '__itruediv__',
                             'neg': '__neg__'}.get(k, k), **({} if k == 'neg' else {'scalar': type(s).__name__ + ('=0' if s == 0 else '=1' if s == 1 else '')}))
        if k == 'mul':
            return {'new': [x * s]}
        if k == 'rmul':
            return {'new': [s * x]}
        if k == 'neg':
            return {'new': [-x]}
        if k == 'div':
            return {'new': [x / s]}
        if k == 'imul':
            x *= s
        elif k == 'idiv':
            x /= s
        else:
            x.iscale_prefactor(s)
        env.slots[o['a']].impl = x
        return {'inplace': True}


@op('scale_axis', 2.0)
class OpScaleAxis:
    @staticmethod
    def gen(rng, env, malformed=False):
        a = pick_slot(rng, env, small)
        if a is None:
            return None
        A = env.slots[a].ref
        i = rng.randrange(A.rank)
        n = A.shape[i] + (1 if malformed else 0)
        s = rand_values(rng, (n,), rng.random() < 0.2)
        o = {'op': 'scale_axis', 'a': a, 'axis': axarg(rng, A, i), 's': enc_vec(s), 'inplace': rng.random() < 0.5}
        if rng.random() < 0.2 and i == A.rank - 1:
            o['axis'] = None       # default axis=-1
        if malformed:
            o['malformed'] = 'wrong-length'
        return o

    @staticmethod
    def ref(env, o, aux):
        A = env.slots[o['a']].ref
        i = A.rank - 1 if o['axis'] is None else ax_index(A, o['axis'])
        s = dec_vec(o['s'])
        if s.shape != (A.shape[i],):
            raise ExpectError('ValueError')
        sh = [1] * A.rank
        sh[i] = len(s)
        T = A.copy()
        T.dense = A.dense * s.reshape(sh)
        if o['inplace']:
            env.slots[o['a']].ref = T
            return {'inplace': o['a'], 'qtotal_rule': 'same'}
        return {'new': [T], 'qtotal_rule': 'same'}

    @staticmethod
    def run(env, o):
        x = env.slots[o['a']].impl
        s = dec_vec(o['s'])
        kw = {} if o['axis'] is None else {'axis': o['axis']}
        api(env, 'Array.iscale_axis' if o['inplace'] else 'Array.scale_axis', axis='default' if o['axis'] is None else o['axis'])
        if o['inplace']:
            x.iscale_axis(s, **kw)
            return {'inplace': True}
        return {'new': [x.scale_axis(s, **kw)]}


# ---- reshaping ---------------------------------------------------------------------------------

def _ref_combine(env, A, groups, new_axes, qconjs, sort=True, bunch=True):
    groups = [[ax_index(A, x) for x in g] for g in groups]
    allc = sum(groups, [])
    if len(set(allc)) != len(allc):
        raise ExpectError('ValueError')
    non = [k for k in range(A.rank) if k not in allc]
    new_rank = len(non) + len(groups)
    if new_axes is None:
        first = [g[0] for g in groups]
        new_axes = [sum(1 for n in non if n < f) + sum(1 for f2 in first if f2 < f) for f in first]
    else:
        if len(new_axes) != len(groups):
            raise ExpectError('ValueError')
        new_axes = [na + new_rank if na < 0 else na for na in new_axes]
        if any(na >= new_rank or na < 0 for na in new_axes) or len(set(new_axes)) != len(new_axes):
            raise ExpectError('ValueError', 'IndexError')
    slots = [None] * new_rank
    for g, na in enumerate(new_axes):
        slots[na] = g
    it = iter(non)
    labels_q = [l if l is not None else '?%d' % i for i, l in enumerate(A.labels)]
    perm, legs, labels, shape = [], [], [], []
    for s in slots:
        if s is None:
            k = next(it)
            perm.append(k)
            legs.append(A.legs[k])
            labels.append(A.labels[k])
            shape.append(A.legs[k].n)
        else:
            sub = [A.legs[k] for k in groups[s]]
            qc = None if qconjs is None else (qconjs[s] if len(qconjs) > 1 or len(groups) == 1 else qconjs[0])
            if qc is None:
                qc = sub[0].qconj
            P = pipe_leg(sub, qc, env.mods, sort[s] if isinstance(sort, list) else sort, bunch[s] if isinstance(bunch, list) else bunch)
            perm.extend(groups[s])
            legs.append(P)
            labels.append(lab_combine([labels_q[k] for k in groups[s]]))
            shape.append(P.n)
    D = np.transpose(A.dense, perm).reshape(shape)
    for ax, l in enumerate(legs):
        if l.sub is not None and l.pmap is not None and ax in new_axes:
            D = np.take(D, np.argsort(l.pmap, kind='stable'), axis=ax)
    return RTensor(D, legs, labels, A.qtotal), non


@op('combine_legs', 5.0)
class OpCombine:
    @staticmethod
    def gen(rng, env, malformed=False):
        a = pick_slot(rng, env, lambda s: s.ref.rank >= 1)
        if ext_p(env, 0.3):     # pipes of pipes (nested labels) more often
            a2 = pick_slot(rng, env, lambda s: s.ref.rank >= 2 and any(l.sub is not None for l in s.ref.legs))
            a = a if a2 is None else a2
        A = env.slots[a].ref
        axes = list(range(A.rank))
        rng.shuffle(axes)
        ng = rng.choice([1, 1, 1, 2]) if A.rank >= 2 else 1
        groups = []
        for g in range(ng):
            k = rng.choice([1, 2, 2, 2, 3])
            grp, axes = axes[:k], axes[k:]
            if grp:
                if rng.random() < 0.5:
                    grp.sort()
                groups.append(grp)
        if malformed:
            if A.rank < 2:
                return None
            groups = [[0, 1], [1]] if rng.random() < 0.5 else [[0, 0]]
        for g in groups:
            if np.prod([A.shape[k] for k in g]) > 64:
                return None
        qconj = None
        if rng.random() < 0.4:
            qconj = [rng.choice([1, -1]) for _ in groups]
        new_axes = None
        if rng.random() < 0.25 and not malformed:
            new_rank = A.rank - sum(len(g) for g in groups) + len(groups)
            new_axes = rng.sample(range(new_rank), len(groups))
            if rng.random() < 0.3:
                new_axes = [na - new_rank for na in new_axes]
        single = len(groups) == 1 and rng.random() < 0.5
        o = {'op': 'combine_legs', 'a': a, 'groups': [[axarg(rng, A, k) for k in g] for g in groups],
             'new_axes': new_axes, 'qconj': qconj, 'single': single,
             'via_pipe': rng.random() < 0.2 and not malformed}
        if malformed:
            o['malformed'] = 'leg-twice'
        elif getattr(env, 'ext', False):
            xr = env.xr
            if not o['via_pipe'] and xr.random() < 0.35:
                o['via_pipe'] = True
            if o['via_pipe']:
                # documented: `pipes` may contain None (pipe made from `qconj`), a pipe conjugated to the legs (used conjugated), and a pipe
                # made by make_pipe(axes, **kwargs) with the LegPipe options sort / bunch
                o['pipe_kw'] = [{'sort': xr.random() < 0.6, 'bunch': xr.random() < 0.6} if xr.random() < 0.6 else {} for _ in groups]
                o['pipe_conj'] = [xr.random() < 0.3 for _ in groups]
                o['pipe_none'] = [len(groups) > 1 and xr.random() < 0.25 for _ in groups]
        return o

    @staticmethod
    def pipe_flags(o, name):
        if not o.get('via_pipe') or 'pipe_kw' not in o:
            return True
        return [True if none else bool(kw.get(name, True)) for kw, none in zip(o['pipe_kw'], o['pipe_none'])]

    @staticmethod
    def ref(env, o, aux):
        A = env.slots[o['a']].ref
        T, non = _ref_combine(env, A, o['groups'], o['new_axes'], o['qconj'], OpCombine.pipe_flags(o, 'sort'), OpCombine.pipe_flags(o, 'bunch'))
        res = {'new': [T], 'qtotal_rule': 'same'}
        if any(A.labels[k] is None for k in non):
            res['cond'] = 'unlabeled-noncombined-leg'
        return res

    @staticmethod
    def run(env, o):
        x = env.slots[o['a']].impl
        groups, na, qc = o['groups'], o['new_axes'], o['qconj']
        pipes = None
        if o['via_pipe']:
            pipes = []
            for i, g in enumerate(groups):
                qci = x.get_leg(g[0]).qconj if qc is None else qc[i]
                if 'pipe_kw' in o and o['pipe_none'][i]:
                    pipes.append(None)
                    continue
                kw = o['pipe_kw'][i] if 'pipe_kw' in o else {}
                api(env, 'Array.make_pipe', **kw)
                P = x.make_pipe(g, qconj=qci, **kw)
                if 'pipe_kw' in o and o['pipe_conj'][i]:
                    P = P.conj()
                pipes.append(P)
        api(env, 'Array.combine_legs', combine_legs='one-group' if o['single'] else 'groups', new_axes=na, qconj=qc,
            pipes=None if pipes is None else ('with-None' if any(p_ is None for p_ in pipes) else 'conjugated' if any(o.get('pipe_conj', [])) else 'given'))
        if o['single']:
            return {'new': [x.combine_legs(groups[0], new_axes=None if na is None else na[0],
                                           pipes=None if pipes is None else pipes[0], qconj=None if qc is None else qc[0])]}
        return {'new': [x.combine_legs(groups, new_axes=None if na is None else list(na), pipes=pipes, qconj=qc)]}


def _ref_split(env, A, axes):
    if axes is None:
        axes = [i for i, l in enumerate(A.legs) if l.sub is not None]
    else:
        if not isinstance(axes, list):
            axes = [axes]
        axes = sorted(ax_index(A, x) for x in axes)
        if len(set(axes)) != len(axes):
            raise ExpectError('ValueError')
    for i in axes:
        if A.legs[i].sub is None:
            raise ExpectError('ValueError')
    D = A.dense
    legs, labels, shape = [], [], []
    for i, l in enumerate(A.legs):
        if i in axes:
            D = np.take(D, l.pmap, axis=i)
            legs.extend(l.sub)
            labels.extend(lab_split(A.labels[i], len(l.sub)))
            shape.extend(s.n for s in l.sub)
        else:
            legs.append(l)
            labels.append(A.labels[i])
            shape.append(l.n)
    labs = [x for x in labels if x is not None]
    if len(set(labs)) != len(labs):
        raise ExpectError('ValueError')
    return RTensor(D.reshape(shape), legs, labels, A.qtotal)


@op('split_legs', 5.0)
class OpSplit:
    @staticmethod
    def gen(rng, env, malformed=False):
        if malformed:
            a = pick_slot(rng, env, lambda s: any(l.sub is None for l in s.ref.legs))
            if a is None:
                return None
            A = env.slots[a].ref
            i = rng.choice([i for i, l in enumerate(A.legs) if l.sub is None])
            return {'op': 'split_legs', 'a': a, 'axes': [i], 'malformed': 'not-a-pipe'}
        a = pick_slot(rng, env, lambda s: any(l.sub is not None for l in s.ref.legs))
        if ext_p(env, 0.06 if a is not None else 0.3):
            # nothing to split: documented to return a copy (no LegPipe and axes=None / an empty list of axes)
            b = pick_slot(rng, env, lambda s: not any(l.sub is not None for l in s.ref.legs))
            if b is not None and env.xr.random() < 0.5:
                return {'op': 'split_legs', 'a': b, 'axes': None}
            return {'op': 'split_legs', 'a': pick_slot(rng, env), 'axes': []}
        if a is None:
            return None
        A = env.slots[a].ref
        pa = [i for i, l in enumerate(A.legs) if l.sub is not None]
        newrank = A.rank + sum(len(A.legs[i].sub) - 1 for i in pa)
        ex = {'cutoff': env.xr.choice([0.0, 1e-30, 1e-30])} if ext_p(env, 0.3) else {}
        if rng.random() < 0.5 and newrank <= env.maxrank + 1:
            return dict({'op': 'split_legs', 'a': a, 'axes': None}, **ex)
        k = rng.randint(1, len(pa))
        sel = rng.sample(pa, k)
        axes = [axarg(rng, A, i) for i in sel]
        return dict({'op': 'split_legs', 'a': a, 'axes': axes[0] if len(axes) == 1 and rng.random() < 0.5 else axes}, **ex)

    @staticmethod
    def ref(env, o, aux):
        return {'new': [_ref_split(env, env.slots[o['a']].ref, o['axes'])], 'qtotal_rule': 'same'}

    @staticmethod
    def run(env, o):
        x = env.slots[o['a']].impl
        api(env, 'Array.split_legs', axes=o['axes'], **({'cutoff': o['cutoff']} if 'cutoff' in o else {}))
        if 'cutoff' in o:
            # `cutoff` (blocks with max |entry| <= cutoff count as zero): 1e-30 is below every non-zero entry the programs produce
            return {'new': [x.split_legs(o['axes'], cutoff=o['cutoff'])]}
        return {'new': [x.split_legs() if o['axes'] is None else x.split_legs(o['axes'])]}


@op('as_completely_blocked', 1.0)
class OpBlocked:
    @staticmethod
    def gen(rng, env, malformed=False):
        if malformed:
            return None
        return {'op': 'as_completely_blocked', 'a': pick_slot(rng, env)}

    @staticmethod
    def ref(env, o, aux):
        A = env.slots[o['a']].ref
        enc = [i for i, l in enumerate(A.legs) if not l.is_blocked()]
        if list(aux['enc_axes']) != enc:
            raise OracleFail('as_completely_blocked: encapsulated axes %s, legs not blocked by charge are %s' % (aux['enc_axes'], enc))
        if not enc:
            return {'new': [A.copy()], 'alias': True, 'qtotal_rule': 'same'}
        T, non = _ref_combine(env, A, [[i] for i in enc], None, [A.legs[i].qconj for i in enc])
        res = {'new': [T], 'qtotal_rule': 'same'}
        if any(A.labels[k] is None for k in non):
            res['cond'] = 'unlabeled-noncombined-leg'
        return res

    @staticmethod
    def run(env, o):
        api(env, 'Array.as_completely_blocked')
        enc, r = env.slots[o['a']].impl.as_completely_blocked()
        return {'new': [r], 'aux': {'enc_axes': [int(e) for e in enc]}}


@op('sort_legcharge', 2.5)
class OpSortLeg:
    @staticmethod
    def gen(rng, env, malformed=False):
        if malformed:
            return None
        a = pick_slot(rng, env)
        A = env.slots[a].ref
        mode = rng.random()
        if mode < 0.4:
            sort, bunch = True, True
        elif mode < 0.6:
            sort, bunch = rng.random() < 0.5, rng.random() < 0.5
        else:
            sort = [rng.random() < 0.6 for _ in range(A.rank)]
            bunch = [rng.random() < 0.6 for _ in range(A.rank)]
        o = {'op': 'sort_legcharge', 'a': a, 'sort': sort, 'bunch': bunch}
        if not any(sort if isinstance(sort, list) else [sort]) and not any(bunch if isinstance(bunch, list) else [bunch]):
            o['cond'] = 'nothing-to-sort'
        if sort is True and bunch is True and ext_p(env, 0.5):
            o['defaults'] = True
        if ext_p(env, 0.12) and A.rank and max(A.shape) > 1:
            # documented: an entry of `sort` may be a 1D array `perm`, a given permutation to apply to that leg
            sort = list(sort) if isinstance(sort, list) else [sort] * A.rank
            i = env.xr.choice([k for k in range(A.rank) if A.shape[k] > 1])
            pm = list(range(A.shape[i]))
            while pm == sorted(pm):
                env.xr.shuffle(pm)
            sort[i] = {'perm': pm, 'as': env.xr.choice(['ndarray', 'list'])}
            o['sort'], o['cond'] = sort, 'perm-entry'
            o.pop('defaults', None)
        return o

    @staticmethod
    def ref(env, o, aux):
        A = env.slots[o['a']].ref
        perms = [np.array(p, dtype=int) for p in aux['perms']]
        if len(perms) != A.rank:
            raise OracleFail('sort_legcharge returned %d permutations for rank %d' % (len(perms), A.rank))
        sort = o['sort'] if isinstance(o['sort'], list) else [o['sort']] * A.rank
        bunch = o['bunch'] if isinstance(o['bunch'], list) else [o['bunch']] * A.rank
        legs = []
        for i, (p, l) in enumerate(zip(perms, A.legs)):
            if sorted(p.tolist()) != list(range(l.n)):
                raise OracleFail('sort_legcharge: perm[%d]=%s is not a permutation of range(%d)' % (i, p.tolist(), l.n))
            qf = l.qflat()[p]
            if isinstance(sort[i], dict):
                if p.tolist() != list(sort[i]['perm']):
                    raise OracleFail('sort_legcharge(sort=[.., perm, ..]): the permutation returned for leg %d is %s, the given one %s' % (
                        i, p.tolist(), sort[i]['perm']))
                legs.append(leg_from_qflat(qf, l.qconj, env.q, bunch=bool(bunch[i])))
                continue
            if sort[i] and not rows_sorted(qf):
                raise OracleFail('sort_legcharge(sort=True): leg %d charges %s are not sorted' % (i, qf.tolist()))
            if not sort[i] and p.tolist() != list(range(l.n)):
                raise OracleFail('sort_legcharge(sort=False) permuted leg %d' % i)
            legs.append(leg_from_qflat(qf, l.qconj, env.q, bunch=bool(bunch[i])))
        D = A.dense[np.ix_(*perms)] if A.rank else A.dense
        return {'new': [RTensor(D, legs, A.labels, A.qtotal)], 'alias': True, 'qtotal_rule': 'same',
                'blocked_axes': [i for i in range(A.rank) if sort[i] is True and bunch[i]]}

    @staticmethod
    def run(env, o):
        srt = o['sort']
        if isinstance(srt, list):
            srt = [(np.array(e['perm'], dtype=np.intp) if e['as'] == 'ndarray' else list(e['perm'])) if isinstance(e, dict) else e for e in srt]
        api(env, 'Array.sort_legcharge', sort='perm-entry' if o.get('cond') == 'perm-entry' else o['sort'], bunch=o['bunch'])
        if o.get('defaults'):
            perm, r = env.slots[o['a']].impl.sort_legcharge()
            return {'new': [r], 'aux': {'perms': [[int(x) for x in p] for p in perm]}}
        perm, r = env.slots[o['a']].impl.sort_legcharge(srt, o['bunch'])
        return {'new': [r], 'aux': {'perms': [[int(x) for x in p] for p in perm]}}


@op('permute', 1.5)
class OpPermute:
    @staticmethod
    def gen(rng, env, malformed=False):
        a = pick_slot(rng, env)
        A = env.slots[a].ref
        i = rng.randrange(A.rank)
        if A.shape[i] == 0:
            return None
        p = list(range(A.shape[i]))
        rng.shuffle(p)
        o = {'op': 'permute', 'a': a, 'perm': p, 'axis': axarg(rng, A, i)}
        if malformed:
            o['perm'] = p + [len(p)]
            o['malformed'] = 'wrong-length'
        return o

    @staticmethod
    def ref(env, o, aux):
        A = env.slots[o['a']].ref
        i = ax_index(A, o['axis'])
        p = o['perm']
        if len(p) != A.shape[i]:
            raise ExpectError('ValueError')
        T = A.copy()
        T.dense = np.take(A.dense, p, axis=i)
        T.legs[i] = leg_from_qflat(A.legs[i].qflat()[p], A.legs[i].qconj, env.q)
        return {'new': [T], 'qtotal_rule': 'same'}

    @staticmethod
    def run(env, o):
        api(env, 'Array.permute')
        return {'new': [env.slots[o['a']].impl.permute(o['perm'], o['axis'])]}


# ---- slicing, indexing, assignment ------------------------------------------------------------

def project_leg(l, sel, q):
    """leg after keeping the (ascending) flat indices `sel`: blocks restricted, empty blocks dropped"""
    sel = list(sel)
    sizes, charges = [], []
    for b in range(l.nb):
        c = sum(1 for i in sel if l.slices[b] <= i < l.slices[b + 1])
        if c:
            sizes.append(c)
            charges.append(l.charges[b])
    return RLeg(np.concatenate([[0], np.cumsum(sizes)]).astype(int), np.array(charges, dtype=QT).reshape(len(sizes), q), l.qconj, q)


def enc_inds(inds):
    return inds


def dec_inds(inds):
    out = []
    for it in inds:
        t = it['t']
        if t == 'int':
            out.append(int(it['v']))
        elif t == 'npint':
            out.append(np.int64(it['v']))
        elif t == 'slice':
            out.append(slice(*it['v']))
        elif t == 'mask':
            out.append(np.array(it['v'], dtype=bool))
        elif t == 'idx':
            out.append(np.array(it['v'], dtype=np.intp))
        elif t == 'list':
            out.append([int(v) for v in it['v']])
        else:
            out.append(Ellipsis)
    return tuple(out)


def gen_index_item(rng, n, allow_int=True, allow_unsorted=True, xr=None):
    it = _gen_index_item(rng, n, allow_int, allow_unsorted)
    if xr is None or n == 0:
        return it
    # program key `ext`: the other documented forms of the same selections (numpy integers, negative entries of index arrays,
    # negative slice bounds, further steps, a mask that keeps everything)
    t, u = it['t'], xr.random()
    if t == 'int' and u < 0.3:
        return {'t': 'npint', 'v': it['v']}
    if t in ('idx', 'list') and u < 0.4:
        return {'t': t, 'v': [i - n if i >= 0 and xr.random() < 0.5 else i for i in it['v']]}
    if t == 'slice' and it['v'] != [None, None, None] and u < 0.4:
        a, b, st = it['v']
        if st in (None, 1, 2) and xr.random() < 0.5:
            st = xr.choice([3, 2, 1])
        return {'t': 'slice', 'v': [a - n if a is not None and a > 0 and xr.random() < 0.6 else a, b - n if b is not None and 0 < b < n and xr.random() < 0.6 else b, st]}
    if t == 'slice' and it['v'] == [None, None, None] and u < 0.25 and n >= 2:
        return xr.choice([{'t': 'slice', 'v': [None, None, -1]}, {'t': 'slice', 'v': [None, None, -2]} if allow_unsorted else {'t': 'slice', 'v': [None, None, 2]},
                          {'t': 'mask', 'v': [True] * n}, {'t': 'slice', 'v': [-n, n + 3, None]}]) if allow_unsorted else {'t': 'mask', 'v': [True] * n}
    return it


def _gen_index_item(rng, n, allow_int=True, allow_unsorted=True):
    r = rng.random()
    if allow_int and r < 0.3 and n > 0:
        i = rng.randrange(n)
        return {'t': 'int', 'v': i - n if rng.random() < 0.2 else i}
    if r < 0.45:
        return {'t': 'slice', 'v': [None, None, None]}
    if n == 0:
        return {'t': 'slice', 'v': [None, None, None]}
    if r < 0.65:
        a, b = sorted(rng.sample(range(n + 1), 2))
        st = rng.choice([None, None, 1, 2, -1]) if allow_unsorted else rng.choice([None, 1, 2])
        if st == -1:
            return {'t': 'slice', 'v': [b - 1 if b > 0 else None, a - 1 if a > 0 else None, -1]}
        return {'t': 'slice', 'v': [a if rng.random() < 0.7 else None, b if rng.random() < 0.7 else None, st]}
    if r < 0.8:
        m = [rng.random() < 0.6 for _ in range(n)]
        m[rng.randrange(n)] = True          # selections that keep nothing are not generated (see gen_leg)
        return {'t': 'mask', 'v': m}
    k = rng.randint(1, n)
    idx = rng.sample(range(n), k)
    if not allow_unsorted or rng.random() < 0.5:
        idx.sort()
    return {'t': rng.choice(['idx', 'list']) if idx else 'idx', 'v': idx}


def neg_index_array(inds):
    return any(it['t'] in ('idx', 'list') and any(v < 0 for v in it['v']) for it in inds)


def resolve_inds(A, inds):
    """documented indexing: returns per axis an int or a list of flat indices"""
    items = list(inds)
    ne = sum(1 for it in items if it['t'] == 'ellipsis')
    if ne > 1:
        raise ExpectError('IndexError', 'ValueError')
    if ne == 0 and len(items) < A.rank:
        items = items + [{'t': 'ellipsis'}]
    out = []
    for it in items:
        if it['t'] == 'ellipsis':
            out.extend([{'t': 'slice', 'v': [None, None, None]}] * (A.rank - len(items) + 1))
        else:
            out.append(it)
    if len(out) > A.rank:
        raise ExpectError('IndexError')
    sel = []
    for it, n in zip(out, A.shape):
        t = it['t']
        if t in ('int', 'npint'):
            i = int(it['v'])
            if i < 0:
                i += n
            if i < 0 or i >= n:
                raise ExpectError('IndexError')
            sel.append(i)
        elif t == 'slice':
            sel.append(list(range(*slice(*it['v']).indices(n))))
        elif t == 'mask':
            if len(it['v']) != n:
                raise ExpectError('IndexError', 'ValueError')
            sel.append([i for i, b in enumerate(it['v']) if b])
        else:
            if any(i >= n or i < -n for i in it['v']):
                raise ExpectError('IndexError')
            sel.append([i % n if n else i for i in it['v']])
    return sel


def _ref_getitem(env, A, inds):
    sel = resolve_inds(A, inds)
    D = A.dense
    for ax, s in enumerate(sel):
        if isinstance(s, list):
            D = np.take(D, np.array(s, dtype=int), axis=ax)
    ints = tuple(s if isinstance(s, int) else slice(None) for s in sel)
    D = D[ints]
    if all(isinstance(s, int) for s in sel):
        return complex(D), None
    legs, labels = [], []
    qt = A.qtotal.copy()
    for ax, s in enumerate(sel):
        l = A.legs[ax]
        if isinstance(s, int):
            qt = qt - l.qflat()[s] * l.qconj
            continue
        if s == list(range(l.n)):
            legs.append(l)
        elif s == sorted(s):
            legs.append(project_leg(l, s, env.q))
        else:
            legs.append(leg_from_qflat(l.qflat()[s], l.qconj, env.q))
        labels.append(A.labels[ax])
    return RTensor(D, legs, labels, mv(env.mods, qt)), sel


@op('getitem', 5.0)
class OpGetitem:
    @staticmethod
    def gen(rng, env, malformed=False):
        a = pick_slot(rng, env)
        A = env.slots[a].ref
        if rng.random() < 0.25 and not malformed:
            # take_slice
            k = rng.randint(1, max(1, A.rank - 1))
            axes = rng.sample(range(A.rank), k)
            if any(A.shape[x] == 0 for x in axes) or k == A.rank:
                return None
            idx = [rng.randrange(A.shape[x]) for x in axes]
            if ext_p(env, 0.06):
                return {'op': 'getitem', 'a': a, 'take_slice': True, 'indices': [], 'axes': []}     # no axis: documented to return a copy
            if ext_p(env, 0.3):
                idx = [i - A.shape[x] if env.xr.random() < 0.5 else i for i, x in zip(idx, axes)]   # negative indices count from the end
            return {'op': 'getitem', 'a': a, 'take_slice': True, 'indices': idx if k > 1 or rng.random() < 0.5 else idx[0],
                    'axes': [axarg(rng, A, x) for x in axes] if k > 1 or rng.random() < 0.5 else axarg(rng, A, axes[0])}
        xr = env.xr if getattr(env, 'ext', False) else None
        inds = [gen_index_item(rng, n, xr=xr) for n in A.shape]
        if xr is not None and not malformed and A.dense.size and xr.random() < 0.12:
            # all indices integers: an entry of a stored block / of a block that is not stored / at a position the charge rule forbids
            al = allowed_mask(A, env.mods)
            cls = [c for c in (np.argwhere(al & (A.dense != 0)), np.argwhere(al & (A.dense == 0)), np.argwhere(~al)) if len(c)]
            c = xr.choice(cls)
            pos = [int(v) for v in c[xr.randrange(len(c))]]
            return {'op': 'getitem', 'a': a, 'take_slice': False,
                    'inds': [{'t': xr.choice(['int', 'npint']), 'v': v - n if xr.random() < 0.3 else v} for v, n in zip(pos, A.shape)]}
        if rng.random() < 0.3:
            cut = rng.randint(0, len(inds))
            if rng.random() < 0.5:
                inds = inds[:cut]               # implicit Ellipsis at the end
            else:
                cut2 = rng.randint(cut, len(inds))
                inds = inds[:cut] + [{'t': 'ellipsis'}] + inds[cut2:]
        o = {'op': 'getitem', 'a': a, 'take_slice': False, 'inds': inds}
        if neg_index_array(inds):
            o['cond'] = 'negative-index-array'
        if malformed:
            m = rng.choice(['too-many', 'out-of-range'])
            if m == 'too-many':
                o['inds'] = [{'t': 'slice', 'v': [None, None, None]}] * (A.rank + 1)
            else:
                ax = rng.randrange(A.rank)
                full = [{'t': 'slice', 'v': [None, None, None]} for _ in range(A.rank)]
                full[ax] = {'t': 'int', 'v': A.shape[ax] + rng.choice([0, 1, 3])} if rng.random() < 0.6 else \
                    {'t': 'idx', 'v': [A.shape[ax] + 1]}
                if full[ax]['v'] == A.shape[ax]:
                    m = 'index-eq-ind_len'
                o['inds'] = full
            o['malformed'] = m
        return o

    @staticmethod
    def ref(env, o, aux):
        A = env.slots[o['a']].ref
        if o['take_slice']:
            idx = o['indices'] if isinstance(o['indices'], list) else [o['indices']]
            axes = o['axes'] if isinstance(o['axes'], list) else [o['axes']]
            axes = [ax_index(A, x) for x in axes]
            inds = [{'t': 'slice', 'v': [None, None, None]} for _ in range(A.rank)]
            for x, i in zip(axes, idx):
                inds[x] = {'t': 'int', 'v': i}
        else:
            inds = o['inds']
        T, sel = _ref_getitem(env, A, inds)
        if sel is None:
            return {'scalar': T}
        return {'new': [T], 'qtotal_rule': 'difference'}

    @staticmethod
    def run(env, o):
        npc = _npc()
        x = env.slots[o['a']].impl
        if o['take_slice']:
            api(env, 'Array.take_slice', axes='none' if o['axes'] == [] else ('list' if isinstance(o['axes'], list) else 'single'))
            r = x.take_slice(o['indices'], o['axes'])
        else:
            inds = dec_inds(o['inds'])
            api(env, 'Array.__getitem__', **{'index_' + t: True for t in {it['t'] + ('-negative' if it['t'] in ('idx', 'list', 'int', 'npint') and np.any(np.asarray(it['v']) < 0)
                                                                                   else '-step' if it['t'] == 'slice' and it['v'][2] not in (None, 1) else '')
                                                                        for it in o['inds']} | ({'all-int'} if len(o['inds']) == x.rank and all(it['t'] in ('int', 'npint') for it in o['inds']) else set()) |
                                             ({'truncated'} if len(o['inds']) < x.rank and not any(it['t'] == 'ellipsis' for it in o['inds']) else set())})
            r = x[inds if len(inds) != 1 else inds[0]]
        return {'new': [r]} if isinstance(r, npc.Array) else {'scalar': r}


@op('setitem', 4.0)
class OpSetitem:
    @staticmethod
    def gen(rng, env, malformed=False):
        a = pick_slot(rng, env)
        A = env.slots[a].ref
        cplx = getattr(A, 'kind', 'f') == 'c'
        allowed = allowed_mask(A, env.mods)
        if rng.random() < 0.3:
            if A.dense.size == 0:
                return None
            pos_ok = np.argwhere(allowed)
            want_bad = malformed
            cand = np.argwhere(~allowed) if want_bad else pos_ok
            if len(cand) == 0:
                return None
            pos = [int(v) for v in cand[rng.randrange(len(cand))]]
            v = rng.choice([0, 1, -2, 5, 2.0]) if not cplx else rng.choice([1j, 2, 1 - 1j])
            o = {'op': 'setitem', 'a': a, 'mode': 'scalar', 'pos': pos, 'value': enc_scalar(v)}
            if malformed:
                o['malformed'] = 'incompatible-charge-position'
            return o
        if malformed:
            return None
        xr = env.xr if getattr(env, 'ext', False) else None
        inds = [gen_index_item(rng, n, allow_unsorted=rng.random() < 0.5, xr=xr) for n in A.shape]
        if all(it['t'] in ('int', 'npint') for it in inds):
            inds[0] = {'t': 'slice', 'v': [None, None, None]}
        if xr is not None and xr.random() < 0.3:
            # trailing full slices may be left out / replaced by an Ellipsis (``self[i]`` is ``self[i, ...]``)
            k = len(inds)
            while k > 1 and inds[k - 1] == {'t': 'slice', 'v': [None, None, None]} and xr.random() < 0.7:
                k -= 1
            if k < len(inds):
                inds = inds[:k] + ([{'t': 'ellipsis'}] if xr.random() < 0.5 else [])
        try:
            sel = resolve_inds(A, inds)
        except ExpectError:
            return None
        lists = [[s] if isinstance(s, int) else s for s in sel]
        sub_allowed = allowed[np.ix_(*[np.array(l, dtype=int) for l in lists])]
        shape = tuple(len(s) for s in sel if isinstance(s, list))
        vals = rand_values(rng, sub_allowed.shape, cplx) * sub_allowed
        if rng.random() < 0.3:
            vals = vals * (rand_values(rng, sub_allowed.shape, False) != 0)
        vals = vals.reshape(shape)
        o = {'op': 'setitem', 'a': a, 'mode': rng.choice(['ndarray', 'npc']), 'inds': inds, 'values': enc_vec(vals)}
        if any(isinstance(x, list) and x != sorted(x) for x in sel):
            o['cond'] = 'unsorted-index'
        if neg_index_array(inds):
            o['cond'] = 'negative-index-array'
        r2 = getattr(env, 'sparse_values', None)
        if r2 is not None:
            OpSetitem.sparsify(r2, env, A, o, vals)
        return o

    @staticmethod
    def sparsify(r2, env, A, o, vals):
        """program key `sparse_values`: the assigned value gets a block sparsity that is INDEPENDENT of the block sparsity of the selected
        part of `a` (drawn from the side generator r2, so that the operation sequence of the program is unchanged): per charge block of
        a[inds] the value is zero / non-zero by one of the patterns below, and as npc Array it does not store its zero blocks (`purge`),
        stores them (no `purge`), or stores its blocks in shuffled order"""
        try:
            P, _ = _ref_getitem(env, A, o['inds'])
        except ExpectError:
            return
        if P is None or P.dense.shape != vals.shape:
            return
        part_allowed = allowed_mask(P, env.mods)
        blocks = []                 # (slices, the part of `a` is non-zero there) for every charge-allowed block of a[inds] with entries
        for c in block_combos(P.legs):
            sl = tuple(slice(int(l.slices[b]), int(l.slices[b + 1])) for l, b in zip(P.legs, c))
            if part_allowed[sl].size and part_allowed[sl].all():
                blocks.append((sl, bool(np.any(P.dense[sl] != 0))))
        if not blocks:
            return
        pat = r2.choice(['all', 'indep', 'indep', 'indep', 'complement', 'same-count', 'same-support', 'none', 'superset', 'subset'])
        nz = [b for b in blocks if b[1]]
        ze = [b for b in blocks if not b[1]]
        if pat == 'all':
            keep = list(blocks)
        elif pat == 'indep':
            p = r2.choice([0.3, 0.5, 0.7])
            keep = [b for b in blocks if r2.random() < p]
        elif pat == 'complement':       # non-zero exactly where a[inds] vanishes
            keep = list(ze)
        elif pat == 'same-count':       # as many non-zero blocks as a[inds] has, at other positions as far as possible
            k = len(nz)
            r2.shuffle(ze)
            keep = ze[:k]
            if len(keep) < k:
                keep += r2.sample(nz, k - len(keep))
        elif pat == 'same-support':
            keep = list(nz)
        elif pat == 'superset':         # more blocks than a[inds], but not all of those of a[inds]
            keep = list(ze) + ([b for b in nz if r2.random() < 0.5] if len(nz) > 1 else [])
        elif pat == 'subset':
            keep = [b for b in nz if r2.random() < 0.5]
        else:
            keep = []
        if not keep and pat != 'none' and r2.random() < 0.8:
            # the pattern relative to a[inds] is empty (a[inds] vanishes / has no vanishing block): independent choice instead
            keep = [b for b in blocks if r2.random() < 0.5] or [r2.choice(blocks)]
            pat += '>indep'
        new = np.zeros_like(vals)
        cplx = np.iscomplexobj(vals)
        for sl, _ in keep:
            blk = vals[sl]
            if not np.any(blk != 0):
                blk = rand_values(r2, blk.shape, cplx)
                if not np.any(blk != 0):
                    blk.flat[r2.randrange(blk.size)] = r2.choice([1, -2, 3])
            new[sl] = blk
        o['values'] = enc_vec(new)
        o['pattern'] = pat
        if o['mode'] == 'ndarray' and r2.random() < 0.6:
            o['mode'] = 'npc'
        if o['mode'] == 'npc':
            o['purge'] = r2.random() < 0.85
            if r2.random() < 0.3:
                o['shuffle'] = r2.randrange(1000)

    @staticmethod
    def ref(env, o, aux):
        A = env.slots[o['a']].ref
        T = A.copy()
        if o['mode'] == 'scalar':
            pos = tuple(o['pos'])
            if not allowed_mask(A, env.mods)[pos]:
                raise ExpectError('IndexError')
            T.dense[pos] = dec_scalar(o['value'])
        else:
            sel = resolve_inds(A, o['inds'])
            lists = [np.array([s] if isinstance(s, int) else s, dtype=int) for s in sel]
            vals = dec_vec(o['values'])
            T.dense[np.ix_(*lists)] = vals.reshape([len(l) for l in lists])
        env.slots[o['a']].ref = T
        return {'inplace': o['a'], 'qtotal_rule': 'same'}

    @staticmethod
    def run(env, o):
        npc = _npc()
        x = env.slots[o['a']].impl
        if o['mode'] == 'scalar':
            v = dec_scalar(o['value'])
            pos = tuple(o['pos'])
            api(env, 'Array.__setitem__', value='scalar')
            x[pos if len(pos) > 1 else pos[0]] = v
            return {'inplace': True}
        inds = dec_inds(o['inds'])
        api(env, 'Array.__setitem__', value=o['mode'], **{'index_' + it['t']: True for it in o['inds']})
        inds = inds if len(inds) != 1 else inds[0]
        vals = dec_vec(o['values'])
        if x.dtype.kind != 'c':
            vals = vals.real
        if o['mode'] == 'npc':
            import warnings
            with warnings.catch_warnings():
                warnings.simplefilter('ignore')
                part = x[inds]
            legs = [l.to_LegCharge() if isinstance(l, npc.LegPipe) and False else l for l in part.legs]
            other = npc.Array.from_ndarray(vals, legs, x.dtype, part.qtotal)
            if o.get('purge') or o.get('shuffle') is not None:
                # the value stores its own selection of blocks (zero blocks are not stored when `purge`), in its own order
                keep = [i for i, blk in enumerate(other._data) if not o.get('purge') or np.any(blk != 0)]
                if o.get('shuffle') is not None:
                    random.Random(o['shuffle']).shuffle(keep)
                other._data = [other._data[i] for i in keep]
                other._qdata = np.array(other._qdata[keep], dtype=np.intp, order='C').reshape(len(keep), other.rank)
                other._qdata_sorted = rows_sorted(other._qdata) and o.get('shuffle') is None
                other.test_sanity()
            stat = getattr(env, 'stat_hook', None)
            if stat is not None:
                ps = {tuple(int(t) for t in r) for r in part._qdata}
                os_ = {tuple(int(t) for t in r) for r in other._qdata}
                stat('setitem-npc')
                if ps - os_:
                    stat('setitem-npc:part-stores-block-the-value-lacks')
                    stat('setitem-npc:part-stores-block-the-value-lacks:%s' % ('value-fewer-blocks' if len(os_) < len(ps) else
                                                                              'value-same-count' if len(os_) == len(ps) else 'value-more-blocks'))
                if os_ - ps:
                    stat('setitem-npc:value-stores-block-the-part-lacks')
                if not os_:
                    stat('setitem-npc:value-without-blocks')
                if any(it['t'] in ('mask', 'idx', 'list') for it in o['inds']):
                    stat('setitem-npc:mask-or-index-array')
            x[inds] = other
        else:
            x[inds] = vals
        return {'inplace': True}


@op('iproject', 2.0)
class OpProject:
    @staticmethod
    def gen(rng, env, malformed=False):
        if malformed:
            return None
        a = pick_slot(rng, env)
        A = env.slots[a].ref
        k = rng.choice([1, 1, 2]) if A.rank >= 2 else 1
        axes = rng.sample(range(A.rank), k)
        masks = []
        for x in axes:
            n = A.shape[x]
            if n == 0:
                return None
            if rng.random() < 0.6:
                m = [rng.random() < 0.65 for _ in range(n)]
                m[rng.randrange(n)] = True
                masks.append({'t': 'mask', 'v': m})
            else:
                masks.append({'t': 'idx', 'v': rng.sample(range(n), rng.randint(1, n))})
        single = k == 1 and rng.random() < 0.5
        return {'op': 'iproject', 'a': a, 'axes': [axarg(rng, A, x) for x in axes], 'masks': masks, 'single': single}

    @staticmethod
    def ref(env, o, aux):
        A = env.slots[o['a']].ref
        T = A.copy()
        for x, m in zip(o['axes'], o['masks']):
            i = ax_index(T, x)
            n = T.shape[i]
            keep = [j for j, b in enumerate(m['v']) if b] if m['t'] == 'mask' else sorted(set(m['v']))
            T.dense = np.take(T.dense, np.array(keep, dtype=int), axis=i)
            T.legs[i] = project_leg(T.legs[i], keep, env.q)
        env.slots[o['a']].ref = T
        return {'inplace': o['a'], 'qtotal_rule': 'same'}

    @staticmethod
    def run(env, o):
        x = env.slots[o['a']].impl
        masks = [np.array(m['v'], dtype=bool) if m['t'] == 'mask' else np.array(m['v'], dtype=np.intp) for m in o['masks']]
        import warnings
        with warnings.catch_warnings():
            warnings.simplefilter('ignore')
            api(env, 'Array.iproject', mask='+'.join(sorted({m['t'] for m in o['masks']})), axes='single' if o['single'] else 'list')
            if o['single']:
                x.iproject(masks[0], o['axes'][0])
            else:
                x.iproject(masks, o['axes'])
        return {'inplace': True}


# ---- legs added / removed / regauged ----------------------------------------------------------

@op('squeeze', 2.0)
class OpSqueeze:
    @staticmethod
    def gen(rng, env, malformed=False):
        if malformed:
            a = pick_slot(rng, env, lambda s: any(n != 1 for n in s.ref.shape))
            if a is None:
                return None
            A = env.slots[a].ref
            i = rng.choice([i for i, n in enumerate(A.shape) if n != 1])
            return {'op': 'squeeze', 'a': a, 'axes': [i], 'malformed': 'non-unit-leg'}
        a = pick_slot(rng, env, lambda s: any(n == 1 for n in s.ref.shape))
        if a is None:
            return None
        A = env.slots[a].ref
        ones = [i for i, n in enumerate(A.shape) if n == 1]
        if rng.random() < 0.4:
            return {'op': 'squeeze', 'a': a, 'axes': None}
        sel = rng.sample(ones, rng.randint(1, len(ones)))
        axes = [axarg(rng, A, i) for i in sel]
        return {'op': 'squeeze', 'a': a, 'axes': axes[0] if len(axes) == 1 and rng.random() < 0.5 else axes}

    @staticmethod
    def ref(env, o, aux):
        A = env.slots[o['a']].ref
        if o['axes'] is None:
            axes = [i for i, n in enumerate(A.shape) if n == 1]
        else:
            axes = [ax_index(A, x) for x in (o['axes'] if isinstance(o['axes'], list) else [o['axes']])]
        if any(A.shape[i] != 1 for i in axes):
            raise ExpectError('ValueError')
        keep = [i for i in range(A.rank) if i not in axes]
        D = A.dense.reshape([A.shape[i] for i in keep])
        if not keep:
            return {'scalar': complex(D)}
        qt = A.qtotal.copy()
        for i in axes:
            qt = qt - A.legs[i].qflat()[0] * A.legs[i].qconj
        return {'new': [RTensor(D, [A.legs[i] for i in keep], [A.labels[i] for i in keep], mv(env.mods, qt))],
                'qtotal_rule': 'difference'}

    @staticmethod
    def run(env, o):
        npc = _npc()
        x = env.slots[o['a']].impl
        api(env, 'Array.squeeze', axes=o['axes'], result='scalar' if all(n == 1 for n in x.shape) and o['axes'] is None else 'array')
        r = x.squeeze() if o['axes'] is None else x.squeeze(o['axes'])
        return {'new': [r]} if isinstance(r, npc.Array) else {'scalar': r}


@op('add_leg', 2.0)
class OpAddLeg:
    @staticmethod
    def gen(rng, env, malformed=False):
        a = pick_slot(rng, env, lambda s: s.ref.rank < env.maxrank)
        if a is None:
            return None
        A = env.slots[a].ref
        legs = [l for l in env.pool if l.n > 0 and l.n * A.dense.size <= MAXSIZE]
        if not legs:
            return None
        l = rng.choice(legs)
        if rng.random() < 0.5:
            l = l.conj()
        i = rng.randrange(l.n)
        label = fresh_label(rng, A.labels) if rng.random() < 0.6 else None
        o = {'op': 'add_leg', 'a': a, 'leg': l.spec(), 'i': i, 'axis': rng.randint(0, A.rank - 1), 'label': label}   # axis == rank raises IndexError in add_leg (not clearly documented; reported, not checked)
        if rng.random() < 0.15 and A.rank > 0:
            o['axis'] = -rng.randint(1, A.rank)
        if malformed:
            labs = [x for x in A.labels if x is not None]
            if not labs:
                return None
            o['label'] = rng.choice(labs)
            o['malformed'] = 'label-collision'
        elif ext_p(env, 0.15):
            o.update(axis=0, label=None, defaults=True)     # default arguments axis=0, label=None
        return o

    @staticmethod
    def ref(env, o, aux):
        A = env.slots[o['a']].ref
        l = leg_from_spec(o['leg'], env.q)
        ax = o['axis'] + A.rank if o['axis'] < 0 else o['axis']
        if o['label'] is not None and o['label'] in A.labels:
            raise ExpectError('ValueError')
        shape = list(A.shape)
        shape.insert(ax, l.n)
        D = np.zeros(shape, dtype=complex)
        idx = [slice(None)] * len(shape)
        idx[ax] = o['i']
        D[tuple(idx)] = A.dense
        legs = list(A.legs)
        legs.insert(ax, l)
        labels = list(A.labels)
        labels.insert(ax, o['label'])
        qt = mv(env.mods, A.qtotal + l.qflat()[o['i']] * l.qconj)
        return {'new': [RTensor(D, legs, labels, qt)], 'qtotal_rule': 'sum-with-leg-charge'}

    @staticmethod
    def run(env, o):
        x = env.slots[o['a']].impl
        if o.get('defaults'):
            api(env, 'Array.add_leg')
            return {'new': [x.add_leg(mk_leg(env, o['leg']), o['i'])]}
        api(env, 'Array.add_leg', axis=o['axis'], label=o['label'])
        return {'new': [x.add_leg(mk_leg(env, o['leg']), o['i'], o['axis'], o['label'])]}


@op('add_trivial_leg', 2.0)
class OpAddTrivial:
    @staticmethod
    def gen(rng, env, malformed=False):
        a = pick_slot(rng, env, lambda s: s.ref.rank < env.maxrank)
        if a is None:
            return None
        A = env.slots[a].ref
        label = fresh_label(rng, A.labels) if rng.random() < 0.6 else None
        o = {'op': 'add_trivial_leg', 'a': a, 'axis': rng.randint(0, A.rank), 'label': label, 'qconj': rng.choice([1, -1])}
        if rng.random() < 0.15:
            o['axis'] = -rng.randint(1, A.rank)
        if malformed:
            labs = [x for x in A.labels if x is not None]
            if not labs:
                return None
            o['label'] = rng.choice(labs)
            o['malformed'] = 'label-collision'
        elif ext_p(env, 0.15):
            o.update(axis=0, label=None, qconj=1, defaults=True)     # default arguments axis=0, label=None, qconj=1
        return o

    @staticmethod
    def ref(env, o, aux):
        A = env.slots[o['a']].ref
        ax = o['axis'] + A.rank if o['axis'] < 0 else o['axis']
        if o['label'] is not None and o['label'] in A.labels:
            raise ExpectError('ValueError')
        legs = list(A.legs)
        legs.insert(ax, RLeg([0, 1], np.zeros((1, env.q), dtype=QT), o['qconj'], env.q))
        labels = list(A.labels)
        labels.insert(ax, o['label'])
        return {'new': [RTensor(np.expand_dims(A.dense, ax), legs, labels, A.qtotal)], 'alias': True, 'qtotal_rule': 'same'}

    @staticmethod
    def run(env, o):
        if o.get('defaults'):
            api(env, 'Array.add_trivial_leg')
            return {'new': [env.slots[o['a']].impl.add_trivial_leg()]}
        api(env, 'Array.add_trivial_leg', axis=o['axis'], label=o['label'], qconj=o['qconj'])
        return {'new': [env.slots[o['a']].impl.add_trivial_leg(o['axis'], o['label'], o['qconj'])]}


@op('extend', 1.5)
class OpExtend:
    @staticmethod
    def gen(rng, env, malformed=False):
        if malformed:
            return None
        a = pick_slot(rng, env)
        A = env.slots[a].ref
        i = rng.randrange(A.rank)
        if rng.random() < 0.5:
            extra = rng.randint(0, 2)
        else:
            l = rng.choice(env.pool)
            if rng.random() < 0.5:
                l = l.conj()
            extra = l.spec()
        n_extra = extra if isinstance(extra, int) else extra['slices'][-1]
        if A.dense.size and A.dense.size // max(1, A.shape[i]) * (A.shape[i] + n_extra) > MAXSIZE:
            return None
        return {'op': 'extend', 'a': a, 'axis': axarg(rng, A, i), 'extra': extra}

    @staticmethod
    def ref(env, o, aux):
        A = env.slots[o['a']].ref
        i = ax_index(A, o['axis'])
        l = A.legs[i]
        ex = o['extra']
        if isinstance(ex, int):
            E = RLeg([0, ex], np.zeros((1, env.q), dtype=QT), l.qconj, env.q)
        else:
            E = leg_from_spec(ex, env.q)
        ech = E.charges if E.qconj == l.qconj else mv(env.mods, -E.charges)
        nl = RLeg(np.concatenate([l.slices, l.n + E.slices[1:]]), np.concatenate([l.charges, ech.reshape(E.nb, env.q)]), l.qconj, env.q)
        T = A.copy()
        pad = [(0, 0)] * A.rank
        pad[i] = (0, E.n)
        T.dense = np.pad(A.dense, pad)
        T.legs[i] = nl
        return {'new': [T], 'qtotal_rule': 'same'}

    @staticmethod
    def run(env, o):
        api(env, 'Array.extend', extra='int' if isinstance(o['extra'], int) else 'LegCharge')
        ex = o['extra'] if isinstance(o['extra'], int) else mk_leg(env, o['extra'])
        return {'new': [env.slots[o['a']].impl.extend(o['axis'], ex)]}


def rand_charge(rng, mods):
    return [rng.randint(-2, 2) if m == 1 else rng.randrange(m) for m in mods]


@op('gauge_total_charge', 2.0)
class OpGauge:
    @staticmethod
    def gen(rng, env, malformed=False):
        if malformed:
            return None
        a = pick_slot(rng, env)
        A = env.slots[a].ref
        i = rng.randrange(A.rank)
        newq = None if rng.random() < 0.3 else [c + (rng.choice([0, m]) if m != 1 else 0) for c, m in zip(rand_charge(rng, env.mods), env.mods)]
        return {'op': 'gauge_total_charge', 'a': a, 'axis': axarg(rng, A, i), 'newqtotal': newq,
                'new_qconj': rng.choice([None, None, 1, -1])}

    @staticmethod
    def ref(env, o, aux):
        A = env.slots[o['a']].ref
        i = ax_index(A, o['axis'])
        l = A.legs[i]
        newq = mv(env.mods, np.zeros(env.q, dtype=QT) if o['newqtotal'] is None else np.array(o['newqtotal'], dtype=QT).reshape(env.q))
        nqc = l.qconj if o['new_qconj'] is None else o['new_qconj']
        # signed charge of every index of that leg is shifted by (new - old) total charge
        signed = l.charges * l.qconj + (newq - A.qtotal)
        T = A.copy()
        T.legs[i] = RLeg(l.slices, mv(env.mods, nqc * signed), nqc, env.q)
        T.qtotal = newq
        return {'new': [T], 'alias': True, 'qtotal_rule': 'requested'}

    @staticmethod
    def run(env, o):
        api(env, 'Array.gauge_total_charge', newqtotal=o['newqtotal'], new_qconj=o['new_qconj'])
        return {'new': [env.slots[o['a']].impl.gauge_total_charge(o['axis'], o['newqtotal'], o['new_qconj'])]}


# ---- storage-only operations and copies -------------------------------------------------------

@op('storage', 3.0)
class OpStorage:
    """ipurge_zeros / isort_qdata / copy / astype / zeros_like: dense form documented unchanged (or zero)"""
    @staticmethod
    def gen(rng, env, malformed=False):
        if malformed:
            return None
        a = pick_slot(rng, env)
        kind = rng.choice(['ipurge_zeros', 'isort_qdata', 'copy_deep', 'copy_shallow', 'astype', 'astype_nocopy', 'zeros_like'])
        o = {'op': 'storage', 'a': a, 'kind': kind}
        if kind.startswith('astype'):
            o['dtype'] = rng.choice(['complex128', 'float64', None])
            if o['dtype'] is None and not np.any(env.slots[a].ref.dense != 0):
                o['dtype'] = 'complex128'      # dtype=None is defined through the stored blocks only
            if ext_p(env, 0.2) and small(env.slots[a]):
                o['dtype'] = 'int64'
        elif ext_p(env, 0.45):
            A = env.slots[a].ref
            k2 = env.xr.choice(['ipurge_zeros_cut', 'ipurge_zeros_cut', 'pickle', 'deepcopy', 'copy_default'])
            o = {'op': 'storage', 'a': a, 'kind': k2}
            if k2 == 'ipurge_zeros_cut':
                # blocks with norm <= cutoff are removed; norm_order: any `ord` of np.linalg.norm (for rank > 2 numpy only accepts None);
                # cutoffs k + 1/2 cannot coincide with a 1-, 2- or inf-norm of integer blocks
                o['norm_order'] = env.xr.choice([None, 'inf', 1, 'fro', 2] if A.rank == 2 else [None, 'inf', 1, 2] if A.rank == 1 else [None])
                o['cutoff'] = env.xr.choice([0.0, 0.5, 1.5, 2.5, 4.5])
                if not is_gauss_int(A.dense) or getattr(A, 'kind', 'f') == 'c':
                    o['cutoff'] = 0.0
        return o

    @staticmethod
    def ref(env, o, aux):
        A = env.slots[o['a']].ref
        k = o['kind']
        if k in ('ipurge_zeros', 'isort_qdata'):
            return {'inplace': o['a'], 'qtotal_rule': 'same'}
        T = A.copy()
        if k == 'ipurge_zeros_cut':
            od = {'inf': np.inf}.get(o['norm_order'], o['norm_order'])
            for c in block_combos(A.legs):
                sl = tuple(slice(int(l.slices[b]), int(l.slices[b + 1])) for l, b in zip(A.legs, c))
                blk = A.dense[sl]
                if blk.size and np.any(blk != 0) and not np.linalg.norm(blk, ord=od) > o['cutoff']:
                    T.dense[sl] = 0
            env.slots[o['a']].ref = T
            return {'inplace': o['a'], 'qtotal_rule': 'same'}
        if k == 'zeros_like':
            T.dense = np.zeros_like(A.dense)
        if k.startswith('astype') and o['dtype'] == 'float64':
            if getattr(A, 'kind', 'f') == 'c':
                T.dense = T.dense.real.astype(complex)
        if k.startswith('astype') and o['dtype'] == 'int64':
            T.dense = np.trunc(T.dense.real).astype(complex)        # numpy: float -> int truncates towards zero, the imaginary part is discarded
        return {'new': [T], 'alias': k in ('copy_shallow', 'astype_nocopy', 'zeros_like'), 'qtotal_rule': 'same'}

    @staticmethod
    def run(env, o):
        x = env.slots[o['a']].impl
        k = o['kind']
        api(env, 'Array.' + {'copy_deep': 'copy', 'copy_shallow': 'copy', 'copy_default': 'copy', 'astype_nocopy': 'astype', 'ipurge_zeros_cut': 'ipurge_zeros',
                             'pickle': '__getstate__', 'deepcopy': '__getstate__'}.get(k, k),
            **({'deep': k != 'copy_shallow'} if k in ('copy_deep', 'copy_shallow') else {'dtype': o['dtype'], 'copy': k == 'astype'} if k.startswith('astype')
               else {'cutoff': o['cutoff'], 'norm_order': o['norm_order']} if k == 'ipurge_zeros_cut' else {}))
        if k == 'ipurge_zeros':
            x.ipurge_zeros()
            return {'inplace': True}
        if k == 'ipurge_zeros_cut':
            x.ipurge_zeros(o['cutoff'], {'inf': np.inf}.get(o['norm_order'], o['norm_order']))
            return {'inplace': True}
        if k == 'pickle':
            import pickle
            api(env, 'Array.__setstate__')
            return {'new': [pickle.loads(pickle.dumps(x))]}
        if k == 'deepcopy':
            import copy
            api(env, 'Array.__setstate__')
            return {'new': [copy.deepcopy(x)]}
        if k == 'copy_default':
            return {'new': [x.copy()]}
        if k == 'isort_qdata':
            x.isort_qdata()
            return {'inplace': True}
        if k == 'copy_deep':
            return {'new': [x.copy(deep=True)]}
        if k == 'copy_shallow':
            return {'new': [x.copy(deep=False)]}
        if k == 'zeros_like':
            return {'new': [x.zeros_like()]}
        import warnings
        with warnings.catch_warnings():
            warnings.simplefilter('ignore')
            return {'new': [x.astype(o['dtype'], copy=(k == 'astype'))]}


@op('labels', 2.5)
class OpLabels:
    @staticmethod
    def gen(rng, env, malformed=False):
        a = pick_slot(rng, env)
        A = env.slots[a].ref
        kind = rng.choice(['replace_label', 'ireplace_label', 'replace_labels', 'ireplace_labels', 'idrop_labels', 'iset_leg_labels'])
        o = {'op': 'labels', 'a': a, 'kind': kind}
        if kind in ('replace_label', 'ireplace_label'):
            i = rng.randrange(A.rank)
            new = fresh_label(rng, A.labels)
            if malformed:
                others = [l for j, l in enumerate(A.labels) if j != i and l is not None]
                if not others:
                    return None
                new = rng.choice(others)
                o['malformed'] = 'label-collision'
            if new is None:
                return None
            o.update(old=axarg(rng, A, i, 0.7), new=new)
        elif kind in ('replace_labels', 'ireplace_labels'):
            if malformed:
                return None
            k = rng.randint(1, A.rank)
            sel = rng.sample(range(A.rank), k)
            pool = [l for l in LABEL_POOL if l not in [A.labels[j] for j in range(A.rank) if j not in sel]]
            if len(pool) < k:
                return None
            o.update(old=[axarg(rng, A, i, 0.7) for i in sel], new=rng.sample(pool, k))
        elif kind == 'idrop_labels':
            if malformed:
                return None
            o['old'] = None if rng.random() < 0.4 else [axarg(rng, A, i, 0.7) for i in rng.sample(range(A.rank), rng.randint(1, A.rank))]
        else:
            labs = rng.sample(LABEL_POOL, A.rank) if A.rank <= len(LABEL_POOL) else None
            if labs is None:
                return None
            labs = [l if rng.random() < 0.8 else None for l in labs]
            if malformed:
                if A.rank < 2:
                    return None
                labs[0] = labs[1] = 'a'
                o['malformed'] = 'label-collision'
            o['new'] = labs
        return o

    @staticmethod
    def ref(env, o, aux):
        A = env.slots[o['a']].ref
        k = o['kind']
        labels = list(A.labels)
        if k in ('replace_label', 'ireplace_label'):
            i = ax_index(A, o['old'])
            labels[i] = None
            if o['new'] in labels:
                raise ExpectError('ValueError')
            labels[i] = o['new']
        elif k in ('replace_labels', 'ireplace_labels'):
            idx = [ax_index(A, x) for x in o['old']]
            for i in idx:
                labels[i] = None
            for i, n in zip(idx, o['new']):
                if n in labels:
                    raise ExpectError('ValueError')
                labels[i] = n
        elif k == 'idrop_labels':
            if o['old'] is None:
                labels = [None] * A.rank
            else:
                for i in [ax_index(A, x) for x in o['old']]:
                    labels[i] = None
        else:
            labs = [l for l in o['new'] if l is not None]
            if len(o['new']) != A.rank or len(set(labs)) != len(labs):
                raise ExpectError('ValueError')
            labels = list(o['new'])
        T = A.copy()
        T.labels = labels
        if k in ('replace_label', 'replace_labels'):
            return {'new': [T], 'alias': True, 'qtotal_rule': 'same'}
        env.slots[o['a']].ref = T
        return {'inplace': o['a'], 'qtotal_rule': 'same', 'labels_only': True}

    @staticmethod
    def run(env, o):
        x = env.slots[o['a']].impl
        k = o['kind']
        api(env, 'Array.' + k, **({'old_labels': o['old']} if k == 'idrop_labels' else {}))
        if k in ('replace_label', 'replace_labels'):
            return {'new': [getattr(x, k)(o['old'], o['new'])]}
        if k in ('ireplace_label', 'ireplace_labels'):
            getattr(x, k)(o['old'], o['new'])
        elif k == 'idrop_labels':
            x.idrop_labels(o['old'])
        else:
            x.iset_leg_labels(o['new'])
        return {'inplace': True}


@op('charges', 1.5)
class OpCharges:
    """drop_charge / change_charge: the result lives over another ChargeInfo and is checked, then discarded"""
    @staticmethod
    def gen(rng, env, malformed=False):
        if malformed or env.q == 0:
            return None
        a = pick_slot(rng, env)
        k = rng.randrange(env.q)
        if rng.random() < 0.5:
            ch = None if rng.random() < 0.3 else (env.names[k] if env.names[k] and rng.random() < 0.5 else k)
            o = {'op': 'charges', 'a': a, 'kind': 'drop_charge', 'charge': ch}
            if ext_p(env, 0.3):
                o['chinfo'] = True
            return o
        m = env.mods[k]
        cands = [2, 3, 4, 5, 1] if m == 1 else [d for d in range(2, m + 1) if m % d == 0]
        o = {'op': 'charges', 'a': a, 'kind': 'change_charge', 'charge': env.names[k] if env.names[k] and rng.random() < 0.5 else k,
             'new_qmod': rng.choice(cands)}
        if ext_p(env, 0.3):
            o['new_name'] = env.xr.choice(['', 'Q', 'par'])
        if ext_p(env, 0.3):
            o['chinfo'] = True
        return o

    @staticmethod
    def ref(env, o, aux):
        A = env.slots[o['a']].ref
        ch = o['charge']
        if o['kind'] == 'drop_charge':
            if ch is None:
                keep = []
            else:
                k = env.names.index(ch) if isinstance(ch, str) else ch
                keep = [j for j in range(env.q) if j != k]
            mods = [env.mods[j] for j in keep]
            legs = [RLeg(l.slices, l.charges[:, keep], l.qconj, len(keep)) for l in A.legs]
            if ch is None:
                legs = [RLeg([0, l.n], np.zeros((1, 0), dtype=QT), l.qconj, 0) for l in A.legs]
            T = RTensor(A.dense, legs, A.labels, A.qtotal[keep])
        else:
            k = env.names.index(ch) if isinstance(ch, str) else ch
            mods = list(env.mods)
            mods[k] = o['new_qmod']
            legs = [RLeg(l.slices, mv(mods, l.charges), l.qconj, env.q) for l in A.legs]
            T = RTensor(A.dense, legs, A.labels, mv(mods, A.qtotal))
        res = {'new': [T], 'foreign_mods': mods, 'qtotal_rule': 'reduced'}
        if getattr(env, 'ext', False):      # names of the charges of the result (documented; used by the continuation on the result)
            if o['kind'] == 'drop_charge':
                res['foreign_names'] = [env.names[j] for j in keep]
            else:
                res['foreign_names'] = [o.get('new_name', '') if j == k else n for j, n in enumerate(env.names)]
        return res

    @staticmethod
    def run(env, o):
        x = env.slots[o['a']].impl
        npc = _npc()
        if o['kind'] == 'drop_charge':
            api(env, 'Array.drop_charge', charge=o['charge'], chinfo='given' if o.get('chinfo') else None)
            if o.get('chinfo'):     # documented: the ChargeInfo with `charge` dropped may be given
                return {'new': [x.drop_charge(o['charge'], npc.ChargeInfo.drop(x.chinfo, o['charge']))]}
            return {'new': [x.drop_charge(o['charge'])]}
        api(env, 'Array.change_charge', new_name=o.get('new_name', ''), chinfo='given' if o.get('chinfo') else None)
        if o.get('chinfo'):
            return {'new': [x.change_charge(o['charge'], o['new_qmod'], o.get('new_name', ''), npc.ChargeInfo.change(x.chinfo, o['charge'], o['new_qmod'], o.get('new_name', '')))]}
        if 'new_name' in o:
            return {'new': [x.change_charge(o['charge'], o['new_qmod'], o['new_name'])]}
        return {'new': [x.change_charge(o['charge'], o['new_qmod'])]}


@op('norm', 1.0)
class OpNorm:
    @staticmethod
    def gen(rng, env, malformed=False):
        if malformed:
            return None
        o = {'op': 'norm', 'a': pick_slot(rng, env), 'ord': rng.choice([None, None, 'inf', 0, 1, 2])}
        if ext_p(env, 0.6):
            # the documented table of `ord` (None/'fro', inf, -inf, 0, other), the method Array.norm, convert_to_float, ndarray / list arguments
            o['ord'] = env.xr.choice([None, 'fro', 'inf', '-inf', 0, 1, 2, 3, 0.5, -1])
            o['via'] = env.xr.choice(['function', 'method', 'method', 'ndarray', 'list'])
            o['convert_to_float'] = env.xr.random() < 0.7
            if o['ord'] in ('fro',):
                o['cond'] = 'ord-fro'
            if o['ord'] in ('-inf', -1) and o['via'] != 'ndarray':
                A = env.slots[o['a']].ref
                o['cond'] = 'negative-ord+no-zero-entry' if A.dense.size and np.all(A.dense != 0) else 'negative-ord'
            if o['via'] == 'list':
                o['ord'] = None
                o.pop('cond', None)
            if o['ord'] in ('inf', '-inf') and o['via'] != 'ndarray' and any(0 in l.sizes() for l in env.slots[o['a']].ref.legs):
                o.pop('cond', None)     # a stored size-0 block: np.linalg.norm(empty, +-inf) raises (registered finding F01.8, structural key `empty-block`)
        return o

    @staticmethod
    def ref(env, o, aux):
        A = env.slots[o['a']].ref
        v = A.dense.ravel()
        od = o['ord']
        if od == 0:
            r = float(np.count_nonzero(v))
        elif od == 'inf':
            r = float(np.max(np.abs(v))) if v.size else 0.0
        elif od == '-inf':
            r = float(np.min(np.abs(v))) if v.size else 0.0
        elif od == 'fro':
            r = float(np.linalg.norm(v))
        else:
            import warnings
            with warnings.catch_warnings():
                warnings.simplefilter('ignore')
                r = float(np.linalg.norm(v, od))
        if o.get('via') == 'list':
            r = float(np.sqrt(2.0) * r)     # documented for a list: the 2-norm of the norms of its entries
        return {'scalar': complex(r), 'approx': True}

    @staticmethod
    def run(env, o):
        npc = _npc()
        od = {'inf': np.inf, '-inf': -np.inf}.get(o['ord'], o['ord'])
        x = env.slots[o['a']].impl
        via = o.get('via')
        api(env, 'Array.norm' if via == 'method' else 'norm', ord=str(o['ord']), **({} if via is None else {'convert_to_float': o['convert_to_float'], 'a': via}))
        if via is None:
            return {'scalar': npc.norm(x, od)}
        if via == 'method':
            return {'scalar': x.norm(od, o['convert_to_float'])}
        if via == 'ndarray':
            return {'scalar': npc.norm(x.to_ndarray(), od, o['convert_to_float'])}
        if via == 'list':
            return {'scalar': npc.norm([x, x])}
        return {'scalar': npc.norm(x, od, o['convert_to_float'])}


# ---- constructors -------------------------------------------------------------------------------

@op('construct', 2.5)
class OpConstruct:
    @staticmethod
    def gen(rng, env, malformed=False):
        if malformed:
            return None
        kind = rng.choice(['eye_like', 'zeros', 'ones', 'diag', 'from_ndarray'])
        if kind == 'eye_like':
            a = pick_slot(rng, env, lambda s: any(l.n <= 8 for l in s.ref.legs))
            if a is None:
                return None
            A = env.slots[a].ref
            i = rng.choice([i for i, l in enumerate(A.legs) if l.n <= 8])
            labs = rng.choice([None, ['x', 'x*'], ['p', None]])
            if A.legs[0].n <= 8 and ext_p(env, 0.3):
                return {'op': 'construct', 'kind': kind, 'a': a, 'axis': 0, 'labels': None, 'defaults': True}   # default arguments axis=0, labels=None
            return {'op': 'construct', 'kind': kind, 'a': a, 'axis': axarg(rng, A, i), 'labels': labs}
        if kind == 'diag':
            l = rng.choice(env.pool)
            s = rand_values(rng, (l.n,), rng.random() < 0.3)
            o = {'op': 'construct', 'kind': kind, 'leg': l.spec(), 's': enc_vec(s) if rng.random() < 0.7 else enc_scalar(rng.choice([2.0, 1, 1j])),
                 'labels': rng.choice([None, ['a', 'b']])}
            if ext_p(env, 0.4):
                o['dtype'] = env.xr.choice(['complex128', 'float64']) if not np.iscomplexobj(s) and (o['s'].get('t') != 'complex') else 'complex128'
            return o
        r = rng.randint(1, min(3, env.maxrank))
        legs = [rng.choice(env.pool) for _ in range(r)]
        legs = [l.conj() if rng.random() < 0.5 else l for l in legs]
        if np.prod([l.n for l in legs]) > 200:
            return None
        T = RTensor(np.zeros([l.n for l in legs]), legs, [None] * r, np.zeros(env.q))
        qt = pick_qtotal(rng, env, legs)
        labs = rng.sample(LABEL_POOL, r) if rng.random() < 0.6 else None
        o = {'op': 'construct', 'kind': kind, 'legs': [l.spec() for l in legs], 'qtotal': [int(x) for x in qt], 'labels': labs,
             'dtype': rng.choice(['float64', 'complex128', 'int64'])}
        if kind in ('zeros', 'ones') and ext_p(env, 0.3):
            # default arguments dtype=float64, qtotal=None (charge 0), labels=None
            o.update(dtype='float64', qtotal=[0] * env.q, labels=None, defaults=True)
        if kind == 'from_ndarray':
            T.qtotal = np.array(qt, dtype=QT)
            o['values'] = enc_vec(rand_values(rng, T.shape, o['dtype'] == 'complex128') * allowed_mask(T, env.mods))
        return o

    @staticmethod
    def ref(env, o, aux):
        k = o['kind']
        if k == 'eye_like':
            A = env.slots[o['a']].ref
            l = A.legs[ax_index(A, o['axis'])]
            return {'new': [RTensor(np.eye(l.n), [l, l.conj()], o['labels'] or [None, None], np.zeros(env.q, dtype=QT))], 'qtotal_rule': 'zero'}
        if k == 'diag':
            l = leg_from_spec(o['leg'], env.q)
            s = dec_vec(o['s']) if 'shape' in o['s'] else dec_scalar(o['s']) * np.ones(l.n)
            return {'new': [RTensor(np.diag(s), [l, l.conj()], o['labels'] or [None, None], np.zeros(env.q, dtype=QT))], 'qtotal_rule': 'zero'}
        legs = [leg_from_spec(sp, env.q) for sp in o['legs']]
        T = RTensor(np.zeros([l.n for l in legs]), legs, o['labels'] or [None] * len(legs), mv(env.mods, np.array(o['qtotal'], dtype=QT).reshape(env.q)))
        if k == 'ones':
            T.dense = allowed_mask(T, env.mods).astype(complex)
        elif k == 'from_ndarray':
            T.dense = dec_vec(o['values']).astype(complex)
        return {'new': [T], 'qtotal_rule': 'requested'}

    @staticmethod
    def run(env, o):
        npc = _npc()
        k = o['kind']
        if k == 'eye_like':
            if o.get('defaults'):
                api(env, 'eye_like')
                return {'new': [npc.eye_like(env.slots[o['a']].impl)]}
            api(env, 'eye_like', axis=o['axis'], labels=o['labels'])
            return {'new': [npc.eye_like(env.slots[o['a']].impl, o['axis'], o['labels'])]}
        if k == 'diag':
            s = dec_vec(o['s']) if 'shape' in o['s'] else dec_scalar(o['s'])
            api(env, 'diag', s='scalar' if 'shape' not in o['s'] else 'array', dtype=o.get('dtype'), labels=o['labels'])
            return {'new': [npc.diag(s, mk_leg(env, o['leg']), o.get('dtype'), labels=o['labels'])]}
        legs = [mk_leg(env, sp) for sp in o['legs']]
        if k in ('zeros', 'ones') and o.get('defaults'):
            api(env, k)
            return {'new': [getattr(npc, k)(legs)]}
        if k in ('zeros', 'ones', 'from_ndarray'):
            api(env, k if k != 'from_ndarray' else 'Array.from_ndarray', dtype=o['dtype'], qtotal=o['qtotal'], labels=o['labels'])
        if k == 'zeros':
            return {'new': [npc.zeros(legs, o['dtype'], o['qtotal'], o['labels'])]}
        if k == 'ones':
            return {'new': [npc.ones(legs, o['dtype'], o['qtotal'], o['labels'])]}
        v = dec_vec(o['values'])
        if o['dtype'] != 'complex128':
            v = v.real
        return {'new': [npc.Array.from_ndarray(v, legs, o['dtype'], o['qtotal'], labels=o['labels'])]}


def pick_qtotal(rng, env, legs):
    """total charge for which at least one block is allowed (mostly)"""
    q = env.q
    r = rng.random()
    if r < 0.15 or any(l.nb == 0 for l in legs):
        return mv(env.mods, np.array(rand_charge(rng, env.mods), dtype=QT).reshape(q))
    if r < 0.3:
        return np.zeros(q, dtype=QT)
    tot = np.zeros(q, dtype=QT)
    for l in legs:
        tot = tot + l.charges[rng.randrange(l.nb)] * l.qconj
    return mv(env.mods, tot)


# ---- concatenation ---------------------------------------------------------------------------

def _concat_leg(env, legs):
    base = legs[0]
    sizes, chs = [], []
    for l in legs:
        sizes.extend(l.sizes())
        chs.append(l.charges if l.qconj == base.qconj else mv(env.mods, -l.charges))
    return RLeg(np.concatenate([[0], np.cumsum(sizes)]).astype(int), np.concatenate(chs).reshape(len(sizes), env.q), base.qconj, env.q)


def _ref_concat(env, Ts, axis_i):
    A = Ts[0]
    for T in Ts:
        if T.rank != A.rank or any(T.shape[k] != A.shape[k] for k in range(A.rank) if k != axis_i):
            raise ExpectError('ValueError')
        if not np.array_equal(T.qtotal, A.qtotal):
            raise ExpectError('ValueError')
        for k in range(A.rank):
            if k != axis_i and not T.legs[k].equal(A.legs[k], env.mods):
                raise ExpectError('ValueError')
    R = A.copy()
    R.dense = np.concatenate([T.dense for T in Ts], axis=axis_i)
    R.legs[axis_i] = _concat_leg(env, [T.legs[axis_i] for T in Ts])
    return R


def concat_compatible(env, A, B, i):
    return B.rank == A.rank and np.array_equal(A.qtotal, B.qtotal) and \
        all(k == i or (A.legs[k].equal(B.legs[k], env.mods)) for k in range(A.rank))


@op('concatenate', 2.5)
class OpConcat:
    @staticmethod
    def gen(rng, env, malformed=False):
        a = pick_slot(rng, env)
        A = env.slots[a].ref
        i = rng.randrange(A.rank)
        cands = [b for b, s in enumerate(env.slots) if concat_compatible(env, A, s.ref, i) != malformed and s.ref.rank == A.rank]
        if not cands:
            return None
        k = rng.choice([1, 2, 2, 3])
        arrs = [a] + [rng.choice(cands) for _ in range(k - 1)]
        if malformed:
            arrs = [a, rng.choice(cands)]
        if sum(env.slots[b].ref.dense.size for b in arrs) > MAXSIZE:
            return None
        o = {'op': 'concatenate', 'arrays': arrs, 'axis': axarg(rng, A, i), 'copy': rng.random() < 0.7}
        if len(set(arrs)) != len(arrs):
            o['copy'] = True        # copy=False with a repeated operand makes two blocks of the result one ndarray (unspecified aliasing)
        if getattr(env, 'strict_alias', False) and len({env.slots[b].group for b in arrs}) != len(arrs):
            o['copy'] = True        # ... and so do two operands that are shallow copies of each other (program key `strict_alias`)
        if i == 0 and not malformed and ext_p(env, 0.4):
            o.update(axis=0, copy=True, defaults=True)      # default arguments axis=0, copy=True
        if malformed:
            o['malformed'] = 'incompatible-operands'
        return o

    @staticmethod
    def ref(env, o, aux):
        Ts = [env.slots[b].ref for b in o['arrays']]
        i = ax_index(Ts[0], o['axis'])
        return {'new': [_ref_concat(env, Ts, i)], 'alias': not o['copy'], 'alias_of': o['arrays'], 'qtotal_rule': 'same'}

    @staticmethod
    def run(env, o):
        if o.get('defaults'):
            api(env, 'concatenate', arrays=len(o['arrays']))
            return {'new': [_npc().concatenate([env.slots[b].impl for b in o['arrays']])]}
        api(env, 'concatenate', arrays=len(o['arrays']), axis=o['axis'], copy=o['copy'])
        return {'new': [_npc().concatenate([env.slots[b].impl for b in o['arrays']], o['axis'], o['copy'])]}


@op('grid_concat', 1.5)
class OpGridConcat:
    @staticmethod
    def gen(rng, env, malformed=False):
        if malformed:
            return None
        a = pick_slot(rng, env, lambda s: s.ref.rank >= 2 and s.ref.dense.size <= 100)
        if a is None:
            return None
        A = env.slots[a].ref
        i, j = rng.sample(range(A.rank), 2)
        same = [b for b, s in enumerate(env.slots) if s.ref.rank == A.rank and np.array_equal(A.qtotal, s.ref.qtotal) and
                all(A.legs[k].equal(s.ref.legs[k], env.mods) for k in range(A.rank))]
        if getattr(env, 'strict_alias', False):
            # legs that are equal as charge data but stored with the opposite qconj: which of the two equivalent forms the result takes is not documented
            same = [b for b in same if all(A.legs[k].qconj == env.slots[b].ref.legs[k].qconj for k in range(A.rank))]
        n0, n1 = rng.choice([1, 2]), rng.choice([1, 2, 3])
        grid = [[rng.choice(same) if rng.random() < 0.75 else None for _ in range(n1)] for _ in range(n0)]
        for r in range(n0):
            if all(g is None for g in grid[r]):
                grid[r][rng.randrange(n1)] = a
        for c in range(n1):
            if all(grid[r][c] is None for r in range(n0)):
                grid[rng.randrange(n0)][c] = a
        o = {'op': 'grid_concat', 'grid': grid, 'axes': [i, j], 'a': a}
        if getattr(env, 'ext', False):
            used = [g for row in grid for g in row if g is not None]
            if len({env.slots[g].group for g in used}) == len(used) and env.xr.random() < 0.5:
                o['copy'] = False       # (a repeated entry / two shallow copies with copy=False would make two blocks of the result one ndarray)
            if env.xr.random() < 0.4 and all(env.slots[g].ref.labels == A.labels for g in used):
                o['axes'] = [axarg(env.xr, A, i), axarg(env.xr, A, j)]      # documented: `axes` are leg labels or indices
        return o

    @staticmethod
    def ref(env, o, aux):
        grid = o['grid']
        A = env.slots[o['a']].ref
        first = next(env.slots[g].ref for row in grid for g in row if g is not None)
        i, j = [ax_index(first if isinstance(x, str) else A, x) for x in o['axes']]
        rows = []
        for row in grid:
            Ts = []
            for g in row:
                if g is None:
                    Z = A.copy()
                    Z.dense = np.zeros_like(A.dense)
                    Ts.append(Z)
                else:
                    Ts.append(env.slots[g].ref)
            rows.append(_ref_concat(env, Ts, j))
        R = _ref_concat(env, rows, i)
        R.labels = list(first.labels) if any(g is None for row in grid for g in row) else list(env.slots[grid[0][0]].ref.labels)
        res = {'new': [R], 'qtotal_rule': 'same'}
        if o.get('copy') is False:
            res.update(alias=True, alias_of=sorted({g for row in grid for g in row if g is not None}))
        return res

    @staticmethod
    def run(env, o):
        grid = [[None if g is None else env.slots[g].impl for g in row] for row in o['grid']]
        api(env, 'grid_concat', grid='2D' + ('+None' if any(g is None for row in grid for g in row) else ''), axes='labels' if any(isinstance(x, str) for x in o['axes']) else 'int',
            **({'copy': False} if o.get('copy') is False else {}))
        if o.get('copy') is False:
            return {'new': [_npc().grid_concat(grid, o['axes'], copy=False)]}
        return {'new': [_npc().grid_concat(grid, o['axes'])]}


@op('grid_outer', 1.5)
class OpGridOuter:
    @staticmethod
    def gen(rng, env, malformed=False):
        if malformed:
            return None
        a = pick_slot(rng, env, lambda s: s.ref.rank <= env.maxrank - 1 and s.ref.dense.size <= 100)
        if a is None:
            return None
        A = env.slots[a].ref
        same = [b for b, s in enumerate(env.slots) if s.ref.rank == A.rank and np.array_equal(A.qtotal, s.ref.qtotal) and
                all(A.legs[k].equal(s.ref.legs[k], env.mods) for k in range(A.rank))]
        if getattr(env, 'strict_alias', False):
            # legs that are equal as charge data but stored with the opposite qconj: which of the two equivalent forms the result takes is not documented
            same = [b for b in same if all(A.legs[k].qconj == env.slots[b].ref.legs[k].qconj for k in range(A.rank))]
        two = rng.random() < 0.4 and A.rank <= env.maxrank - 2
        shape = [rng.randint(1, 3)] + ([rng.randint(1, 2)] if two else [])
        base = [rand_charge(rng, env.mods) for _ in shape]
        legs, grid = [], None
        cells = list(itertools.product(*[range(n) for n in shape]))
        filled = {c: (rng.choice(same) if rng.random() < 0.7 else None) for c in cells}
        if all(v is None for v in filled.values()):
            filled[cells[0]] = a
        for d, n in enumerate(shape):
            qc = rng.choice([1, -1])
            qf = []
            for x in range(n):
                used = any(v is not None for c, v in filled.items() if c[d] == x)
                qf.append(base[d] if used or rng.random() < 0.5 else rand_charge(rng, env.mods))
            l = leg_from_qflat(mv(env.mods, np.array(qf, dtype=QT).reshape(n, env.q)), qc, env.q, bunch=rng.random() < 0.5)
            legs.append(l.spec())
        if two:
            grid = [[filled[(x, y)] for y in range(shape[1])] for x in range(shape[0])]
        else:
            grid = [filled[(x,)] for x in range(shape[0])]
        glabels = None if rng.random() < 0.5 else [fresh_label(rng, A.labels + ['w']) if d else 'w' for d in range(len(shape))]
        if glabels is not None and (None in glabels or len(set(glabels)) != len(glabels) or 'w' in A.labels):
            glabels = None
        o = {'op': 'grid_outer', 'grid': grid, 'grid_legs': legs, 'grid_labels': glabels, 'a': a, 'two': two}
        if getattr(env, 'ext', False):
            xr = env.xr
            if xr.random() < 0.4:
                # detect_grid_outer_legcharge: one grid leg is derived from the entries for a desired total charge (default 0)
                d = xr.randrange(len(shape))
                full = all(any(v is not None for c, v in filled.items() if c[d] == x) for x in range(shape[d]))
                if full or xr.random() < 0.2:
                    o['detect_axis'] = d
                    o['detect_qtotal'] = None if xr.random() < 0.4 else [c + (xr.choice([0, m]) if m != 1 else 0) for c, m in zip(rand_charge(xr, env.mods), env.mods)]
                    o['detect_qconj'] = xr.choice([None, 1, -1])
            if xr.random() < 0.4:
                try:        # the documented argument `qtotal` (instead of deriving it from the first entry)
                    qt = OpGridOuter.ref(env, o, None)['new'][0].qtotal
                    o['qtotal_arg'] = [int(c) + (xr.choice([0, m]) if m != 1 else 0) for c, m in zip(qt, env.mods)]
                except ExpectError:
                    pass
        return o

    @staticmethod
    def ref(env, o, aux):
        A = env.slots[o['a']].ref
        legs = [leg_from_spec(sp, env.q) for sp in o['grid_legs']]
        shape = [l.n for l in legs]
        if 'detect_axis' in o:
            d = o['detect_axis']
            Q = mv(env.mods, np.zeros(env.q, dtype=QT) if o['detect_qtotal'] is None else np.array(o['detect_qtotal'], dtype=QT).reshape(env.q))
            qc = 1 if o['detect_qconj'] is None else o['detect_qconj']
            qf = [None] * shape[d]
            for idx in itertools.product(*[range(n) for n in shape]):
                g = (o['grid'][idx[0]][idx[1]] if o['two'] else o['grid'][idx[0]])
                if g is None:
                    continue
                need = Q - env.slots[g].ref.qtotal
                for k, (i, l) in enumerate(zip(idx, legs)):
                    if k != d:
                        need = need - l.qflat()[i] * l.qconj
                need = mv(env.mods, qc * need)
                if qf[idx[d]] is not None and not np.array_equal(qf[idx[d]], need):
                    raise ExpectError('ValueError')
                qf[idx[d]] = need
            if any(x is None for x in qf):
                raise ExpectError('ValueError')
            legs[d] = leg_from_qflat(np.array(qf, dtype=QT).reshape(shape[d], env.q), qc, env.q, bunch=False)
        grid = np.empty(shape, dtype=object)
        if o['two']:
            for x in range(shape[0]):
                for y in range(shape[1]):
                    grid[x, y] = o['grid'][x][y]
        else:
            for x in range(shape[0]):
                grid[x] = o['grid'][x]
        entries = [(idx, g) for idx, g in np.ndenumerate(grid) if g is not None]
        idx0, g0 = entries[0]
        E0 = env.slots[g0].ref
        qt = E0.qtotal.copy()
        for i, l in zip(idx0, legs):
            qt = qt + l.qflat()[i] * l.qconj
        qt = mv(env.mods, qt)
        D = np.zeros(tuple(shape) + A.shape, dtype=complex)
        for idx, g in entries:
            E = env.slots[g].ref
            q2 = E.qtotal.copy()
            for i, l in zip(idx, legs):
                q2 = q2 + l.qflat()[i] * l.qconj
            if not np.array_equal(mv(env.mods, q2), qt):
                raise ExpectError('ValueError', 'IndexError')
            D[idx] = E.dense
        labels = (o['grid_labels'] or [None] * len(shape)) + list(E0.labels)
        labs = [x for x in labels if x is not None]
        if len(set(labs)) != len(labs):
            raise ExpectError('ValueError')     # a grid label that the first entry already carries (labels of the entries may differ from those of slot `a`)
        return {'new': [RTensor(D, legs + list(E0.legs), labels, qt)], 'qtotal_rule': 'sum-with-leg-charge'}

    @staticmethod
    def run(env, o):
        if o['two']:
            grid = [[None if g is None else env.slots[g].impl for g in row] for row in o['grid']]
        else:
            grid = [None if g is None else env.slots[g].impl for g in o['grid']]
        npc = _npc()
        legs = [mk_leg(env, sp) for sp in o['grid_legs']]
        if 'detect_axis' in o:
            legs[o['detect_axis']] = None
            kw = {} if o['detect_qconj'] is None else {'qconj': o['detect_qconj']}
            api(env, 'detect_grid_outer_legcharge', qtotal=o['detect_qtotal'], **kw)
            legs = npc.detect_grid_outer_legcharge(grid, legs, o['detect_qtotal'], **kw)
        api(env, 'grid_outer', qtotal=o.get('qtotal_arg'), grid_labels=o['grid_labels'], grid='2D' if o['two'] else '1D')
        if 'qtotal_arg' in o:
            return {'new': [npc.grid_outer(grid, legs, o['qtotal_arg'], o['grid_labels'])]}
        return {'new': [npc.grid_outer(grid, legs, grid_labels=o['grid_labels'])]}


# =========================================================================================
# part 4: generation of charge structures / initial tensors, program runner
# =========================================================================================

def gen_chinfo(rng):
    nq = rng.choice([0, 1, 1, 1, 2, 2, 3])
    mods = [rng.choice([1, 1, 2, 2, 3, 4, 5]) for _ in range(nq)]
    names = ['']*nq
    if rng.random() < 0.5:
        names = rng.sample(['N', 'Sz', 'P', 'K'], nq)
    return mods, names


def gen_leg_rich(rng, mods, maxn=5):
    """a LegCharge with several charge blocks (2-4) carrying at least two different charges, mostly unsorted: tensors over such
    legs store several blocks in a pattern that is not symmetric under permutations of the legs"""
    q = len(mods)
    nb = rng.choice([2, 3, 3, 4])
    sizes = [rng.choice([1, 1, 1, 2]) for _ in range(nb)]
    while sum(sizes) > maxn:
        sizes[sizes.index(max(sizes))] -= 1
        if all(s_ <= 1 for s_ in sizes) and sum(sizes) > maxn:
            sizes.pop()
    nb = len(sizes)
    pool = []
    for _ in range(40):
        c = [rng.randint(-1, 1) if m == 1 else rng.randrange(m) for m in mods]
        if c not in pool:
            pool.append(c)
        if len(pool) >= rng.choice([2, 3, 3]):
            break
    charges = [pool[i % len(pool)] for i in range(nb)]      # every charge of the pool occurs when nb allows
    rng.shuffle(charges)
    if rng.random() < 0.2:
        charges.sort(key=lambda c: tuple(c[::-1]))
    return RLeg(np.concatenate([[0], np.cumsum(sizes)]).astype(int), np.array(charges, dtype=QT).reshape(nb, q), rng.choice([1, -1]), q)


def gen_leg(rng, mods, maxn=5):
    """a LegCharge over `mods`: unsorted / duplicated / empty blocks on purpose"""
    q = len(mods)
    # NOT generated: legs without any block (block_number == 0, what projecting everything out of a leg leaves).
    # tenpy mishandles them in many operations (combine_legs / sort_legcharge / drop_charge raise; without charges
    # LegCharge.test_sanity itself asserts); see the report of the C01 builder.  Length-0 legs are generated as
    # legs whose blocks all have size 0.
    nb = rng.choice([1, 1, 2, 2, 3, 3, 4])
    p0 = 0.3 if rng.random() < 0.1 else 0.0           # legs with empty (size-0) blocks: about 1 in 12
    sizes = [0 if rng.random() < p0 else rng.choice([1, 1, 1, 2, 2, 3]) for _ in range(nb)]
    while sum(sizes) > maxn:
        sizes[rng.randrange(nb)] = 1
        if sum(sizes) > maxn and all(s <= 1 for s in sizes):
            sizes.pop()
            nb -= 1
    pool = [[(rng.randint(-1, 1) if rng.random() < 0.8 else rng.randint(-2, 2)) if m == 1 else rng.randrange(m) for m in mods]
            for _ in range(rng.choice([1, 2, 2, 3]))]
    charges = [rng.choice(pool) for _ in range(nb)]
    if rng.random() < 0.3:
        charges.sort(key=lambda c: tuple(c[::-1]))
    return RLeg(np.concatenate([[0], np.cumsum(sizes)]).astype(int), np.array(charges, dtype=QT).reshape(nb, q), rng.choice([1, -1]), q)


def block_combos(legs):
    return list(itertools.product(*[range(l.nb) for l in legs]))


@op('init', 0.0)
class OpInit:
    """creation of a tensor with a chosen storage: per allowed block  data / stored zeros / missing; rows possibly unsorted"""
    @staticmethod
    def gen(rng, env, malformed=False, like=None):
        if like is not None:
            A = env.slots[like].ref
            legs, labels, qt = list(A.legs), list(A.labels), A.qtotal
            if all(l is not None for l in labels) and A.rank > 1 and rng.random() < 0.6:
                perm = list(range(A.rank))
                rng.shuffle(perm)
                legs, labels = [legs[k] for k in perm], [labels[k] for k in perm]
            legs = [l.plain() for l in legs]
        else:
            r = rng.choice([1, 2, 2, 3, 3, 4][:2 + env.maxrank]) if env.maxrank <= 4 else rng.choice([1, 2, 2, 3, 3, 4, 5, 6])
            r = min(r, env.maxrank)
            for _ in range(30):
                legs = [rng.choice(env.pool) for _ in range(r)]
                legs = [l.conj() if rng.random() < 0.5 else l for l in legs]
                if np.prod([max(1, l.n) for l in legs]) <= (400 if r <= 4 else 729):
                    break
            else:
                legs = [rng.choice(env.pool)]
            qt = pick_qtotal(rng, env, legs)
            labels = rng.sample(LABEL_POOL, len(legs))
            pl = rng.random()
            if pl < 0.3:
                labels = [l if rng.random() < 0.5 else None for l in labels]
            elif pl < 0.4:
                labels = [None] * len(legs)
        return OpInit.gen_from(rng, env, legs, labels, qt)

    @staticmethod
    def gen_from(rng, env, legs, labels, qt):
        """init operation for the given legs / labels / total charge: random values, per allowed block data / stored zeros / missing"""
        dtype = rng.choice(['float64', 'float64', 'complex128', 'int64'])
        T = RTensor(np.zeros([l.n for l in legs]), legs, labels, qt)
        allowed = allowed_mask(T, env.mods)
        vals = rand_values(rng, T.shape, dtype == 'complex128') * allowed
        decisions = {}
        p_missing = rng.choice(getattr(env, 'p_missing', None) or ([0.0, 0.0, 0.25, 0.25] if getattr(env, 'rich', False) else [0.0, 0.25, 0.25, 0.6]))
        for c in block_combos(legs):
            tot = np.zeros(env.q, dtype=QT)
            for l, b in zip(legs, c):
                tot = tot + l.charges[b] * l.qconj
            if not np.array_equal(mv(env.mods, tot), np.asarray(qt)):
                continue
            u = rng.random()
            d = 'missing' if u < p_missing else ('zero' if u < p_missing + 0.12 else 'data')
            decisions[','.join(map(str, c))] = d
            if d != 'data':
                sl = tuple(slice(int(l.slices[b]), int(l.slices[b + 1])) for l, b in zip(legs, c))
                vals[sl] = 0
        return {'op': 'init', 'legs': [l.spec() for l in legs], 'qtotal': [int(x) for x in qt], 'labels': labels, 'dtype': dtype,
                'values': enc_vec(vals), 'blocks': decisions, 'shuffle': rng.choice([None, None, rng.randrange(1000)])}

    @staticmethod
    def ref(env, o, aux):
        legs = [leg_from_spec(sp, env.q) for sp in o['legs']]
        return {'new': [RTensor(dec_vec(o['values']), legs, o['labels'], np.array(o['qtotal'], dtype=QT).reshape(env.q))], 'qtotal_rule': 'requested'}

    @staticmethod
    def run(env, o):
        npc = _npc()
        legs = [mk_leg(env, sp) for sp in o['legs']]
        v = dec_vec(o['values'])
        if o['dtype'] != 'complex128':
            v = v.real
        x = npc.Array.from_ndarray(v, legs, o['dtype'], o['qtotal'], labels=o['labels'])
        keep = [i for i, row in enumerate(x._qdata) if o['blocks'].get(','.join(str(int(t)) for t in row), 'data') != 'missing']
        if o['shuffle'] is not None:
            random.Random(o['shuffle']).shuffle(keep)
        x._data = [x._data[i] for i in keep]
        x._qdata = np.array(x._qdata[keep], dtype=np.intp, order='C').reshape(len(keep), x.rank)
        x._qdata_sorted = rows_sorted(x._qdata) and o['shuffle'] is None
        x.test_sanity()
        return {'new': [x]}


COQ_OPS = ('transpose', 'conj', 'scale', 'add', 'outer', 'tensordot')
# second correspondence stream (own list `coq2`, own per-program limit, so that the first stream is unchanged):
# Model/TensorProg.v iswapaxes / gauge_total_charge and Model/TakeSlice.v take_slice on one axis
COQ_OPS2 = ('iswapaxes', 'gauge_total_charge', 'getitem')


def coq2_wanted(o):
    if o['op'] == 'getitem':
        return bool(o.get('take_slice')) and not isinstance(o.get('indices'), list)
    return o['op'] in COQ_OPS2


def is_gauss_int(a):
    a = np.asarray(a)
    return bool(np.all(a.real == np.round(a.real)) and np.all(a.imag == np.round(a.imag)) and (a.size == 0 or np.max(np.abs(a)) < 1e9))


def capture_storage(x):
    """documented storage of an Array (doc/intro/npc.rst) as plain lists, for the Coq model"""
    legs = []
    for l in x.legs:
        legs.append({'sizes': [int(s) for s in np.diff(l.slices)], 'charges': [[int(c) for c in r] for r in np.asarray(l.charges)],
                     'qconj': int(l.qconj)})
    blocks = []
    for row, blk in zip(x._qdata, x._data):
        b = np.asarray(blk)
        flat = b.ravel(order='C')
        blocks.append({'q': [int(t) for t in row], 'shape': [int(s) for s in b.shape],
                       're': [float(v) for v in flat.real], 'im': [float(v) for v in (flat.imag if np.iscomplexobj(flat) else np.zeros(flat.shape))]})
    return {'legs': legs, 'qtotal': [int(t) for t in x.qtotal], 'blocks': blocks, 'sorted': bool(x._qdata_sorted),
            'labels': list(x.get_leg_labels()),
            'dense_re': [float(v) for v in x.to_ndarray().real.ravel()],
            'dense_im': [float(v) for v in np.asarray(x.to_ndarray()).imag.ravel()]}


def storage_small(x):
    return x.to_ndarray().size <= 48 and len(x._data) <= 8 and all(is_gauss_int(b) for b in x._data) and x.rank <= 4


def observe(x):
    legs = []
    for l in x.legs:
        legs.append((int(l.ind_len), int(l.qconj), np.array(l.to_qflat(), dtype=QT).reshape(l.ind_len, l.chinfo.qnumber)))
    return {'dense': np.asarray(x.to_ndarray()), 'labels': list(x.get_leg_labels()), 'qtotal': np.array(x.qtotal, dtype=QT), 'legs': legs}


def compare(T, x, mods):
    """C01 observables of the real Array x against the reference T; returns list of (symptom, text)"""
    bad = []
    try:
        ob = observe(x)
    except Exception as e:
        return [('observe-raises', 'to_ndarray/to_qflat raises %s: %s' % (type(e).__name__, str(e)[:100]))]
    if len(ob['legs']) != T.rank:
        return [('rank-differs', 'rank %d, expected %d' % (len(ob['legs']), T.rank))]
    for i, ((n, qc, qf), l) in enumerate(zip(ob['legs'], T.legs)):
        if n != l.n or qc != l.qconj or not np.array_equal(qf.reshape(n, len(mods)), l.qflat()):
            bad.append(('leg-differs', 'leg %d: (ind_len, qconj, qflat) = (%d, %d, %s), documented (%d, %d, %s)' % (
                i, n, qc, qf.tolist(), l.n, l.qconj, l.qflat().tolist())))
    if ob['labels'] != list(T.labels):
        bad.append(('labels-differ', 'labels %r, documented %r' % (ob['labels'], list(T.labels))))
    if not np.array_equal(ob['qtotal'].reshape(-1), np.asarray(T.qtotal).reshape(-1)):
        bad.append(('qtotal-differs', 'qtotal %s, documented %s' % (ob['qtotal'].tolist(), np.asarray(T.qtotal).tolist())))
    if not bad or all(b[0] in ('labels-differ', 'qtotal-differs') for b in bad):
        if tuple(ob['dense'].shape) != tuple(T.dense.shape):
            bad.append(('dense-differs', 'shape %s, expected %s' % (ob['dense'].shape, T.dense.shape)))
        elif not np.array_equal(ob['dense'].astype(complex), T.dense):
            d = np.argwhere(ob['dense'].astype(complex) != T.dense)
            bad.append(('dense-differs', 'dense form differs from the numpy result at %d positions, first %s: %s vs %s' % (
                len(d), d[0].tolist(), ob['dense'][tuple(d[0])], T.dense[tuple(d[0])])))
    return bad


def rleg_from_impl(l, q, mods):
    npc = _npc()
    if isinstance(l, npc.LegPipe):
        sub = [rleg_from_impl(s, q, mods) for s in l.legs]
        P = pipe_leg(sub, l.qconj, mods, True, True)
        out = RLeg(l.slices, l.charges, l.qconj, q, sub, P.pmap)
        return out
    return RLeg(l.slices, l.charges, l.qconj, q)


def adopt_structure(T, x, q):
    """block structure is not an observable of C01: take it from the implementation once qflat agrees"""
    npc = _npc()
    for i, l in enumerate(x.legs):
        r = T.legs[i]
        is_pipe = isinstance(l, npc.LegPipe)
        if is_pipe != (r.sub is not None):
            return 'pipe-structure-unexpected: leg %d is %sa LegPipe' % (i, '' if is_pipe else 'not ')
        T.legs[i] = RLeg(l.slices, l.charges, l.qconj, q, r.sub, r.pmap)
    T.kind = x.dtype.kind
    return None


# ---- directed chains: <operation that permutes the block table> ; <fresh partner> ; <binary operation on both> ----------

def chain_partner(rng, env, xi, pd):
    """init operation creating a partner for slot xi for the binary operation pd['mode']; records in pd what the binary step needs.
    The partner has its own random pattern of stored / missing blocks (OpInit.gen_from)."""
    X = env.slots[xi].ref
    r = X.rank
    mode = pd['mode']
    if r == 0:
        return None
    if mode == 'add':
        order = list(range(r))
        if all(l is not None for l in X.labels) and r > 1 and rng.random() < 0.15:
            rng.shuffle(order)          # same labels in another order: documented to be transposed first
        legs = [X.legs[k].plain() for k in order]
        labels = [X.labels[k] for k in order]
        return OpInit.gen_from(rng, env, legs, labels, X.qtotal)
    if mode == 'inner':
        do_conj = rng.random() < 0.5
        order = list(range(r))
        if r > 1 and rng.random() < 0.3:
            rng.shuffle(order)
        if do_conj:
            legs = [X.legs[k].plain() for k in order]
            labels = [X.labels[k] for k in order]
            qt = X.qtotal
        else:
            legs = [X.legs[k].conj().plain() for k in order]
            labels = [lab_conj(X.labels[k]) for k in order]
            qt = mv(env.mods, -X.qtotal)
        pd['do_conj'], pd['order'] = do_conj, order
        return OpInit.gen_from(rng, env, legs, labels, qt)
    # tensordot: X as second operand more often (the compiled and the python worker only re-sort the first operand)
    role = 'b' if rng.random() < 0.65 else 'a'
    k = min(r, rng.choice([1, 1, 2, 2, 3]))
    standard = rng.random() < 0.6
    if standard:
        S = list(range(k)) if role == 'b' else list(range(r - k, r))
    else:
        S = rng.sample(range(r), k)
    contr = [X.legs[i].conj().plain() for i in S]
    nextra_max = min(2, env.maxrank - (r - k))
    extras = []
    pool = [l for l in env.pool if 0 not in l.sizes()]      # size-0 charge blocks: tensordot raises / crashes (known finding)
    for _ in range(rng.randint(0, max(0, nextra_max)) if pool else 0):
        l = rng.choice(pool)
        extras.append(l.conj() if rng.random() < 0.5 else l)
    keep_size = int(np.prod([X.shape[i] for i in range(r) if i not in S] or [1]))
    while extras and (keep_size * int(np.prod([max(1, l.n) for l in extras])) > MAXSIZE or
                      int(np.prod([max(1, l.n) for l in contr + extras])) > 400):
        extras.pop()
    if int(np.prod([max(1, l.n) for l in contr])) > 400:
        return None
    if standard:
        legs = extras + contr if role == 'b' else contr + extras
        P = list(range(len(extras), len(extras) + k)) if role == 'b' else list(range(k))
    else:
        pos = list(range(k + len(extras)))
        rng.shuffle(pos)
        legs = [None] * len(pos)
        for l, p_ in zip(contr + extras, pos):
            legs[p_] = l
        P = pos[:k]
    qt = pick_qtotal(rng, env, legs)
    labels = rng.sample(LABEL_POOL, len(legs))
    if rng.random() < 0.2:
        labels = [l if rng.random() < 0.5 else None for l in labels]
    pd['role'], pd['S'], pd['P'], pd['standard'] = role, S, P, standard
    return OpInit.gen_from(rng, env, legs, labels, qt)


def chain_binary(rng, env, xi, pi, pd):
    """the binary operation of a directed chain on slot xi (result of a permuting operation) and its partner pi"""
    X, Pt = env.slots[xi].ref, env.slots[pi].ref
    mode = pd['mode']
    if mode == 'add':
        a, b = (xi, pi) if rng.random() < 0.5 else (pi, xi)
        kind = rng.choice(['add', 'sub', 'iadd', 'isub', 'iadd_prefactor_other', 'iadd_prefactor_other', 'binary_blockwise_add',
                           'binary_blockwise_sub', 'ibinary_blockwise_add', 'ibinary_blockwise_sub'])
        alpha = rng.choice([1, -1, 2, 2.0, -3, 1j, 1 - 1j]) if kind == 'iadd_prefactor_other' else None
        o = {'op': 'add', 'a': a, 'b': b, 'kind': kind, 'alpha': None if alpha is None else enc_scalar(alpha)}
        _, perm = _align_other(env.slots[a].ref, env.slots[b].ref)
        if perm:
            o['cond'] = 'labels-permuted'
        return o
    if mode == 'inner':
        order = pd['order']             # partner leg j is leg order[j] of X
        x_first = rng.random() < 0.5
        if order == list(range(X.rank)) and rng.random() < 0.7:
            axes = 'range'
        elif None not in X.labels and ext_p(env, 0.6):
            axes = 'labels'     # documented: same / conjugated labels up to a transposition, which is reverted
        else:
            js = list(range(X.rank))
            rng.shuffle(js)
            ax_x = [axarg(rng, X, order[j]) for j in js]
            ax_p = [axarg(rng, Pt, j) for j in js]
            axes = [ax_x, ax_p] if x_first else [ax_p, ax_x]
        o = {'op': 'inner', 'a': xi if x_first else pi, 'b': pi if x_first else xi, 'axes': axes, 'do_conj': pd['do_conj']}
        if ext_p(env, 0.2):
            o['as_lists'] = env.xr.randint(1, 3)
        return o
    S, P, k = pd['S'], pd['P'], len(pd['S'])
    if pd['standard'] and rng.random() < 0.5:
        axes = k
    elif pd['role'] == 'b':
        axes = [[axarg(rng, Pt, p_) for p_ in P], [axarg(rng, X, i) for i in S]]
    else:
        axes = [[axarg(rng, X, i) for i in S], [axarg(rng, Pt, p_) for p_ in P]]
    if pd['role'] == 'b':
        return {'op': 'tensordot', 'a': pi, 'b': xi, 'axes': axes}
    return {'op': 'tensordot', 'a': xi, 'b': pi, 'axes': axes}


# operations that rebuild or re-order the block table (_qdata) of their result / in-place target: a later operation that trusts
# a cached claim about that table (sorted flag) is only exercised when such a result is used again as an operand
PERMUTING_OPS = ('iswapaxes', 'itranspose', 'transpose', 'permute', 'combine_legs', 'split_legs', 'iproject', 'sort_legcharge',
                 'take_slice', 'getitem', 'as_completely_blocked', 'squeeze', 'add_leg', 'add_trivial_leg', 'extend',
                 'gauge_total_charge', 'concatenate', 'grid_concat', 'grid_outer', 'setitem', 'trace', 'charges.drop_charge',
                 'charges.change_charge', 'storage.ipurge_zeros', 'outer', 'tensordot')
# operations whose result keeps the block table of operand `a` (the provenance tag is inherited)
TABLE_KEEPING_OPS = ('conj', 'complex_conj', 'scale', 'scale_axis', 'storage', 'labels', 'norm')
# the binary operations that merge / pair the block tables of two operands
BINARY_OPS = ('add', 'inner', 'tensordot')
# invariant violations that only concern cached claims (flags); the C01 observables of such an object can be all right
FLAG_KINDS = frozenset(['qdata_sorted-false-claim', 'sorted-flag-false-claim', 'bunched-flag-false-claim', 'qdata-not-contiguous'])
FLAG_ECHO = frozenset(['own-sanity-raises', 'leg-test_sanity', 'test_sanity:qdata_sorted-false-claim', 'test_sanity:qdata-not-contiguous'])


class ProgramRunner:
    def __init__(self, prog, config):
        self.prog = prog
        self.config = config
        self.rng = random.Random(prog['seed'])
        self.env = Env(prog['mods'], prog['names'], prog.get('maxrank', 4))
        self.env.config = config
        self.env.rich = bool(prog.get('rich', False))
        #  sparse_values: the values assigned by `a[inds] = value` get a block sparsity independent of a[inds] (OpSetitem.sparsify), drawn from a
        #                 side generator, so that the sequence of operations is the one of the same program without the key
        self.env.sparse_values = random.Random(prog['seed'] ^ 0x2545f491) if prog.get('sparse_values') else None
        self.env.stat_hook = self.stat
        #  p_missing:     choices for the probability that an allowed block of an initial tensor is not stored (default: see OpInit.gen_from)
        #  op_weights:    see gen_step
        self.env.p_missing = prog.get('p_missing')
        #  strict_alias:  concatenate(copy=False) is not generated for operands that share their blocks (shallow copies of each other)
        self.env.strict_alias = bool(prog.get('strict_alias', False))
        #  ext:           (C01 coverage audit) the operations of harness/c01_ext.py and the wider option spaces marked `ext_p` / `env.ext` in this
        #                 file take part; continuation on results over another ChargeInfo; second accessors compared; coverage statistics `api:` / `opt:`
        self.ext = bool(prog.get('ext', False))
        if self.ext:
            import c01_ext          # registers its operations in OPS (attribute ext = True)
            self.x = c01_ext
            self.env.ext = True
            self.env.xr = random.Random(prog['seed'] ^ 0x1f123bb5)
            self.env.api_hook = self.api_stat
        npc = _npc()
        self.env.chinfo = npc.ChargeInfo(prog['mods'], prog['names'])
        self.env.pool = [leg_from_spec(sp, self.env.q) for sp in prog['pool']]
        self.ops = []
        self.fails = []
        self.coq = []
        self.coq2 = []
        self.stats = {}
        self.step = -1
        self.max_slots = 6
        self.evict_rng = random.Random(prog['seed'] ^ 0x5bd1e995)
        self.record_coq = prog.get('record_coq', 0)
        self.progress = None
        # optional program keys (absent = behaviour of the earlier versions, so recorded programs replay unchanged):
        #  keep_flagged: a tensor whose C01 observables are right but which carries a false cached claim (sorted flag ...) stays
        #                alive, so that later steps show whether an operation trusting the claim computes a wrong dense result
        #  p_chain:      probability that the result of a block-table-permuting operation is immediately used as an operand of a
        #                binary operation (add / sub / (i)binary_blockwise / inner / tensordot) with a freshly created partner
        self.keep_flagged = bool(prog.get('keep_flagged', False))
        self.p_chain = float(prog.get('p_chain', 0.0))
        self.chains_left = int(prog.get('max_chains', 3))
        self.pending = None
        self.result_slots = []

    # ---- bookkeeping
    def fail(self, prop, opname, cond, symptom, text):
        cond = cond or ''
        parts = [c for c in cond.split('+') if c]
        struct = [c for c in parts if c in ('empty-block', 'zero-block-leg')]
        raise_like = symptom.startswith(('raises-', 'observe-raises', 'leg-test_sanity', 'test_sanity:Assertion', 'leg-predicate'))
        if not raise_like:
            parts = [c for c in parts if c not in struct]
        if 'unlabeled-noncombined-leg' in parts:
            parts = ['unlabeled-noncombined-leg'] if symptom == 'labels-differ' else [c for c in parts if c != 'unlabeled-noncombined-leg']
            if symptom == 'labels-differ':
                opname = 'combine_legs'
        if 'labels-permuted' in parts and self.config != 'cy' and False:
            pass
        if opname in ('tensordot', 'inner') and struct and raise_like:
            opname, symptom = 'tensordot|inner', 'raises-or-crash'
        if 'labels-permuted' in parts and self.config == 'cy' and opname.startswith('add.'):
            opname = 'iadd_prefactor_other'
            parts = ['labels-permuted', 'cy']
            if symptom in ('dense-differs', 'raises-ValueError'):
                symptom = 'wrong-result-or-ValueError'
            elif symptom in ('duplicate-qdata-rows', 'qdata_sorted-false-claim'):
                symptom = 'merge-of-unsorted-qdata'
        if 'same-operand' in parts and self.config == 'cy' and symptom == 'dense-differs':
            opname, parts = 'iadd_prefactor_other', ['same-operand', 'complex-prefactor', 'cy']
        if [c for c in parts if c not in struct]:
            parts = [c for c in parts if c not in struct]       # an operation-specific condition takes precedence
        if opname in ('getitem', 'setitem') and 'negative-index-array' in parts and (raise_like or symptom in ('dense-differs', 'leg-differs', 'qtotal-differs')):
            opname, parts, symptom = 'getitem|setitem', ['negative-index-array'], 'wrong-order-or-raises'
        if opname == 'add_charge' and 'qtotal-detect' in parts and raise_like:
            parts, symptom = ['qtotal-detect'], 'raises'
        if opname == 'construct2.detect_legcharge' and 'rank-1' in parts and raise_like:
            parts, symptom = ['rank-1'], 'raises'
        if opname == 'sort_legcharge' and 'perm-entry' in parts and (raise_like or symptom in ('documented-property-of-result', 'dense-differs', 'leg-differs')):
            parts, symptom = ['perm-entry'], 'perm-not-applied'
        if opname == 'charges.change_charge' and symptom in ('qtotal-differs', 'raises-ValueError', 'qtotal-range'):
            parts, symptom = [], 'qtotal-not-reduced'
        key = '%s:%s:%s:%s' % (prop, opname, '+'.join(parts) or '-', symptom)
        self.fails.append({'prop': prop, 'key': key, 'what': text, 'step': self.step, 'config': self.config})

    def stat(self, k):
        self.stats[k] = self.stats.get(k, 0) + 1

    def api_stat(self, name, opts):
        self.stat('api:' + name)
        for k, v in opts.items():
            self.stat('opt:%s:%s=%s' % (name, k, self.x.value_class(v)))

    def evict(self, idx):
        # slots are referenced by index in recorded ops: keep indices stable by replacing with None-free compaction only at step end
        self.env.slots[idx] = None

    def compact(self):
        self.env.slots = [s for s in self.env.slots if s is not None]
        keep = [] if self.pending is None else [self.pending.get('x'), self.pending.get('partner')]
        while len(self.env.slots) > self.max_slots:
            i = self.evict_rng.randrange(len(self.env.slots))
            if any(self.env.slots[i] is k for k in keep):
                continue
            self.env.slots.pop(i)

    def struct_cond(self, o):
        """structural condition of the operands used in match keys: degenerate charge blocks"""
        idx = []
        for k in ('a', 'b'):
            if isinstance(o.get(k), int):
                idx.append(o[k])
        for k in ('arrays',):
            idx.extend(o.get(k) or [])
        if 'grid' in o:
            for row in o['grid']:
                idx.extend([g for g in (row if isinstance(row, list) else [row]) if g is not None])
        legs = []
        for i in idx:
            if 0 <= i < len(self.env.slots) and self.env.slots[i] is not None:
                legs.extend(self.env.slots[i].ref.legs)
        for sp in (o.get('legs') or []) + ([o['leg']] if 'leg' in o else []) + (o.get('grid_legs') or []):
            legs.append(leg_from_spec(sp, self.env.q))
        if any(l.nb == 0 for l in legs):
            return 'zero-block-leg'
        if any(0 in l.sizes() for l in legs):
            return 'empty-block'
        return None

    # ---- one step
    def gen_step(self):
        env, rng = self.env, self.rng
        n_init = self.prog.get('n_init', 2)
        if self.pending is not None:
            o = None
            try:
                o = self.gen_chain_step()
            finally:
                if o is None:
                    self.pending = None
            if o is not None:
                return o
        if len(self.ops) < n_init or not env.slots:
            like = None
            if env.slots and rng.random() < 0.5:
                like = rng.randrange(len(env.slots))
                if any(l.sub is not None for l in env.slots[like].ref.legs) and False:
                    like = None
            return OpInit.gen(rng, env, like=like)
        malformed = rng.random() < self.prog.get('p_malformed', 0.1)
        names = [n for n in OPS if OPS[n].weight > 0 and (self.ext or not getattr(OPS[n], 'ext', False))]
        weights = [OPS[n].weight for n in names]
        ow = self.prog.get('op_weights')
        if ow:      # focused programs: weights of the named operations replaced, all others scaled by ow['*']
            weights = [float(ow[n]) if n in ow else OPS[n].weight * float(ow.get('*', 1.0)) for n in names]
        for _ in range(40):
            name = rng.choices(names, weights)[0]
            o = OPS[name].gen(rng, env, malformed=malformed)
            if o is not None:
                return o
            if malformed and rng.random() < 0.2:
                malformed = False
        return {'op': 'storage', 'a': 0, 'kind': 'copy_deep'}

    def check_invariants(self, slot_idx, opname, cond, mods=None, obj=None, role=''):
        x = obj if obj is not None else self.env.slots[slot_idx].impl
        bad = check_array_invariants(x, mods if mods is not None else self.env.mods)
        seen = set()
        for kind, text in bad:
            if kind == 'own-sanity-raises' or kind in seen:
                continue
            seen.add(kind)
            if role == '+other-object':
                if 'operand-invariant-broken' not in seen:
                    self.fail('C02', opname, cond, 'operand-invariant-broken', 'after %s another live tensor is inconsistent: %s' % (opname, text))
                seen.add('operand-invariant-broken')
                continue
            self.fail('C02', opname, role.strip('+') if role else cond, kind, text)
        if bad:
            kinds = {k for k, _ in bad}
            if kinds <= {'qdata-not-contiguous', 'own-sanity-raises', 'test_sanity:qdata-not-contiguous'}:
                x._qdata = np.ascontiguousarray(x._qdata)    # harmless for the semantics; keep exploring this history
                return True
            if self.keep_flagged and (kinds & FLAG_KINDS) and kinds <= (FLAG_KINDS | FLAG_ECHO):
                self.stat('kept-with-false-flag')
                return True
            return False
        return True

    def do_step(self, o):
        env = self.env
        cls = OPS[o['op']]
        opname = o['op'] + ('.' + o['kind'] if 'kind' in o and (o['op'] in ('add', 'scale', 'storage', 'labels', 'charges', 'construct') or getattr(cls, 'ext', False)) else '')
        if o['op'] == 'transpose' and o.get('inplace'):
            opname = 'itranspose'
        if o['op'] == 'conj' and o.get('inplace'):
            opname = 'iconj'
        if o['op'] == 'scale_axis' and o.get('inplace'):
            opname = 'iscale_axis'
        if o['op'] == 'getitem' and o.get('take_slice'):
            opname = 'take_slice'
        cond = o.get('cond')
        sc = self.struct_cond(o)
        if sc:
            cond = (cond + '+' if cond else '') + sc
        self.stat('op:' + opname)
        if sc:
            self.stat('struct:' + sc)
        target = o.get('a') if not isinstance(o.get('a'), list) else None
        self.result_slots = []
        if o['op'] in BINARY_OPS and 'malformed' not in o:
            self.chain_stats(o, opname)
        coq_before = None
        if self.record_coq and 'malformed' not in o and ((o['op'] in COQ_OPS and len(self.coq) < self.record_coq) or
                                                         (coq2_wanted(o) and len(self.coq2) < self.record_coq)):
            try:
                opnds = [env.slots[o['a']].impl] + ([env.slots[o['b']].impl] if 'b' in o else [])
                if all(storage_small(x) for x in opnds):
                    coq_before = [capture_storage(x) for x in opnds]
            except Exception:
                coq_before = None
        impl_err, res, tb = None, None, ''
        import warnings
        try:
            with warnings.catch_warnings():
                warnings.simplefilter('ignore')
                res = cls.run(env, o)
        except Exception as e:
            impl_err = e
            tb = traceback.format_exc()[-600:]
        exp_err, exp = None, None
        needs_aux = o['op'] in ('sort_legcharge', 'as_completely_blocked') or getattr(cls, 'needs_aux', False)
        if impl_err is not None and needs_aux:
            if getattr(cls, 'ext', False):      # the documented outcome may be this very exception (the reference raises it before it reads `aux`)
                try:
                    cls.ref(env, o, None)
                except ExpectError as ee:
                    exp_err = ee
                except Exception:
                    pass
        else:
            try:
                exp = cls.ref(env, o, res.get('aux') if res else None)
            except ExpectError as ee:
                exp_err = ee
            except OracleFail as of:
                self.fail('C01', opname, cond, 'documented-property-of-result', str(of))
                return
        inplace_target = target if (exp is not None and 'inplace' in exp) else None
        if 'malformed' in o:
            self.stat('malformed')
        if exp_err is not None:
            self.stat('expected-error')
            if impl_err is None:
                self.fail('C01', opname, o.get('malformed', cond), 'malformed-input-accepted',
                          '%s: documented to raise %s, but returned a result' % (opname, '/'.join(exp_err.classes)))
                if res and 'inplace' in res and target is not None:
                    self.evict(target)
            elif type(impl_err).__name__ not in exp_err.classes and not isinstance(impl_err, (ValueError, IndexError, KeyError)):
                self.fail('C01', opname, o.get('malformed', cond), 'wrong-error-class:' + type(impl_err).__name__,
                          '%s raised %s: %s, documented %s' % (opname, type(impl_err).__name__, str(impl_err)[:100], '/'.join(exp_err.classes)))
            self.check_others(None, opname, cond, unchanged_all=True)
            return
        if impl_err is not None:
            self.fail('C01', opname, cond, 'raises-' + type(impl_err).__name__,
                      '%s on valid operands raises %s: %s' % (opname, type(impl_err).__name__, str(impl_err)[:160]))
            if exp is not None and 'inplace' in exp and target is not None:
                self.evict(target)
            elif target is not None and res is None and o['op'] in ('setitem', 'iproject', 'iswapaxes', 'add', 'scale', 'scale_axis', 'labels'):
                pass
            self.check_others(None, opname, cond, unchanged_all=False, skip=[target] if inplace_target is not None else [])
            return
        # ---- both succeeded: compare
        mods = exp.get('foreign_mods', env.mods)
        cond = exp.get('cond', cond)
        if 'scalar' in exp:
            got = res.get('scalar') if res else None
            if got is None or isinstance(got, _npc().Array):
                self.fail('C01', opname, cond, 'scalar-expected', '%s: expected a scalar, got %r' % (opname, type(got)))
            else:
                want = exp['scalar']
                if want is None:
                    want = complex(got)
                ok = abs(complex(got) - want) <= 1e-9 * max(1.0, abs(want)) if exp.get('approx') else complex(got) == want
                if not ok:
                    self.fail('C01', opname, cond, 'scalar-differs', '%s = %r, numpy gives %r' % (opname, complex(got), want))
            self.stat('scalar-result')
            self.check_others(None, opname, cond)
            return
        if 'inplace' in exp:
            s = env.slots[target]
            bad = compare(s.ref, s.impl, env.mods)
            for sym, text in bad:
                self.fail('C02' if sym == 'qtotal-differs' else 'C01', opname, cond, sym, opname + ': ' + text)
                if sym == 'qtotal-differs':
                    self.fail('C01', opname, cond, sym, opname + ': ' + text)
            ok = self.check_invariants(target, opname, cond)
            if self.ext and not bad:
                self.x.check_accessors(self, s.ref, s.impl, opname, cond, env.mods)
            if bad or not ok:
                self.evict(target)
            else:
                msg = adopt_structure(s.ref, s.impl, env.q)
                if msg:
                    self.evict(target)
                else:
                    self.tag_result(s, opname, o, s)
                    if np.any(s.ref.dense != 0):
                        self.stat('nontrivial')
            self.coq_record(o, coq_before, s.impl if not bad and ok else None)
            self.check_others(target, opname, cond, inplace_data=not exp.get('labels_only'))
            return
        news = res.get('new', []) if res else []
        if len(news) != len(exp['new']) or not all(isinstance(r, _npc().Array) for r in news):
            self.fail('C01', opname, cond, 'array-expected', '%s: expected an Array result' % opname)
            self.check_others(None, opname, cond)
            return
        appended = 0
        for r, T in zip(news, exp['new']):
            bad = compare(T, r, mods)
            for sym, text in bad:
                self.fail('C02' if sym == 'qtotal-differs' else 'C01', opname, cond, sym, opname + ': ' + text)
                if sym == 'qtotal-differs':
                    self.fail('C01', opname, cond, sym, opname + ': ' + text)
            if 'blocked_axes' in exp and not bad:
                for i in exp['blocked_axes']:
                    chs = [tuple(c) for c in np.asarray(r.legs[i].charges).tolist()]
                    if len(set(chs)) != len(chs):
                        self.fail('C01', opname, cond, 'not-blocked', 'sort_legcharge(sort, bunch): leg %d not blocked by charge: %s' % (i, chs))
            ok = self.check_invariants(None, opname, cond, mods=mods, obj=r)
            self.coq_record(o, coq_before, r if not bad and ok else None)
            if self.ext and not bad:
                self.x.check_accessors(self, T, r, opname, cond, mods)
            if self.ext and not bad and ok and 'foreign_mods' in exp and not getattr(self, 'in_follow', False):
                self.x.foreign_followup(self, o, r, T, mods, exp.get('foreign_names'), opname)
            if bad or not ok or 'foreign_mods' in exp:
                continue
            msg = adopt_structure(T, r, env.q)
            if msg:
                continue
            if any(s2 is not None and s2.impl is r for s2 in env.slots):
                continue            # the operation returned one of its operands itself (as_completely_blocked)
            group = env.new_group()
            if exp.get('alias'):
                src = exp.get('alias_of', [target])
                group = env.slots[src[0]].group
                for b in src[1:]:
                    g2 = env.slots[b].group
                    for s in env.slots:
                        if s is not None and s.group == g2:
                            s.group = group
            env.slots.append(Slot(r, T, group))
            self.tag_result(env.slots[-1], opname, o, env.slots[target] if isinstance(target, int) and 0 <= target < len(env.slots) - 1 else None)
            appended += 1
            if np.any(T.dense != 0):
                self.stat('nontrivial')
        self.check_others(None, opname, cond, newest=appended)

    # ---- provenance of block tables, directed chains
    def tag_result(self, slot, opname, o, src):
        if opname in PERMUTING_OPS or o['op'] in PERMUTING_OPS or (self.ext and (getattr(OPS[o['op']], 'chain', False) or o['op'] == 'construct' or
                                                                                opname in ('storage.pickle', 'storage.deepcopy', 'storage.astype', 'storage.copy_default'))):
            slot.perm = opname
        elif o['op'] in TABLE_KEEPING_OPS and opname != 'storage.isort_qdata':
            slot.perm = src.perm if src is not None else None
        else:
            slot.perm = None
        self.result_slots.append(slot)

    def chain_stats(self, o, opname):
        """statistics: how often is the result of a block-table-permuting operation an operand of a binary operation"""
        env = self.env
        a, b = o.get('a'), o.get('b')
        if not (isinstance(a, int) and isinstance(b, int)) or a == b:
            return
        sa, sb = env.slots[a], env.slots[b]
        if sa is None or sb is None:
            return
        tagged = [(s, t) for s, t in ((sa, sb), (sb, sa)) if s.perm is not None]
        if not tagged:
            return
        self.stat('chain:permute-then-binary')
        self.stat('chain-bin:' + opname)
        strong = False
        for s, t in tagged:
            self.stat('chain-perm:' + s.perm)
            try:
                qa, qb = np.asarray(s.impl._qdata), np.asarray(t.impl._qdata)
                if len(qa) >= 2 and not rows_sorted(qa) and not (qa.shape == qb.shape and np.array_equal(qa, qb)):
                    strong = True
            except Exception:
                pass
        if strong:
            # the permuted operand stores >= 2 blocks in an order that is not lexsorted and the other operand has another block table
            self.stat('chain:permute-then-binary:order-sensitive')

    def slot_index(self, slot):
        for i, s in enumerate(self.env.slots):
            if s is slot and s is not None:
                return i
        return None

    def gen_chain_step(self):
        env, rng, pd = self.env, self.rng, self.pending
        xi = self.slot_index(pd['x'])
        if xi is None:
            return None
        if pd['stage'] == 0:
            o = chain_partner(rng, env, xi, pd)
            if o is None:
                return None
            pd['stage'], pd['partner'] = 1, None
            return o
        pi = self.slot_index(pd.get('partner'))
        if pi is None:
            return None
        o = chain_binary(rng, env, xi, pi, pd)
        self.pending = None
        if o is not None:
            self.stat('chain-directed:' + pd['mode'])
        return o

    def after_step(self, o):
        """bookkeeping of directed chains (only while generating, never for recorded operation lists)"""
        pd = self.pending
        if pd is not None:
            if pd['stage'] == 1 and pd.get('partner') is None:
                if o.get('op') == 'init' and self.result_slots:
                    pd['partner'] = self.result_slots[0]
                else:
                    self.pending = None
            return
        if self.p_chain <= 0 or self.chains_left <= 0 or 'malformed' in o or not self.result_slots:
            return
        x = self.result_slots[0]
        if x.perm is None or self.slot_index(x) is None or x.ref.rank == 0:
            return
        if self.rng.random() >= self.p_chain * (0.35 if x.perm in ('tensordot', 'outer', 'grid_outer') else 1.0):
            return
        degenerate = any(0 in l.sizes() for l in x.ref.legs) or not small(x)
        mode = 'add' if degenerate else self.rng.choices(['add', 'inner', 'tensordot'], [0.4, 0.2, 0.4])[0]
        self.pending = {'stage': 0, 'x': x, 'mode': mode}
        self.chains_left -= 1

    def step_numbers(self, n, explicit):
        k = 0
        while k < n or (explicit is None and self.pending is not None and k < n + 8):
            yield k
            k += 1

    def check_others(self, target, opname, cond, unchanged_all=False, inplace_data=True, newest=0, skip=()):
        """every other live object: documented to be unchanged (dense of shallow-copy siblings of an in-place
        target is unspecified and re-read); all invariants must still hold"""
        env = self.env
        tgroup = env.slots[target].group if target is not None and env.slots[target] is not None else None
        last = len(env.slots) - newest
        for i, s in enumerate(env.slots[:last]):
            if s is None or i == target or i in skip:
                continue
            sibling = tgroup is not None and s.group == tgroup and inplace_data
            if sibling:
                try:
                    s.ref.dense = np.asarray(s.impl.to_ndarray()).astype(complex)
                except Exception:
                    pass
            bad = compare(s.ref, s.impl, env.mods)
            for sym, text in bad:
                self.fail('C03', opname, (cond or '') + ('+alias-sibling' if sibling else '+other-operand'), 'operand-changed:' + sym,
                          'after %s another live tensor changed: %s' % (opname, text))
            ok = self.check_invariants(i, opname, cond, role='+alias-sibling' if sibling else '+other-object')
            if bad or not ok:
                self.evict(i)

    def coq_record(self, o, before, result):
        if before is None or result is None:
            return
        try:
            if not storage_small(result):
                return
            rec = {'op': o['op'], 'args': {k: v for k, v in o.items() if k not in ('op',)}, 'operands': before,
                   'result': capture_storage(result)}
            env = self.env
            A = env.slots[o['a']].ref if env.slots[o['a']] is not None else None
            rec['mods'] = list(env.mods)
            (self.coq2 if o['op'] in COQ_OPS2 else self.coq).append(rec)
        except Exception:
            pass

    def run(self):
        explicit = self.prog.get('ops')
        n = len(explicit) if explicit is not None else self.prog['nsteps']
        for k in self.step_numbers(n, explicit):
            self.step = k
            try:
                o = explicit[k] if explicit is not None else self.gen_step()
            except Exception:
                self.fails.append({'prop': 'runner', 'key': 'runner:gen', 'what': traceback.format_exc()[-800:], 'step': k, 'config': self.config})
                break
            if o is None:
                continue
            self.ops.append(o)
            if self.progress is not None:
                self.progress(k, o, self.struct_cond(o))
            try:
                self.do_step(o)
            except Exception:
                self.fails.append({'prop': 'runner', 'key': 'runner:step:' + o['op'], 'what': traceback.format_exc()[-1200:], 'step': k, 'config': self.config})
                break
            if explicit is None:
                self.after_step(o)
            self.compact()
            if not self.env.slots and explicit is None and k >= self.prog.get('n_init', 2):
                pass
        return {'seed': self.prog['seed'], 'ops': self.ops, 'fails': self.fails, 'coq': self.coq, 'coq2': self.coq2, 'stats': self.stats,
                'nsteps': len(self.ops)}


def make_program(rng, tier='quick', record_coq=0, p_chain=0.0, keep_flagged=False, rich=False, sparse_values=False, op_weights=None, p_missing=None,
                 ext=False, leg_style=None, strict_alias=False):
    """program header (charge structure, leg pool, length); the steps are generated while running.
    p_chain / keep_flagged: see ProgramRunner.__init__ (not drawn from rng; absent from the header when off);
    rich: at least one charge, legs from gen_leg_rich, fewer missing blocks (tensors with several stored blocks);
    sparse_values / op_weights / p_missing: see ProgramRunner.__init__ (absent from the header when off)"""
    mods, names = gen_chinfo(rng)
    while rich and not mods:
        mods, names = gen_chinfo(rng)
    thorough = tier == 'thorough'
    maxrank = rng.choice([4, 4, 5, 6]) if thorough else 4
    gl = gen_leg_rich if rich else gen_leg
    pool = [gl(rng, mods, 3 if maxrank > 4 else 5) for _ in range(rng.choice([2, 3, 3, 4]))]
    if leg_style == 'single-block':     # every leg one charge block (tensors with at most one stored block; pipes with a single row)
        pool = [RLeg([0, max(1, l.n)], l.charges[:1] if l.nb else np.zeros((1, len(mods)), dtype=QT), l.qconj, len(mods)) for l in pool]
    if all(l.n == 0 for l in pool):
        pool.append(gen_leg(rng, mods, 4))
    n_init = rng.choice([1, 2, 2, 3])
    nsteps = n_init + (rng.randint(1, 12) if thorough else rng.randint(1, 6))
    prog = {'seed': rng.randrange(1 << 30), 'mods': mods, 'names': names, 'maxrank': maxrank, 'pool': [l.spec() for l in pool],
            'n_init': n_init, 'nsteps': nsteps, 'p_malformed': 0.1, 'record_coq': record_coq}
    if p_chain:
        prog['p_chain'] = p_chain
    if keep_flagged:
        prog['keep_flagged'] = True
    if rich:
        prog['rich'] = True
    if sparse_values:
        prog['sparse_values'] = True
    if op_weights:
        prog['op_weights'] = dict(op_weights)
    if p_missing:
        prog['p_missing'] = list(p_missing)
    if ext:
        prog['ext'] = True
    if strict_alias:
        prog['strict_alias'] = True
    return prog


# =========================================================================================
# part 5: leg-level programs (public methods of LegCharge / LegPipe)
# =========================================================================================

LEG_OPS = ['sort', 'sort_nobunch', 'bunch', 'project', 'extend', 'flip_charges_qconj', 'conj', 'outer_conj', 'to_LegCharge',
           'from_drop_charge', 'from_change_charge', 'copy', 'apply_charge_mapping']


def make_leg_program(rng):
    mods, names = gen_chinfo(rng)
    while not mods and rng.random() < 0.7:
        mods, names = gen_chinfo(rng)
    if rng.random() < 0.6:
        names = rng.sample(['N', 'Sz', 'P', 'K'], len(mods))
    legs = [gen_leg(rng, mods, 6).spec() for _ in range(rng.choice([1, 2, 2, 3]))]
    return {'seed': rng.randrange(1 << 30), 'mods': mods, 'names': names, 'legs': legs, 'pipe': rng.random() < 0.5,
            'pipe_args': [rng.choice([1, -1]), rng.random() < 0.8, rng.random() < 0.8], 'nsteps': rng.randint(1, 5)}


def run_leg_program(prog, config):
    npc = _npc()
    import warnings
    rng = random.Random(prog['seed'])
    mods, names = prog['mods'], prog['names']
    q = len(mods)
    chinfo = npc.ChargeInfo(mods, names)
    env = Env(mods, names, 4)
    env.chinfo = chinfo
    fails, ops, stats = [], [], {}

    def fail(prop, opname, cond, symptom, text, step):
        fails.append({'prop': prop, 'key': '%s:%s:%s:%s' % (prop, opname, cond or '-', symptom), 'what': text, 'step': step, 'config': config})

    def inv(leg, opname, cond, step):
        seen = set()
        for kind, text in check_leg_invariants(leg, mods, 'result'):
            k = kind
            if k not in seen:
                seen.add(k)
                fail('C02', opname, cond, k, '%s: %s' % (opname, text), step)
        return not seen

    def signed_qflat(l):
        return mv(mods, np.asarray(l.to_qflat()).reshape(l.ind_len, q) * l.qconj)

    base = [mk_leg(env, sp) for sp in prog['legs']]
    if prog['pipe']:
        qc, so, bu = prog['pipe_args']
        cur = npc.LegPipe(base, qconj=qc, sort=so, bunch=bu)
        ref = pipe_leg([leg_from_spec(sp, q) for sp in prog['legs']], qc, mods, so, bu)
        if not np.array_equal(np.asarray(cur.to_qflat()).reshape(cur.ind_len, q), ref.qflat()):
            fail('C01', 'LegPipe', None, 'leg-differs', 'LegPipe(%s, qconj=%s, sort=%s, bunch=%s): charges per index %s, documented fusion + order gives %s' % (
                prog['legs'], qc, so, bu, np.asarray(cur.to_qflat()).tolist(), ref.qflat().tolist()), -1)
        inv(cur, 'LegPipe', None, -1)
    else:
        cur = base[0]
    explicit = prog.get('ops')
    n = len(explicit) if explicit is not None else prog['nsteps']
    for step in range(n):
        if explicit is not None:
            o = explicit[step]
        else:
            name = rng.choice(LEG_OPS)
            o = {'op': name}
            if name == 'project':
                m = [rng.random() < 0.6 for _ in range(cur.ind_len)]
                if not m:
                    continue
                m[rng.randrange(len(m))] = True
                o['mask'] = m
            elif name == 'extend':
                o['extra'] = rng.randint(0, 2) if rng.random() < 0.5 else gen_leg(rng, mods, 3).spec()
            elif name == 'from_drop_charge':
                if q == 0:
                    continue
                k = rng.randrange(q)
                o['charge'] = None if rng.random() < 0.2 else (names[k] if names[k] and rng.random() < 0.6 else k)
            elif name == 'from_change_charge':
                if q == 0:
                    continue
                k = rng.randrange(q)
                m = mods[k]
                o['charge'] = k
                o['new_qmod'] = rng.choice([2, 3, 1] if m == 1 else [d for d in range(2, m + 1) if m % d == 0])
            elif name in ('outer_conj', 'to_LegCharge') and not isinstance(cur, npc.LegPipe):
                continue
        ops.append(o)
        name = o['op']
        opname = ('LegPipe.' if isinstance(cur, npc.LegPipe) and not name.startswith('from_') else 'LegCharge.') + name
        stats['op:' + opname] = stats.get('op:' + opname, 0) + 1
        old_qflat = np.asarray(cur.to_qflat()).reshape(cur.ind_len, q).copy()
        old_signed = signed_qflat(cur)
        old_qconj = cur.qconj
        cond = None
        try:
            with warnings.catch_warnings():
                warnings.simplefilter('ignore')
                if name == 'sort':
                    perm, new = cur.sort(bunch=True)
                elif name == 'sort_nobunch':
                    perm, new = cur.sort(bunch=False)
                elif name == 'bunch':
                    _, new = cur.bunch()
                elif name == 'project':
                    _, _, new = cur.project(np.array(o['mask'], dtype=bool))
                elif name == 'extend':
                    new = cur.extend(o['extra'] if isinstance(o['extra'], int) else mk_leg(env, o['extra']))
                elif name == 'from_drop_charge':
                    cond = 'named-charge' if isinstance(o['charge'], str) else None
                    new = npc.LegCharge.from_drop_charge(cur, o['charge'])
                elif name == 'from_change_charge':
                    new = npc.LegCharge.from_change_charge(cur, o['charge'], o['new_qmod'])
                elif name == 'apply_charge_mapping':
                    new = cur.apply_charge_mapping(lambda c: chinfo.make_valid(-c))
                else:
                    new = getattr(cur, name)()
        except Exception as e:
            fail('C01', opname, cond, 'raises-' + type(e).__name__, '%s on a valid leg raises %s: %s' % (opname, type(e).__name__, str(e)[:120]), step)
            continue
        # the receiver is documented to be unchanged (copies)
        if not np.array_equal(np.asarray(cur.to_qflat()).reshape(cur.ind_len, q), old_qflat) or cur.qconj != old_qconj:
            fail('C03', opname, cond, 'operand-changed', '%s changed the leg it was called on' % opname, step)
            rb = check_leg_invariants(cur, mods, 'receiver')
            if rb:
                fail('C02', opname, cond, 'receiver-invariant-broken', '%s left the leg it was called on inconsistent: %s' % (opname, rb[0][1]), step)
                break
        nm = mods
        ok = True
        if name in ('from_drop_charge', 'from_change_charge'):
            if name == 'from_drop_charge':
                keep = [] if o['charge'] is None else [j for j in range(q) if j != (names.index(o['charge']) if isinstance(o['charge'], str) else o['charge'])]
                nm = [mods[j] for j in keep]
                want = old_qflat[:, keep]
            else:
                nm = list(mods)
                nm[o['charge']] = o['new_qmod']
                want = mv(nm, old_qflat)
            got = np.asarray(new.to_qflat()).reshape(new.ind_len, len(nm))
            if new.ind_len != len(want) or not np.array_equal(got, want) or new.qconj != old_qconj:
                fail('C01', opname, cond, 'leg-differs', '%s: charges per index %s, documented %s' % (opname, got.tolist(), want.tolist()), step)
            for kind, text in check_leg_invariants(new, nm, 'result'):
                fail('C02', opname, cond, kind, '%s: %s' % (opname, text), step)
            continue                # other ChargeInfo: not continued
        got_signed = signed_qflat(new)
        got = np.asarray(new.to_qflat()).reshape(new.ind_len, q)
        if name in ('sort', 'sort_nobunch'):
            pf = cur.perm_flat_from_perm_qind(perm) if cur.ind_len else np.arange(0)
            if sorted(int(x) for x in perm) != list(range(cur.block_number)) or not np.array_equal(got, old_qflat[pf]):
                ok = False
            if not rows_sorted(np.asarray(new.charges)):
                fail('C01', opname, cond, 'not-sorted', '%s: result charges %s are not sorted' % (opname, np.asarray(new.charges).tolist()), step)
            if name == 'sort' and len({tuple(r) for r in np.asarray(new.charges).tolist()}) != new.block_number:
                fail('C01', opname, cond, 'not-blocked', '%s: result not blocked by charge' % opname, step)
        elif name == 'bunch':
            ok = np.array_equal(got, old_qflat) and rows_bunched(np.asarray(new.charges))
        elif name == 'project':
            ok = np.array_equal(got, old_qflat[np.array(o['mask'], dtype=bool)])
        elif name == 'extend':
            ex = o['extra']
            E = RLeg([0, ex], np.zeros((1, q), dtype=QT), old_qconj, q) if isinstance(ex, int) else leg_from_spec(ex, q)
            ok = np.array_equal(got_signed, np.concatenate([old_signed, mv(mods, E.qflat() * E.qconj)])) and new.qconj == old_qconj
        elif name == 'flip_charges_qconj':
            ok = np.array_equal(got_signed, old_signed) and new.qconj == -old_qconj
        elif name == 'conj':
            ok = np.array_equal(got, old_qflat) and new.qconj == -old_qconj
        elif name == 'outer_conj':
            # incoming legs are documented to stay as they are, so the fusion rule
            # charges * qconj == sum(incoming charges * qconj) must keep holding: signed charges unchanged
            if not np.array_equal(got_signed, old_signed):
                fail('C02', opname, 'qconj=%+d' % old_qconj, 'fusion-rule', 'outer_conj of a pipe with qconj=%+d: charges*qconj %s, incoming legs give %s' % (
                    old_qconj, got_signed.tolist(), old_signed.tolist()), step)
        elif name in ('to_LegCharge', 'copy'):
            ok = np.array_equal(got, old_qflat) and new.qconj == old_qconj
        elif name == 'apply_charge_mapping':
            ok = np.array_equal(got, mv(mods, -old_qflat)) and new.qconj == old_qconj
        if not ok:
            fail('C01', opname, cond, 'leg-differs', '%s: (qconj, charges per index) = (%d, %s) from (%d, %s)' % (
                opname, new.qconj, got.tolist(), old_qconj, old_qflat.tolist()), step)
        if not inv(new, opname, cond if name != 'outer_conj' else None, step):
            break
        cur = new
    return {'seed': prog['seed'], 'ops': ops, 'fails': fails, 'coq': [], 'stats': stats, 'nsteps': len(ops)}
