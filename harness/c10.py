"""C10 - all representations of a model Hamiltonian are the same operator.

proof gate (coq/Props/C10.v: weighted-automaton model of MPOGraph.from_terms, Model/Automaton.v)
+ correspondence: the implementation's own MPO graphs / grids are denoted by the verified `denote`
  function inside Coq (vm_compute) and compared with the normal form of the implementation's own
  term containers; the Coq model of from_terms must rebuild the implementation's graph edge for edge
+ oracle: dense matrices of every representation in one basis against an independent dense
  semantics of the add_* calls (harness/c10_oracle.py).
"""
import copy
import os

for _v in ('OMP_NUM_THREADS', 'OPENBLAS_NUM_THREADS', 'MKL_NUM_THREADS'):
    os.environ.setdefault(_v, '1')
import numpy as np  # noqa: E402

import common
import c10_oracle as O

TOL = 1e-10

# ------------------------------------------------------------------------------------------
# operator tables used by the generators (names documented for the predefined sites)
# ------------------------------------------------------------------------------------------
SITES = {
    'SpinHalf': {
        'dim': 2, 'conserve': [None, None, 'Sz', 'parity'],
        'hc': {'Sz': 'Sz', 'Sx': 'Sx', 'Sy': 'Sy', 'Sp': 'Sm', 'Sm': 'Sp', 'Sigmaz': 'Sigmaz', 'Sigmax': 'Sigmax'},
        'onsite0': ['Sz', 'Sigmaz'], 'onsite1': ['Sx', 'Sp', 'Sy', 'Sigmax'],
        'pairs0': [('Sz', 'Sz'), ('Sp', 'Sm'), ('Sm', 'Sp'), ('Sigmaz', 'Sz')],
        'pairs1': [('Sx', 'Sx'), ('Sp', 'Sz'), ('Sy', 'Sx'), ('Sx', 'Sz'), ('Sp', 'Sp')],
        'multi0': [('Sz', 'Sp', 'Sm'), ('Sp', 'Sz', 'Sm'), ('Sp', 'Sm', 'Sp', 'Sm'), ('Sz', 'Sz', 'Sz')],
        'multi1': [('Sx', 'Sy', 'Sz'), ('Sp', 'Sp', 'Sz')],
        'bos': ['Sz', 'Sp', 'Sm', 'Sx'], 'fer': []},
    'Spin1': {
        'dim': 3, 'conserve': [None, 'Sz'],
        'hc': {'Sz': 'Sz', 'Sx': 'Sx', 'Sy': 'Sy', 'Sp': 'Sm', 'Sm': 'Sp'},
        'onsite0': ['Sz'], 'onsite1': ['Sx', 'Sp'],
        'pairs0': [('Sz', 'Sz'), ('Sp', 'Sm'), ('Sm', 'Sp')], 'pairs1': [('Sx', 'Sx'), ('Sp', 'Sz')],
        'multi0': [('Sz', 'Sp', 'Sm')], 'multi1': [('Sx', 'Sz', 'Sx')],
        'bos': ['Sz', 'Sp', 'Sm'], 'fer': []},
    'Boson': {
        'dim': 3, 'conserve': [None, 'N', 'parity'],
        'hc': {'N': 'N', 'NN': 'NN', 'B': 'Bd', 'Bd': 'B', 'dN': 'dN'},
        'onsite0': ['N', 'NN'], 'onsite1': ['B', 'Bd'],
        'pairs0': [('Bd', 'B'), ('B', 'Bd'), ('N', 'N')], 'pairs1': [('B', 'B'), ('Bd', 'N')],
        'multi0': [('Bd', 'N', 'B'), ('Bd', 'B', 'N')], 'multi1': [('B', 'B', 'N')],
        'bos': ['N', 'B', 'Bd'], 'fer': []},
    'Fermion': {
        'dim': 2, 'conserve': [None, 'N', 'parity'],
        'hc': {'N': 'N', 'C': 'Cd', 'Cd': 'C', 'dN': 'dN'},
        'onsite0': ['N'], 'onsite1': [],
        'pairs0': [('Cd', 'C'), ('C', 'Cd'), ('N', 'N')], 'pairs1': [('C', 'C'), ('Cd', 'Cd')],
        'multi0': [('Cd', 'N', 'C'), ('Cd', 'C', 'N'), ('Cd', 'Cd', 'C', 'C'), ('N', 'Cd', 'C'), ('Cd', 'C', 'Cd', 'C')],
        'multi1': [('C', 'N', 'C')],
        'bos': ['N'], 'fer': ['C', 'Cd']},
    'SpinHalfFermion': {
        'dim': 4, 'conserve': [None, 'N', 'parity'],
        'hc': {'Nu': 'Nu', 'Nd': 'Nd', 'NuNd': 'NuNd', 'Ntot': 'Ntot', 'Cu': 'Cdu', 'Cdu': 'Cu', 'Cd': 'Cdd', 'Cdd': 'Cd',
               'Sz': 'Sz', 'Sp': 'Sm', 'Sm': 'Sp'},
        'onsite0': ['Nu', 'NuNd', 'Ntot'], 'onsite1': [],
        'pairs0': [('Cdu', 'Cu'), ('Cdd', 'Cd'), ('Cu', 'Cdu'), ('Ntot', 'Ntot'), ('Nu', 'Nd')],
        'pairs1': [('Cdu', 'Cd'), ('Cu', 'Cd')],
        'multi0': [('Cdu', 'Ntot', 'Cu'), ('Cdu', 'Cdd', 'Cd', 'Cu')], 'multi1': [],
        'bos': ['Ntot', 'Nu'], 'fer': ['Cu', 'Cdu', 'Cd', 'Cdd']},
}
# charge-neutral bosonic operators usable as explicit operator strings (op_string=...)
STRINGS = {'SpinHalf': ['Sigmaz', 'Sz'], 'Spin1': ['Sz'], 'Boson': ['N'], 'Fermion': ['N'], 'SpinHalfFermion': ['Ntot', 'Nu']}
LATTICES = {'Chain': (1, 1), 'Ladder': (1, 2), 'Square': (2, 1), 'Triangular': (2, 1), 'Honeycomb': (2, 2)}  # dim, n_u


def enc(v, dtype=None):
    a = np.array(v)
    if dtype is None:
        dtype = 'complex' if np.iscomplexobj(a) else ('int' if a.dtype.kind in 'iu' else 'float')
    return {'re': np.real(a).tolist(), 'im': np.imag(a).tolist(), 'dtype': dtype}


def rand_strength(rng, shape, exact, even=False, allow_array=True):
    """scalar or array strength; exact -> (Gaussian) integers"""
    kind = rng.choice(['int', 'int', 'float', 'complex']) if not exact else rng.choice(['int', 'int', 'gauss'])
    use_arr = allow_array and shape and all(s >= 1 for s in shape) and rng.random() < 0.45
    shp = tuple(shape) if use_arr else ()
    if use_arr and rng.random() < 0.3:
        # a smaller tile along one direction (documented: tiled periodically)
        shp = list(shp)
        a = rng.randrange(len(shp))
        for d in (2, 3):
            if shp[a] % d == 0 and shp[a] > d and rng.random() < 0.7:
                shp[a] = shp[a] // d
                break
        shp = tuple(shp)
    n = int(np.prod(shp)) if shp else 1
    mul = 2 if even else 1

    def nz_int():
        return rng.choice([-3, -2, -1, 1, 2, 3, 4]) * mul
    if kind == 'int':
        vals = [nz_int() if rng.random() < 0.85 else 0 for _ in range(n)]
        if all(v == 0 for v in vals):
            vals[0] = 2 * mul
        arr = np.array(vals, dtype=np.int64).reshape(shp)
        # integers are sometimes passed as python floats with integral value
        return enc(arr, 'int' if rng.random() < 0.5 else 'float')
    if kind == 'gauss':
        vals = [complex(nz_int(), rng.choice([-2, -1, 0, 1, 2]) * mul) for _ in range(n)]
        return enc(np.array(vals).reshape(shp), 'complex')
    if kind == 'float':
        return enc(np.array([rng.uniform(-2, 2) for _ in range(n)]).reshape(shp), 'float')
    return enc(np.array([complex(rng.uniform(-2, 2), rng.uniform(-2, 2)) for _ in range(n)]).reshape(shp), 'complex')


def gen_lattice(rng):
    kind = rng.choices(['Chain', 'Ladder', 'Square', 'Triangular', 'Honeycomb'], [50, 18, 12, 8, 12])[0]
    dim, nu = LATTICES[kind]
    infinite = rng.random() < 0.35
    if kind == 'Chain':
        Ls = [rng.choice([1, 2, 3]) if infinite else rng.choice([2, 3, 4, 5, 6])]
    elif kind == 'Ladder':
        Ls = [1 if infinite else rng.choice([2, 3])]
    elif kind in ('Square', 'Triangular'):
        Ls = rng.choice([[1, 2], [1, 3]]) if infinite else rng.choice([[2, 2], [2, 3], [3, 2]])
    else:
        Ls = [1, 1] if infinite else rng.choice([[1, 2], [2, 1], [1, 3]])
    bc = []
    for a in range(dim):
        if a == 0:
            bc.append('periodic' if infinite or rng.random() < 0.2 else 'open')
        else:
            bc.append('periodic' if rng.random() < 0.35 else 'open')
    spec = {'kind': kind, 'Ls': Ls, 'bc': bc if dim > 1 else bc[0], 'bc_MPS': 'infinite' if infinite else 'finite'}
    if dim == 2 and rng.random() < 0.3:
        spec['order'] = rng.choice(['snake', 'Cstyle', 'Fstyle'])
    nsites = int(np.prod(Ls)) * nu
    nwin = 1
    if infinite:
        nwin = 2 if nsites >= 3 else rng.choice([2, 3])
    return spec, dim, nu, nsites, nwin


def gen_sites(rng, nu, nsites_window):
    t = rng.choices(['SpinHalf', 'Spin1', 'Boson', 'Fermion', 'SpinHalfFermion'], [35, 8, 10, 32, 15])[0]
    mixed = nu > 1 and rng.random() < 0.35
    types = [t] * nu
    if mixed:
        types = [rng.choice(['SpinHalf', 'Fermion', 'Boson', 'SpinHalf']) for _ in range(nu)]
    # keep the dense dimension small
    while int(np.prod([SITES[x]['dim'] for x in types])) ** (nsites_window // nu) > 300:
        big = max(range(nu), key=lambda i: SITES[types[i]]['dim'])
        if SITES[types[big]]['dim'] == 2:
            return None
        types[big] = rng.choice(['SpinHalf', 'Fermion'])
    if len(set(types)) > 1:
        cons = None
    else:
        cons = rng.choice(SITES[types[0]]['conserve'])
    sites = []
    for x in types:
        s = {'type': x, 'conserve': cons}
        if cons is not None and x in ('SpinHalf', 'Spin1') and rng.random() < 0.3:
            s['sort_charge'] = rng.random() < 0.5
        sites.append(s)
    return sites


def level(site):
    """0: only charge-neutral operators may be used, 1: anything"""
    return 1 if site['conserve'] is None else 0


def gen_dx(rng, dim, Ls, bc_open, infinite, maxr=None):
    dx = []
    for a in range(dim):
        if a == 0 and infinite:
            dx.append(rng.choice([0, 1, 1, 2, 3, -1, -2]))
        elif bc_open[a]:
            dx.append(rng.choice([d for d in range(-(Ls[a] - 1), Ls[a])]))
        else:
            hi = Ls[a] + 1 if rng.random() < 0.15 else Ls[a] - 1       # (periodic: shifts by a whole circumference and more)
            dx.append(rng.choice([d for d in range(-hi, hi + 1)]) if Ls[a] > 1 else 0)
    return dx


def pick_string(rng, sites, us, fermionic):
    """an explicit op_string for operators on the unit-cell sites `us`: None (automatic), the name the automatic choice would
    give ('JW' for two fermionic operators, 'Id' for bosonic ones), or a non-trivial bosonic string defined on all sites"""
    r = rng.random()
    if r < 0.55:
        return None
    if fermionic:
        return 'JW'
    if r < 0.7:
        return 'Id'
    types = set(s_['type'] for s_ in sites)
    if len(types) > 1:
        return 'Id'
    return rng.choice(STRINGS[next(iter(types))])


def finish_call(rng, c, exact, explicit):
    """options every add_* call has: category (default / a name shared with other calls), plus_hc left at its default"""
    r = rng.random()
    if r < 0.25 and not c['fn'].startswith('add_exponentially'):
        c['category'] = rng.choice(['cat0', 'cat0', 'cat1'])
    if not c.get('plus_hc') and rng.random() < 0.5:
        c.pop('plus_hc', None)
    return c


def gen_calls(rng, lat, dim, nu, sites, exact, explicit):
    Ls = lat['Ls']
    bcs = lat['bc'] if isinstance(lat['bc'], list) else [lat['bc']]
    infinite = lat['bc_MPS'] == 'infinite'
    bc_open = [b == 'open' for b in bcs]
    L = int(np.prod(Ls)) * nu
    calls = []
    ncalls = rng.choice([1, 2, 2, 3, 4])
    for _ in range(ncalls):
        # strengths are halved by explicit_plus_hc for calls without plus_hc: keep them even so that they stay integers
        plus_hc = rng.random() < (0.8 if explicit else 0.45)
        even = exact and explicit and not plus_hc
        kind = rng.choices(['onsite', 'coupling', 'multi', 'exp', 'local', 'term'], [18, 40, 14, 10, 8, 10])[0]
        if kind == 'onsite':
            u = rng.randrange(nu)
            T = SITES[sites[u]['type']]
            ops = T['onsite0'] + (T['onsite1'] if level(sites[u]) else [])
            calls.append({'fn': 'add_onsite', 'strength': rand_strength(rng, Ls, exact, even), 'u': u, 'op': rng.choice(ops),
                          'plus_hc': plus_hc})
            if rng.random() < 0.08:
                # strength exactly zero (scalar or array): documented no-op, "can even accept non-defined opname"
                calls[-1]['strength'] = enc(np.zeros(Ls if rng.random() < 0.5 else ()), rng.choice(['int', 'float', 'complex']))
                calls[-1]['op'] = rng.choice([calls[-1]['op'], 'NoSuchOp'])
                calls[-1]['plus_hc'] = False
        elif kind == 'coupling':
            u1, u2 = rng.randrange(nu), rng.randrange(nu)
            dx = gen_dx(rng, dim, Ls, bc_open, infinite)
            wraps = [(not bc_open[a]) and not (a == 0 and infinite) for a in range(dim)]
            if all((d % Ls[a] == 0) if wraps[a] else d == 0 for a, d in enumerate(dx)) and u1 == u2:
                continue          # (an on-site "coupling": refused by add_coupling)
            pr = pick_pair(rng, sites, u1, u2)
            if pr is None:
                continue
            shape = []
            for a in range(dim):
                shape.append(Ls[a] - abs(dx[a]) if (bc_open[a] and not (a == 0 and infinite)) else Ls[a])
            if any(s <= 0 for s in shape):
                continue
            big = any(wraps[a] and abs(dx[a]) >= Ls[a] for a in range(dim))
            # (site-dependent strengths: the documented shift refers to the first coupling fitting into the lattice with open
            # boundaries; none fits when |dx| >= L, so only uniform strengths there)
            c = {'fn': 'add_coupling', 'strength': rand_strength(rng, shape, exact, even, allow_array=not big), 'u1': u1, 'op1': pr[0],
                 'u2': u2, 'op2': pr[1], 'dx': dx, 'plus_hc': plus_hc}
            fer = pr[0] in SITES[sites[u1]['type']]['fer']
            ostr = pick_string(rng, sites, [u1, u2], fer)
            if ostr is not None:
                c['op_string'] = ostr
            if rng.random() < 0.15:
                c['strength_as_list'] = True     # (array_like strength: a nested list)
            if dim == 1 and rng.random() < 0.3:
                c['dx'] = dx[0]                  # (documented: for a 1D lattice a single int is fine)
            elif (not exact) and rng.random() < 0.5 and any(wraps) and all(abs(d) < Ls[a] for a, d in enumerate(dx) if wraps[a]):
                # external flux through the periodic directions (coupling_strength_add_ext_flux); zero phase along open ones
                c['flux'] = [round(rng.uniform(-3, 3), 3) if wraps[a] and rng.random() < 0.8 else 0. for a in range(dim)]
            calls.append(c)
        elif kind == 'multi':
            us = [rng.randrange(nu) for _ in range(4)]
            if len(set(sites[u]['type'] for u in range(nu))) > 1:
                us = [us[0]] * 4           # same species for all operators
            T = SITES[sites[us[0]]['type']]
            cand = T['multi0'] + (T['multi1'] if level(sites[us[0]]) else [])
            if not cand:
                continue
            names = rng.choice(cand)
            if sites[us[0]]['type'] != sites[us[1]]['type']:
                continue
            ops = []
            for n, nm in enumerate(names):
                dx = [0] * dim if n == 0 else gen_dx(rng, dim, Ls, bc_open, infinite)
                ops.append([nm, dx, us[n] if sites[us[n]]['type'] == sites[us[0]]['type'] else us[0]])
            def wrapped(dx_):
                return [d % Ls[a] if ((not bc_open[a]) and not (a == 0 and infinite)) else d for a, d in enumerate(dx_)]
            if all(wrapped(o[1]) == wrapped(ops[0][1]) and o[2] == ops[0][2] for o in ops):
                continue          # (all operators on one site: refused, "coupling shouldn't be purely onsite")
            fits = True
            for a in range(dim):
                span = max(o[1][a] for o in ops) - min(o[1][a] for o in ops)
                if bc_open[a] and not (a == 0 and infinite) and span > Ls[a] - 1:
                    fits = False
            if not fits:
                continue
            c = {'fn': 'add_multi_coupling', 'strength': rand_strength(rng, None, exact, even, allow_array=False),
                 'ops': ops, 'plus_hc': plus_hc, 'switchLR': rng.choice([None, 'middle_i', 'middle_op'])}
            if not any(nm in T['fer'] for nm in names):
                ostr = pick_string(rng, sites, us, False)
                if ostr is not None:
                    c['op_string'] = ostr
            calls.append(c)
        elif kind == 'exp':
            if L < 2 and not infinite:
                continue
            u = rng.randrange(nu)
            if len(set(s['type'] for s in sites)) > 1:
                continue
            pr = pick_pair(rng, sites, u, u)
            if pr is None:
                continue
            if exact:
                lam = rng.choice([1, 2, -1, 3, 2])
                lam_enc = enc(np.array(lam), 'int' if rng.random() < 0.5 else 'float')
                if rng.random() < 0.25:
                    lam_enc = enc(np.array([rng.choice([1, 2, -1, 3]) for _ in range(L)]), 'float')
                if rng.random() < 0.15:
                    lam_enc = enc(np.array(complex(rng.choice([1, 2]), rng.choice([1, -1]))), 'complex')
            else:
                def rl():
                    if cplx:
                        return rng.uniform(0.2, 0.9) * np.exp(1j * rng.uniform(-3.1, 3.1))
                    return rng.uniform(-0.9, 0.9)
                cplx = rng.random() < 0.35        # (complex decay rates: conjugated by plus_hc)
                lam_enc = enc(np.array(rl()), 'complex' if cplx else 'float')
                if rng.random() < 0.3:
                    lam_enc = enc(np.array([rl() for _ in range(L)]), 'complex' if cplx else 'float')
            c = {'fn': 'add_exponentially_decaying_coupling', 'strength': rand_strength(rng, None, exact, even, allow_array=False),
                 'lambda': lam_enc, 'op_i': pr[0], 'op_j': pr[1], 'plus_hc': plus_hc}
            ostr = pick_string(rng, sites, [u], pr[0] in SITES[sites[u]['type']]['fer'])
            if ostr is not None:
                c['op_string'] = ostr
            if rng.random() < 0.4 and L >= 2:
                sub = sorted(rng.sample(range(L), rng.randint(1, L)))
                c['subsites'] = sub
                if rng.random() < 0.5:
                    c['subsites_start'] = sorted(rng.sample(range(L), rng.randint(1, L)))
            if infinite and exact:
                continue      # integer decay rates do not decay: handled only on finite systems
            if not infinite and rng.random() < 0.25 and not SITES[sites[u]['type']]['fer']:
                sub = c.get('subsites') or list(range(L))
                if pr[0] in SITES[sites[u]['type']]['fer']:
                    continue
                # the central site: first / last / inner subsite, also counted from the end (documented: -L <= i < L)
                ic = rng.choice([sub[0], sub[-1], rng.choice(sub)])
                if rng.random() < 0.3:
                    ic -= L
                c = {'fn': 'add_exponentially_decaying_centered_terms', 'strength': c['strength'], 'lambda': c['lambda'],
                     'op_i': pr[0], 'op_j': pr[1], 'i': ic, 'subsites': c.get('subsites'), 'plus_hc': plus_hc}
                if ostr is not None:
                    c['op_string'] = ostr
            calls.append(c)
        elif kind == 'local':
            # add_local_term: operators at explicit lattice positions, any order, possibly two on one site
            u = rng.randrange(nu)
            T = SITES[sites[u]['type']]
            if len(set(s['type'] for s in sites)) > 1:
                continue
            cand = T['pairs0'] + (T['pairs1'] if level(sites[u]) else []) + T['multi0']
            names = rng.choice(cand)
            term = []
            for nm in names:
                pos = [rng.randrange(Ls[a]) + (rng.choice([0, 0, Ls[0]]) if (a == 0 and infinite) else 0) for a in range(dim)]
                term.append([nm, pos + [rng.randrange(nu) if len(set(s['type'] for s in sites)) == 1 else u]])
            if infinite:
                # the left-most operator lies in the first unit cell
                mn = min(t[1][0] // Ls[0] for t in term)
                # (a term of >= 3 sites may lie in any unit cell of the infinite system: it is translated into the first one)
                mv = rng.choice([-1, 1, 2]) if (len(set(tuple(t[1]) for t in term)) >= 3 and rng.random() < 0.3) else 0
                for t in term:
                    t[1][0] -= (mn - mv) * Ls[0]
            calls.append({'fn': 'add_local_term', 'strength': rand_strength(rng, None, exact, even, allow_array=False),
                          'term': term, 'plus_hc': plus_hc})
            if infinite and mv:
                calls[-1]['unnormalised'] = True
        else:
            # MPS-index level functions (plain tensor products, explicit operator string)
            i = rng.randrange(L)
            if len(set(s['type'] for s in sites)) > 1:
                continue
            T = SITES[sites[0]['type']]
            which = rng.choice(['onsite_term', 'coupling_term', 'multi_term'])
            if which == 'onsite_term':
                ops = T['onsite0'] + (T['onsite1'] if level(sites[0]) else [])
                calls.append({'fn': 'add_onsite_term', 'strength': rand_strength(rng, None, exact, even, allow_array=False),
                              'i': i, 'op': rng.choice(ops), 'plus_hc': plus_hc})
            elif which == 'coupling_term':
                j = i + rng.randint(1, 3)
                if not infinite and j >= L:
                    continue
                pr = rng.choice(T['pairs0'])
                # (plain tensor product op_i (x) op_string ... (x) op_j, "does not handle Jordan-Wigner strings": any string)
                c = {'fn': 'add_coupling_term', 'strength': rand_strength(rng, None, exact, even, allow_array=False),
                     'i': i, 'j': j, 'op_i': pr[0], 'op_j': pr[1], 'plus_hc': plus_hc}
                if pr[0] in T['fer']:
                    c['op_string'] = 'JW'
                elif rng.random() < 0.7:
                    c['op_string'] = rng.choice(['Id', 'Id'] + STRINGS[sites[0]['type']])
                calls.append(c)
            else:
                cand = [m for m in T['multi0'] if not any(x in T['fer'] for x in m)]
                if not cand:
                    continue
                names = rng.choice(cand)
                ijkl = [i]
                for _n in names[1:]:
                    ijkl.append(ijkl[-1] + rng.randint(1, 2))
                if not infinite and ijkl[-1] >= L:
                    continue
                strs = ['Id'] * (len(names) - 1)
                if rng.random() < 0.4:
                    strs = [rng.choice(['Id'] + STRINGS[sites[0]['type']]) for _ in strs]
                sw = rng.choice(['middle_i', 'middle_op', None, 'int'])
                if sw == 'int':
                    sw = rng.randint(ijkl[0], ijkl[-1])          # (documented: any site ijkl[0] <= switchLR <= ijkl[-1])
                calls.append({'fn': 'add_multi_coupling_term', 'strength': rand_strength(rng, None, exact, even, allow_array=False),
                              'ijkl': ijkl, 'ops': list(names), 'op_string': strs, 'plus_hc': plus_hc, 'switchLR': sw})
    return [finish_call(rng, c, exact, explicit) for c in calls]


def pick_pair(rng, sites, u1, u2):
    T1, T2 = SITES[sites[u1]['type']], SITES[sites[u2]['type']]
    if sites[u1]['type'] == sites[u2]['type']:
        cand = T1['pairs0'] + (T1['pairs1'] if level(sites[u1]) else [])
        return rng.choice(cand)
    # different species (no charges): two bosonic operators, or fermionic with fermionic
    cand = [(a, b) for a in T1['bos'] for b in T2['bos']]
    cand += [(a, b) for a in T1['fer'] for b in T2['fer']]
    return rng.choice(cand) if cand else None


def manual_hc_variant(spec):
    """replace plus_hc=True of add_onsite / add_coupling / add_multi_coupling by explicitly added h.c. calls"""
    out = copy.deepcopy(spec)
    calls = []
    changed = False
    for c in out['calls']:
        if not c.get('plus_hc') or c['fn'] not in ('add_onsite', 'add_coupling', 'add_multi_coupling') or c.get('flux') is not None:
            calls.append(c)
            continue
        changed = True
        c = dict(c)
        c['plus_hc'] = False
        calls.append(c)
        h = copy.deepcopy(c)
        st = h['strength']
        h['strength'] = {'re': st['re'], 'im': (-np.array(st['im'])).tolist(), 'dtype': st['dtype']}
        if c['fn'] == 'add_onsite':
            h['op'] = SITES[out['sites'][c['u']]['type']]['hc'][c['op']]
        elif c['fn'] == 'add_coupling':
            h['u1'], h['u2'] = c['u2'], c['u1']
            h['op1'] = SITES[out['sites'][c['u2']]['type']]['hc'][c['op2']]
            h['op2'] = SITES[out['sites'][c['u1']]['type']]['hc'][c['op1']]
            h['dx'] = [-d for d in c['dx']] if isinstance(c['dx'], list) else -c['dx']
        else:
            h['ops'] = [[SITES[out['sites'][u]['type']]['hc'][o], dx, u] for o, dx, u in reversed(c['ops'])]
            # the base cell of a multi coupling is the position of the first operator with dx = 0: keep dx relative
            # to the same base cell (allowed: "dx" are relative to a common origin)
        calls.append(h)
    out['calls'] = calls
    return out if changed else None


def gen_family(rng, fid):
    """one random model specification and its representation-changing variants"""
    for _try in range(50):
        lat, dim, nu, nsites, nwin = gen_lattice(rng)
        if nsites * nwin > 7:
            continue
        sites = gen_sites(rng, nu, nsites * nwin)
        if sites is None:
            continue
        exact = rng.random() < 0.6
        explicit = rng.random() < 0.25
        calls = gen_calls(rng, lat, dim, nu, sites, exact, explicit)
        if not calls:
            continue
        spec = {'lattice': lat, 'sites': sites, 'explicit_plus_hc': explicit, 'calls': calls, 'psi_seed': rng.randrange(10 ** 6)}
        if any(c['fn'] == 'add_local_term' for c in calls) and rng.random() < 0.6:
            # shift of TermList.from_lattice_locations: whole unit cells along an infinite direction, else the explicit zero vector
            spec['tl_shift'] = [rng.choice([-1, 1, 2]) if lat['bc_MPS'] == 'infinite' else 0] + [0] * dim
        N = nsites * nwin
        ring = nsites // lat['Ls'][0]          # MPO.extract_segment wants whole rings
        if lat['bc_MPS'] == 'finite' and nsites >= 2 * ring and rng.random() < 0.6:
            nr = rng.randrange(1, nsites // ring)
            a = rng.randrange(0, nsites - nr * ring + 1)
            spec['segment'] = [a, a + nr * ring - 1]
        elif lat['bc_MPS'] == 'infinite' and rng.random() < 0.6 and ring <= 5:
            a = rng.randrange(nsites)
            nr = rng.randrange(1, max(2, 5 // ring + 1))
            spec['segment'] = [a, a + nr * ring - 1]
        fam = [{'kind': 'spec', 'spec': spec, 'nwin': nwin, 'family': fid, 'variant': 'base', 'exact': exact}]
        v = copy.deepcopy(spec)
        v['explicit_plus_hc'] = not explicit
        fam.append({'kind': 'spec', 'spec': v, 'nwin': nwin, 'family': fid, 'variant': 'explicit_plus_hc-toggled', 'exact': exact})
        mh = manual_hc_variant(spec)
        if mh is not None and rng.random() < 0.7:
            fam.append({'kind': 'spec', 'spec': mh, 'nwin': nwin, 'family': fid, 'variant': 'manual-hc', 'exact': exact})
        if rng.random() < 0.3:
            v = copy.deepcopy(spec)
            v['sort_mpo_legs'] = True
            fam.append({'kind': 'spec', 'spec': v, 'nwin': nwin, 'family': fid, 'variant': 'sort_mpo_legs', 'exact': exact})
        if rng.random() < 0.5:
            v = copy.deepcopy(spec)
            v['via'] = gen_via(rng, v)
            if rng.random() < 0.25:
                v['sort_mpo_legs'] = True
            fam.append({'kind': 'spec', 'spec': v, 'nwin': nwin, 'family': fid, 'variant': 'via-CouplingMPOModel', 'exact': exact})
        return fam
    return []


def gen_via(rng, spec):
    """options of the documented construction route: class Generic(CouplingMPOModel[, NearestNeighborModel]) with init_sites /
    init_terms and the lattice described by model parameters"""
    ncalls = len(spec['calls'])
    return {'lattice_as': rng.choice(['name', 'name', 'class', 'instance']),
            'open_word': rng.choice(['ladder', 'open']), 'periodic_word': rng.choice(['cylinder', 'periodic']),
            'bc_x_default': rng.random() < 0.5, 'explicit_plus_hc_default': rng.random() < 0.5,
            'nn': rng.random() < 0.85,
            # the last `late` calls are made after the initialisation, followed by init_H_from_terms()
            'late': rng.randint(1, ncalls - 1) if (ncalls >= 2 and rng.random() < 0.5) else 0,
            'manual_flag': rng.random() < 0.5}


# ------------------------------------------------------------------------------------------
# option strata: every documented option / boundary value of the add_* calls must occur in some generated model
# ------------------------------------------------------------------------------------------

def _span(c):
    if c['fn'] == 'add_multi_coupling':
        return max(o[1][0] for o in c['ops']) - min(o[1][0] for o in c['ops'])
    return 0


def _calls(spec, fn):
    return [c for c in spec['calls'] if c['fn'] == fn]


def _nsites(spec):
    return int(np.prod(spec['lattice']['Ls'])) * LATTICES[spec['lattice']['kind']][1]


def _centre(spec, c):
    return c['i'] % _nsites(spec)


MULTI_FNS = ('add_multi_coupling', 'add_multi_coupling_term')


def _shared_category(spec, first, later, later_fn=None):
    seen = {}
    for c in spec['calls']:
        cat = c.get('category')
        if cat is None:
            continue
        nsites_ = len(set(tuple(t[1]) for t in c['term'])) if c['fn'] == 'add_local_term' else 0
        three = c['fn'] in MULTI_FNS or nsites_ >= 3
        kind = 'multi' if three else ('two' if (c['fn'] in ('add_coupling', 'add_coupling_term') or nsites_ == 2) else
                                      ('onsite' if c['fn'] in ('add_onsite', 'add_onsite_term') else 'other'))
        if np.ndim(c['strength']['re']) == 0 and c['strength']['re'] == 0 and c['strength']['im'] == 0:
            continue
        if kind == later and first in seen.get(cat, []) and later_fn in (None, c['fn']):
            return True
        seen.setdefault(cat, []).append(kind)
    return False


STRATA = {
    'add_multi_coupling:op_string-nontrivial+gap': lambda s: any(c.get('op_string') not in (None, 'Id') and _span(c) >= 2 for c in _calls(s, 'add_multi_coupling')),
    'add_multi_coupling:op_string-Id': lambda s: any(c.get('op_string') == 'Id' for c in _calls(s, 'add_multi_coupling')),
    'add_multi_coupling_term:op_string-nontrivial+gap': lambda s: any(any(x != 'Id' for x in c['op_string']) and c['ijkl'][-1] - c['ijkl'][0] >= len(c['ijkl'])
                                                                      for c in _calls(s, 'add_multi_coupling_term')),
    'add_multi_coupling_term:switchLR-int': lambda s: any(isinstance(c.get('switchLR'), int) for c in _calls(s, 'add_multi_coupling_term')),
    'add_multi_coupling_term:switchLR-default': lambda s: any(c.get('switchLR') is None for c in _calls(s, 'add_multi_coupling_term')),
    'add_coupling_term:op_string-nontrivial': lambda s: any(c.get('op_string') not in (None, 'Id', 'JW') and c['j'] - c['i'] >= 2 for c in _calls(s, 'add_coupling_term')),
    'add_coupling_term:op_string-JW': lambda s: any(c.get('op_string') == 'JW' and c['j'] - c['i'] >= 2 for c in _calls(s, 'add_coupling_term')),
    'add_coupling_term:op_string-default': lambda s: any('op_string' not in c for c in _calls(s, 'add_coupling_term')),
    'add_coupling:op_string-nontrivial': lambda s: any(c.get('op_string') not in (None, 'Id', 'JW') for c in _calls(s, 'add_coupling')),
    'add_coupling:op_string-JW': lambda s: any(c.get('op_string') == 'JW' for c in _calls(s, 'add_coupling')),
    'add_coupling:op_string-Id': lambda s: any(c.get('op_string') == 'Id' for c in _calls(s, 'add_coupling')),
    'add_coupling:dx-scalar': lambda s: any(not isinstance(c['dx'], list) for c in _calls(s, 'add_coupling')),
    'add_coupling:dx-negative': lambda s: any(min(c['dx'] if isinstance(c['dx'], list) else [c['dx']]) < 0 for c in _calls(s, 'add_coupling')),
    'add_coupling:dx-multi-cell-infinite': lambda s: s['lattice']['bc_MPS'] == 'infinite' and any(
        abs((c['dx'] if isinstance(c['dx'], list) else [c['dx']])[0]) > s['lattice']['Ls'][0] for c in _calls(s, 'add_coupling')),
    'add_coupling:dx-wraps-periodic-finite': lambda s: s['lattice']['bc_MPS'] == 'finite' and any(
        abs(d) >= L_ for c in _calls(s, 'add_coupling') for d, L_, b in zip(c['dx'] if isinstance(c['dx'], list) else [c['dx']], s['lattice']['Ls'],
                                                                           s['lattice']['bc'] if isinstance(s['lattice']['bc'], list) else [s['lattice']['bc']]) if b == 'periodic'),
    'add_coupling:external-flux': lambda s: any(c.get('flux') is not None and any(c['flux']) for c in _calls(s, 'add_coupling')),
    'add_coupling:strength-array': lambda s: any(np.ndim(c['strength']['re']) >= 1 and np.size(c['strength']['re']) > 1 for c in _calls(s, 'add_coupling')),
    'add_coupling:strength-list': lambda s: any(c.get('strength_as_list') for c in _calls(s, 'add_coupling')),
    'add_onsite:strength-zero': lambda s: any(not np.any(c['strength']['re']) and not np.any(c['strength']['im']) for c in _calls(s, 'add_onsite')),
    'add_onsite:strength-array': lambda s: any(np.size(c['strength']['re']) > 1 for c in _calls(s, 'add_onsite')),
    'centered:negative-i': lambda s: any(c['i'] < 0 for c in _calls(s, 'add_exponentially_decaying_centered_terms')),
    'centered:plus_hc': lambda s: any(c.get('plus_hc') for c in _calls(s, 'add_exponentially_decaying_centered_terms')),
    'centered:explicit_plus_hc': lambda s: s.get('explicit_plus_hc') and bool(_calls(s, 'add_exponentially_decaying_centered_terms')),
    'centered:op_string': lambda s: any(c.get('op_string') not in (None, 'Id') for c in _calls(s, 'add_exponentially_decaying_centered_terms')),
    'centered:first-subsite': lambda s: any(_centre(s, c) == (c.get('subsites') or [0])[0] for c in _calls(s, 'add_exponentially_decaying_centered_terms')),
    'centered:last-subsite': lambda s: any(_centre(s, c) == (c.get('subsites') or [_nsites(s) - 1])[-1]
                                           for c in _calls(s, 'add_exponentially_decaying_centered_terms')),
    'exp:complex-lambda+plus_hc': lambda s: any(c['lambda']['dtype'] == 'complex' and c.get('plus_hc') for c in _calls(s, 'add_exponentially_decaying_coupling')),
    'exp:lambda-array': lambda s: any(np.size(c['lambda']['re']) > 1 for c in _calls(s, 'add_exponentially_decaying_coupling')),
    'exp:op_string': lambda s: any(c.get('op_string') not in (None, 'Id') for c in _calls(s, 'add_exponentially_decaying_coupling')),
    'exp:subsites_start': lambda s: any('subsites_start' in c for c in _calls(s, 'add_exponentially_decaying_coupling')),
    'exp:infinite': lambda s: s['lattice']['bc_MPS'] == 'infinite' and bool(_calls(s, 'add_exponentially_decaying_coupling')),
    'exp:fermionic': lambda s: any(c['op_i'] in ('C', 'Cd', 'Cu', 'Cdu', 'Cdd') for c in _calls(s, 'add_exponentially_decaying_coupling')),
    'category:two-site-then-add_multi_coupling': lambda s: _shared_category(s, 'two', 'multi', 'add_multi_coupling'),
    'category:two-site-then-add_multi_coupling_term': lambda s: _shared_category(s, 'two', 'multi', 'add_multi_coupling_term'),
    'category:two-site-then-add_local_term(3 sites)': lambda s: _shared_category(s, 'two', 'multi', 'add_local_term'),
    'centered:subsites-with-gap-left-and-right': lambda s: any(
        c.get('subsites') and any(q not in c['subsites'] for q in range(c['subsites'][0], _centre(s, c)))
        and any(q not in c['subsites'] for q in range(_centre(s, c), c['subsites'][-1])) for c in _calls(s, 'add_exponentially_decaying_centered_terms')),
    'add_local_term:first-site-outside-first-unit-cell': lambda s: any(c.get('unnormalised') for c in _calls(s, 'add_local_term')),
    'category:multi-site-then-two-site': lambda s: _shared_category(s, 'multi', 'two'),
    'category:shared-onsite': lambda s: _shared_category(s, 'onsite', 'onsite'),
    'plus_hc:default-omitted': lambda s: any('plus_hc' not in c for c in s['calls']),
    'plus_hc+explicit_plus_hc': lambda s: s.get('explicit_plus_hc') and any(c.get('plus_hc') for c in s['calls']),
    'no-plus_hc+explicit_plus_hc': lambda s: s.get('explicit_plus_hc') and any(not c.get('plus_hc') for c in s['calls']),
    'cancelling-terms': lambda s: bool(s.get('has_cancelling_pair')),
    'tiny-long-range-term': lambda s: bool(s.get('has_tiny_term')),
    'tol_zero-given': lambda s: s.get('tol_zero') is not None,
    'add_local_term:two-operators-on-one-site': lambda s: any(len(set(tuple(t[1]) for t in c['term'])) < len(c['term']) for c in _calls(s, 'add_local_term')),
    'add_local_term:unordered': lambda s: any(len(c['term']) >= 2 for c in _calls(s, 'add_local_term')),
}


def negated(st):
    return {'re': (-np.array(st['re'])).tolist(), 'im': (-np.array(st['im'])).tolist(), 'dtype': st['dtype']}


def gen_option_specs(rng, per_stratum):
    """for every stratum of STRATA `per_stratum` models that contain it (rejection sampling of the general generator on small
    chains / ladders, where ranges >= 2 fit); the strata 'cancelling-terms', 'tiny-long-range-term' and 'tol_zero-given' are
    constructed: a copy of one call with the negated strength / a long-range coupling with strength 1e-17 is appended"""
    cases = []
    n = 0
    for name, pred in STRATA.items():
        for rep in range(per_stratum):
            found = None
            for _try in range(3000):
                infinite = rng.random() < 0.3 or name in ('exp:infinite', 'add_coupling:dx-multi-cell-infinite')
                if name.startswith('centered') or 'finite' in name.split('-')[-1:]:
                    infinite = False
                kind = rng.choice(['Chain', 'Chain', 'Chain', 'Ladder'])
                nu = LATTICES[kind][1]
                if kind == 'Chain':
                    Ls = [rng.choice([2, 3]) if infinite else rng.choice([3, 4, 5, 6])]
                else:
                    Ls = [1 if infinite else rng.choice([2, 3])]
                nwin = 2 if infinite else 1
                N = Ls[0] * nu * nwin
                bc = 'periodic' if (infinite or rng.random() < 0.3) else 'open'
                lat = {'kind': kind, 'Ls': Ls, 'bc': bc, 'bc_MPS': 'infinite' if infinite else 'finite'}
                sites = gen_sites(rng, nu, N)
                if sites is None:
                    continue
                exact = rng.random() < 0.4
                explicit = rng.random() < 0.3
                calls = gen_calls(rng, lat, 1, nu, sites, exact, explicit)
                spec = {'lattice': lat, 'sites': sites, 'explicit_plus_hc': explicit, 'calls': calls, 'psi_seed': rng.randrange(10 ** 6)}
                if name in ('cancelling-terms', 'tiny-long-range-term', 'tol_zero-given'):
                    cand = [c for c in calls if c['fn'] in ('add_coupling', 'add_multi_coupling', 'add_onsite', 'add_coupling_term', 'add_local_term')
                            and c.get('flux') is None]
                    if len(calls) < 2 or not cand or infinite and name != 'cancelling-terms':
                        continue
                    if name == 'cancelling-terms':
                        c = copy.deepcopy(rng.choice(cand))
                        c['strength'] = negated(c['strength'])
                        calls.insert(rng.randrange(len(calls) + 1), c)
                        spec['has_cancelling_pair'] = True
                    else:
                        # a coupling over the whole chain with a strength below the zero tolerance: to be ignored everywhere
                        T = SITES[sites[0]['type']]
                        pr = T['pairs0'][-1] if T['pairs0'][-1][0] not in T['fer'] else ('N', 'N')
                        if Ls[0] < 3 or len(set(x['type'] for x in sites)) > 1:
                            continue
                        tz = None if name == 'tiny-long-range-term' else 1e-12
                        calls.append({'fn': 'add_coupling', 'strength': enc(np.array(1e-17 if tz is None else 3e-14), 'float'), 'u1': 0, 'op1': pr[0],
                                      'u2': 0, 'op2': pr[1], 'dx': [Ls[0] - 1]})
                        spec['has_tiny_term'] = True
                        spec['tol_zero'] = tz
                        exact = False
                if name.startswith('category:'):
                    for c in calls:
                        if not c['fn'].startswith('add_exponentially'):
                            c['category'] = 'cat0'
                if name == 'centered:subsites-with-gap-left-and-right':
                    cen = _calls(spec, 'add_exponentially_decaying_centered_terms')
                    if not cen or _nsites(spec) < 5:
                        continue
                    ic = rng.randint(2, _nsites(spec) - 3)
                    cen[0]['subsites'] = [0, ic, _nsites(spec) - 1]
                    cen[0]['i'] = ic - rng.choice([0, _nsites(spec)])
                if not calls or not pred(spec):
                    continue
                found = (spec, nwin, exact)
                break
            if found is None:
                continue
            spec, nwin, exact = found
            n += 1
            fid = 'O%d' % n
            cases.append({'kind': 'spec', 'spec': spec, 'nwin': nwin, 'family': fid, 'variant': 'base', 'exact': exact, 'stratum': name})
            v = copy.deepcopy(spec)
            v['explicit_plus_hc'] = not spec['explicit_plus_hc']
            if not name.startswith('centered:explicit') and 'explicit_plus_hc' not in name:
                cases.append({'kind': 'spec', 'spec': v, 'nwin': nwin, 'family': fid, 'variant': 'explicit_plus_hc-toggled', 'exact': exact, 'stratum': name})
            if spec.get('tol_zero') is None and rng.random() < 0.5:
                v = copy.deepcopy(spec)
                v['via'] = gen_via(rng, v)
                cases.append({'kind': 'spec', 'spec': v, 'nwin': nwin, 'family': fid, 'variant': 'via-CouplingMPOModel', 'exact': exact, 'stratum': name})
    return cases


def strata_counts(cases):
    out = {k: 0 for k in STRATA}
    for c in cases:
        if c.get('kind') != 'spec':
            continue
        for k, pred in STRATA.items():
            try:
                if pred(c['spec']):
                    out[k] += 1
            except Exception:
                pass
    return out


# ------------------------------------------------------------------------------------------
# predefined models (reflection over tenpy.models)
# ------------------------------------------------------------------------------------------
NUMERIC = ['J', 'Jx', 'Jy', 'Jz', 'Jxx', 'Jp', 'Jxy', 'g', 'h', 'hx', 'hy', 'hz', 'D', 'E', 'muJ', 't', 't1', 't2', 'U', 'V', 'mu',
           'Jv', 'Jp', 'phi_ext', 'J1', 'J2', 'delta', 'Delta', 'K']
CONS_VARIANTS = [{'conserve': None, 'cons_N': None, 'cons_Sz': None}, {'conserve': 'best'},
                 {'conserve': 'parity', 'cons_N': 'parity', 'cons_Sz': 'parity'}, {'conserve': 'Sz', 'cons_N': 'N', 'cons_Sz': 'Sz'},
                 {'conserve': 'N', 'cons_N': 'N', 'cons_Sz': None}]


def gen_predefined(rng, models, per_class):
    cases = []
    fid = 0
    for modname, cls, problem in models:
        if cls is None:
            continue
        for _ in range(per_class):
            fid += 1
            num = {}
            style = rng.random()
            for k in NUMERIC:
                if k in ('hx', 'hy', 'E', 'g', 'Jx', 'Jy') and style < 0.5:
                    continue        # keep the conserving symmetries for half of the parameter sets
                if rng.random() < 0.6:
                    num[k] = round(rng.uniform(-1.5, 1.5), 3)
            infinite = rng.random() < 0.3
            geo = {'L': rng.choice([2, 3]) if infinite else rng.choice([3, 4, 5]), 'Lx': 1 if infinite else 2,
                   'Ly': rng.choice([2, 2, 3]) if infinite else 2,
                   'bc_MPS': 'infinite' if infinite else 'finite'}
            if infinite:
                geo['bc_x'] = 'periodic'
            else:
                geo['bc_x'] = rng.choice(['open', 'open', 'periodic'])
            geo['bc_y'] = rng.choice(['ladder', 'cylinder'])
            if rng.random() < 0.3:
                geo['explicit_plus_hc'] = True
            if rng.random() < 0.2:
                geo['sort_mpo_legs'] = True
            if 'phi_ext' in num:
                # (external flux: one phase per lattice direction, non-zero only around the cylinder)
                if geo['bc_y'] == 'cylinder':
                    num['phi_ext'] = [0.0, num['phi_ext']]
                else:
                    del num['phi_ext']
            if rng.random() < 0.7:
                geo['q'] = rng.choice([2, 3, 4])           # (clock models)
            # documented options of CouplingMPOModel.init_lattice: order of the sites, another lattice (name)
            if rng.random() < 0.3:
                geo['order'] = rng.choice(['default', 'snake', 'Cstyle', 'Fstyle', 'folded'])
            other_lattice = None
            if rng.random() < 0.3:
                other_lattice = {'lattice': rng.choice(['Chain', 'Ladder', 'Square', 'Triangular', 'Honeycomb']), 'Ly': 2, 'L': min(geo['L'], 3)}
            for cv in CONS_VARIANTS + ([CONS_VARIANTS[0], CONS_VARIANTS[1]] if other_lattice else []):
                params = dict(num)
                params.update(geo)
                params.update(cv)
                fam_ = 'P%d' % fid
                nvar_ = sum(1 for c_ in cases if c_['family'] in (fam_, fam_ + 'L'))
                if nvar_ >= len(CONS_VARIANTS):
                    # (additional family: the same parameters on another lattice given by name; many classes fix their lattice)
                    params.update(other_lattice)
                    fam_ += 'L'
                c = {'kind': 'predefined', 'module': modname, 'cls': cls, 'params': params, 'family': fam_,
                     'variant': str(cv.get('conserve')), 'nwin': 2, 'psi_seed': rng.randrange(10 ** 6)}
                L = params['L']
                if rng.random() < 0.5:
                    c['segment'] = 'auto'
                cases.append(c)
    return cases


# ------------------------------------------------------------------------------------------
# Coq literals
# ------------------------------------------------------------------------------------------

def z(n):
    return '(%d)' % n


def gauss(st):
    """[re, im] -> Gaussian integer pair or None"""
    re, im = st
    a, b = round(re), round(im)
    if abs(re - a) > 1e-9 or abs(im - b) > 1e-9 or abs(a) > 10 ** 12 or abs(b) > 10 ** 12:
        return None
    return int(a), int(b)


class Lit:
    """builds Coq literals with consistent operator / key numbering for one case"""

    def __init__(self):
        self.ops = {'Id': 0}
        self.keys = {}
        self.ok = True

    def op(self, name):
        if name not in self.ops:
            self.ops[name] = len(self.ops)
        return self.ops[name]

    def c(self, st):
        g = gauss(st)
        if g is None:
            self.ok = False
            return '(0, 0)'
        return '(%s, %s)' % (z(g[0]), z(g[1]))

    def key(self, k):
        if k == 'IdL' or k == 'IdR':
            return k
        if isinstance(k, list) and k[0] == 'left':
            return '(Lbl %d%%nat %s %s)' % (k[1], z(self.op(k[2])), z(self.op(k[3])))
        if isinstance(k, int):
            return '(Oth %s)' % z(k)
        if k not in self.keys:
            self.keys[k] = len(self.keys)
        return '(Oth %s)' % z(self.keys[k])

    def edge(self, e):
        kl, kr, op, st = e
        return '(mkE %s %s %s %s)' % (self.key(kl), self.key(kr), z(self.op(op)), self.c(st))

    # ---- tuple keys of MultiCouplingTerms.add_to_graph as kleft / kright of their triples (Model/AutomatonMulti.v)
    def triples(self, flat):
        ts = [flat[n:n + 3] for n in range(0, len(flat), 3)]
        return '[' + '; '.join('(%d%%nat, %s, %s)' % (int(i), z(self.op(str(a))), z(self.op(str(s))))
                               for i, a, s in reversed(ts)) + ']'

    def key_m(self, k):
        if k == 'IdL' or k == 'IdR':
            return k
        if isinstance(k, list) and k[0] == 'left':
            return '(kleft %s)' % self.triples(k[1:])
        if isinstance(k, str) and k.startswith('K:('):
            import ast
            import re
            try:
                t = ast.literal_eval(re.sub(r'np\.\w+\((-?\d+)\)', r'\1', k[2:]))
            except Exception:
                t = None
            if isinstance(t, tuple) and len(t) % 3 == 1 and len(t) >= 4 and t[0] in ('left', 'right'):
                return '(%s %s)' % ('kleft' if t[0] == 'left' else 'kright', self.triples(list(t[1:])))
        self.ok = False
        return '(Oth 0)'

    def graph_m(self, sites):
        return '[' + '; '.join('[' + '; '.join(
            '(mkE %s %s %s %s)' % (self.key_m(kl), self.key_m(kr), z(self.op(op)), self.c(st))
            for kl, kr, op, st in es) + ']' for es in sites) + ']'

    def graph(self, sites):
        return '[' + '; '.join('[' + '; '.join(self.edge(e) for e in es) + ']' for es in sites) + ']'

    def poly(self, terms, lo=0):
        ms = []
        for st, w in terms:
            letters = ['(%d%%nat, %s)' % (k - lo, z(self.op(o))) for k, o in sorted(w.items()) if o != 'Id']
            ms.append('(%s, %s)' % (self.c([st.real, st.imag]), '[' + '; '.join(letters) + ']' if letters else '(@nil letter)'))
        return '[' + '; '.join(ms) + ']' if ms else '(@nil mono)'


def grid_edges(grids):
    """grids (index keys, IdL/IdR markers) -> edge lists with keys IdL / IdR / integer index"""
    out = []
    for i, es in enumerate(grids['edges']):
        def k(bond, x):
            if grids['IdL'][bond] == x:
                return 'IdL'
            if grids['IdR'][bond] == x:
                return 'IdR'
            return int(x)
        out.append([[k(i, a), k(i + 1, b), op, st] for a, b, op, st in es])
    return out


# ------------------------------------------------------------------------------------------
# oracle comparisons
# ------------------------------------------------------------------------------------------

def maxdiff(a, b):
    if a.shape != b.shape:
        return float('inf')
    return float(np.max(np.abs(a - b))) if a.size else 0.0


def describe_call(spec, n):
    c = spec['calls'][n]
    return '%s dtype=%s explicit_plus_hc=%s plus_hc=%s' % (c['fn'], c['strength'].get('dtype'), spec.get('explicit_plus_hc'), c.get('plus_hc'))


def termlist_words(r, dense):
    """every term of the implementation's term list (to_TermList of the on-site and coupling containers) as a word
    {site: opname}.  A TermList holds no operator strings; the sites between two operators get the Jordan-Wigner string
    'JW' when an odd number of operators to their left is fermionic, i.e. anticommutes with the local 'JW' (the rule by which
    all add_* calls choose their strings), nothing otherwise.  Several operators on one site are multiplied in the order written."""
    out = []
    for term, st in r['termlist']:
        srt = sorted(term, key=lambda t: t[1])          # (stable: operators on one site keep their order)
        w = {}
        parity = False
        for n, (o, k) in enumerate(srt):
            w[k] = (w[k] + ' ' + o) if k in w else o
            j_ = dense.local('JW', k)
            for part in o.split(' '):            # (composite names 'A B': product of the parts, parities add up)
                m_ = dense.local(part, k)
                odd = bool(np.max(np.abs(m_)) > 0 and np.max(np.abs(j_ @ m_ @ j_ + m_)) <= 1e-12 * np.max(np.abs(m_)))
                parity = parity != odd
            if n + 1 < len(srt) and parity:
                for q in range(k + 1, srt[n + 1][1]):
                    w[q] = 'JW'
        out.append((complex(*st), w))
    return out


def word_normal_form(words, L, finite, tol):
    """sum of strengths per word; 'Id' dropped; infinite: translated such that the left-most operator is in the first cell"""
    nf = {}
    for st, w in words:
        items = sorted((k, o) for k, o in w.items() if o != 'Id')
        if not items:
            continue
        sh = 0 if finite else (items[0][0] // L) * L
        key = tuple((k - sh, o) for k, o in items)
        nf[key] = nf.get(key, 0) + st
    return {k: v for k, v in nf.items() if abs(v) > tol}


def fmt_word(key):
    return ' '.join('%s_%d' % (o if ' ' not in o else '[' + o + ']', k) for k, o in key)


def check_termlist(r, geo, dense, Href, Hc, mats, tol):
    """the term list against (a) the reference operator (dense, on the window) and (b) the words of the term containers
    (all terms, also those that do not fit into the window).  Exponentially decaying terms are not part of the term list.
    Returns (problems, number of terms of the list whose right part lies beyond the first unit cell)"""
    problems = []
    L, finite = r['L'], r['finite']
    words = termlist_words(r, dense)
    far = sum(1 for _, w in words if len(w) >= 2 and max(w) >= L)
    # (a) dense
    shifts = geo.translations()
    H = np.zeros((dense.D, dense.D), dtype=complex)
    for st, w in words:
        for sh in shifts:
            w2 = {k + sh: o for k, o in w.items()}
            if dense.inside(w2):
                H = H + st * dense.tensor(w2)
    if r['explicit_plus_hc']:
        H = H + H.conj().T
    ref = Href
    ex = r.get('exp') or {}
    if (ex.get('exp') or ex.get('centered')) and Hc is not None:
        ref = Href - (Hc - O.dense_from_containers(dict(r, exp={'exp': [], 'centered': []}), dense)[0])
    elif ex.get('exp') or ex.get('centered'):
        ref = None
    if ref is not None:
        d = maxdiff(H, ref)
        if d > tol:
            problems.append(('C10:termlist:dense', 'the term list (all_onsite_terms().to_TermList() + all_coupling_terms().to_TermList()) differs '
                             'from the reference operator by %.3e on the window of %d sites' % (d, dense.n)))
        if 'H_mpo_from_termlist' in mats:
            d = maxdiff(mats['H_mpo_from_termlist'], ref)
            if d > tol:
                problems.append(('C10:termlist:from_term_list', 'the MPO re-built from the term list (MPOGraph.from_term_list(...).build_MPO()) differs '
                                 'from the reference operator by %.3e' % d))
    # (b) word for word against the containers (which the MPO graph is built from)
    cw = []
    for i, op, st in r['onsite']:
        cw.append((complex(*st), {i: op}))
    for i, a, s, j, b, st in (r.get('coupling') or []):
        w = {i: a, j: b}
        for q in range(i + 1, j):
            w[q] = s
        cw.append((complex(*st), w))
    for t in (r.get('multi') or []):
        cw.append((complex(*t['strength']), {k: o for k, o in t['word']}))
    nf_l = word_normal_form(words, L, finite, 1e-13)
    nf_c = word_normal_form(cw, L, finite, 1e-13)
    bad = [k for k in set(nf_l) | set(nf_c) if abs(nf_l.get(k, 0) - nf_c.get(k, 0)) > 1e-12 * max(1.0, abs(nf_c.get(k, 0)))]
    if bad:
        only_l = sorted(k for k in bad if k not in nf_c)
        only_c = sorted(k for k in bad if k not in nf_l)
        txt = 'the term list and the term containers (which the MPO is built from) list different terms: '
        if only_l or only_c:
            txt += 'only in the term list: %s; only in the containers: %s' % (
                ', '.join('%s * %s' % (nf_l[k], fmt_word(k)) for k in only_l[:3]) or '-',
                ', '.join('%s * %s' % (nf_c[k], fmt_word(k)) for k in only_c[:3]) or '-')
        else:
            k = sorted(bad)[0]
            txt += '%s has strength %s in the term list and %s in the containers' % (fmt_word(k), nf_l[k], nf_c[k])
        problems.append(('C10:termlist:words', txt))
    return problems, far


def check_extra(r, dense, Href, Href_bond, mats, tol, hermitian, scale):
    """oracle for the accessors exported by export_extra of the runner: wave-function exporters, ExactDiag with charge_sector /
    mps_to_full / matvec, bond energies, TermList and container accessors"""
    problems = []
    finite, L, N = r['finite'], r['L'], r['N']
    dims = r['dims']
    if 'psi' in r and finite:
        ps = r['psi']
        v = np.zeros(dims, dtype=complex)
        v[tuple(ps['p1'])] += complex(*ps['alpha']) if ps['p2'] is not None else 1.0
        if ps['p2'] is not None:
            v[tuple(ps['p2'])] += complex(*ps['beta'])
        inv = [np.argsort(np.array(r['perm'][k % L])) for k in range(N)]
        v_conv = v[np.ix_(*inv)].reshape(-1)
        v = v.reshape(-1)
        for nm, ref, what in (('wf_noundo', v, 'get_full_wavefunction(psi, undo_sort_charge=False)'),
                              ('wf_undo', v_conv, 'get_full_wavefunction(psi)')):
            if nm in mats:
                d = maxdiff(mats[nm], ref)
                if d > 1e-10:
                    problems.append(('C10:' + nm, '%s differs from the amplitudes of the state (two product states, amplitudes %r, %r) by %.3e'
                                     % (what, ps['alpha'], ps['beta'], d)))
        E = complex(np.vdot(v, Href @ v))
        if 'E_mpo' in mats and abs(complex(mats['E_mpo']) - E) > tol:
            problems.append(('C10:E_mpo', 'H_MPO.expectation_value(psi) = %r, <psi|H|psi> of the reference operator = %r' % (complex(mats['E_mpo']), E)))
        if 'ed_matvec' in mats:
            d = maxdiff(mats['ed_matvec'], Href @ v)
            if d > tol:
                problems.append(('C10:ed_matvec', 'ExactDiag.matvec(mps_to_full(psi)) differs from H|psi> by %.3e' % d))
        if 'bond_energies' in mats and 'H_bond_none' in r:
            Eb = np.asarray(mats['bond_energies']).reshape(-1)
            exp_ = []
            for j in range(1, L):
                if r['H_bond_none'][j]:
                    exp_.append(0.0)
                    continue
                hb = mats['Hb/%d' % j]
                M_ = np.kron(np.kron(np.eye(int(np.prod(dims[:j - 1]))), hb), np.eye(int(np.prod(dims[j + 1:]))))
                exp_.append(complex(np.vdot(v, M_ @ v)))
            if len(Eb) != L - 1 or float(np.max(np.abs(Eb - np.array(exp_)))) > tol:
                problems.append(('C10:bond_energies', 'bond_energies(psi) = %r, expected <psi|H_bond[i+1]|psi> = %r' % (Eb.tolist(), exp_)))
            elif abs(np.sum(Eb) - complex(np.vdot(v, Href_bond @ v))) > tol * L:
                problems.append(('C10:bond_energies', 'sum of bond_energies(psi) differs from <psi|H|psi>'))
        # ExactDiag(charge_sector=...): the block of H on the basis states of that total charge
        if 'sector' in r and ('H_ed_sector' in mats or 'H_ed_sector_bonds' in mats):
            mod = np.array(r['qmod'])
            tot = np.zeros([int(np.prod(dims)), len(mod)], dtype=np.int64)
            idx = np.indices(dims).reshape(len(dims), -1)
            for k in range(N):
                tot += np.array(r['qflat'][k], dtype=np.int64).reshape(dims[k], len(mod))[idx[k]]
            tot = np.where(mod > 1, tot % np.where(mod > 1, mod, 1), tot)
            sec = np.array(r['sector'])
            sec = np.where(mod > 1, sec % np.where(mod > 1, mod, 1), sec)
            mask = np.all(tot == sec[None, :], axis=1) if len(mod) else np.ones(len(tot), dtype=bool)
            block = Href[np.ix_(mask, mask)]
            for nm, sfx in (('H_ed_sector', ''), ('H_ed_sector_bonds', '_b')):
                if nm not in mats:
                    continue
                Hs_ = mats[nm]
                bad = None
                if Hs_.shape != block.shape:
                    bad = 'has shape %s, the sector %r holds %d states' % (Hs_.shape, r['sector'], int(mask.sum()))
                elif abs(np.trace(Hs_) - np.trace(block)) > tol * max(1, len(block)) or abs(np.linalg.norm(Hs_) - np.linalg.norm(block)) > tol * max(1, len(block)):
                    bad = 'has a different trace / norm than the block of the reference operator'
                elif hermitian and float(np.max(np.abs(np.linalg.eigvalsh(0.5 * (Hs_ + Hs_.conj().T)) - np.linalg.eigvalsh(block)))) > 1e-8 * scale:
                    bad = 'has a different spectrum than the block of the reference operator'
                else:
                    sp, sh = mats.get('sector_psi' + sfx), mats.get('sector_Hpsi' + sfx)
                    if sp is not None and sh is not None:
                        if abs(np.linalg.norm(sp) - 1.0) > 1e-10:
                            bad = 'mps_to_full(psi) has norm %r in the sector of psi' % float(np.linalg.norm(sp))
                        elif abs(np.vdot(sp, sh) - E) > tol or abs(np.linalg.norm(sh) - np.linalg.norm((Href @ v)[mask])) > tol:
                            bad = '<psi|H|psi> or |P H psi| in the sector differ from the reference operator'
                if bad:
                    problems.append(('C10:' + nm, 'ExactDiag(charge_sector=%r) built from %s: full_H %s' % (r['sector'], 'bonds' if sfx else 'the MPO', bad)))
    if 'psi' in r and not finite and 'bond_energies' in mats and 'H_bond_none' in r:
        # product state of the infinite system: E_bond[j] is the energy of bond (j-1, j), H_bond[j] acts on sites (j-1, j)
        p1 = r['psi']['p1']
        Eb = np.asarray(mats['bond_energies']).reshape(-1)
        exp_, alt_ = [], []
        for j in range(L):
            if r['H_bond_none'][j]:
                exp_.append(0.0)
                alt_.append(0.0)
                continue
            hb = mats['Hb/%d' % j]
            dl, dr = r['dims'][(j - 1) % L], r['dims'][j]
            k = p1[(j - 1) % L] * dr + p1[j]
            exp_.append(complex(hb[k, k]))
            # (the known defect: H_bond[j] evaluated on the sites (j, j+1) instead of (j-1, j))
            k2 = p1[j] * r['dims'][(j + 1) % L] + p1[(j + 1) % L]
            alt_.append(complex(hb[k2, k2]) if (dl, dr) == (r['dims'][j], r['dims'][(j + 1) % L]) else np.nan)
        if len(Eb) != L or float(np.max(np.abs(Eb - np.array(exp_)))) > tol:
            key = 'C10:bond_energies'
            if len(Eb) == L and not np.any(np.isnan(alt_)) and float(np.max(np.abs(Eb - np.array(alt_)))) <= tol:
                key = 'C10:NearestNeighborModel.bond_energies:infinite-shifted-by-one-site'
            problems.append((key, 'bond_energies(psi) of the product state %r of the infinite system = %r, expected E_bond[j] = <psi|H_bond[j]|psi> on '
                             'sites (j-1, j) = %r' % (p1, Eb.tolist(), exp_)))
    acc = r.get('accessors')
    if acc and 'termlist' in r:
        tl = r['termlist']
        sites_ = [k for term, _ in tl for _, k in term]
        spans = [max(k for _, k in term) - min(k for _, k in term) for term, _ in tl]

        def same_list(a, b, fac=1.0, sh=0):
            if len(a) != len(b):
                return False
            for (ta, sa), (tb, sb) in zip(a, b):
                if [[o, k + sh] for o, k in ta] != [list(x) for x in tb] or abs(complex(*sa) * fac - complex(*sb)) > 1e-12 * max(1.0, abs(complex(*sa) * fac)):
                    return False
            return True
        if acc['tl_max_range'] != (max(spans) if spans else 0):
            problems.append(('C10:TermList.max_range', 'TermList.max_range() = %r, terms span %r' % (acc['tl_max_range'], max(spans) if spans else 0)))
        if acc['tl_limits'] is not None and acc['tl_limits'] != [min(sites_), max(sites_)]:
            problems.append(('C10:TermList.limits', 'TermList.limits() = %r, sites of the terms: %d..%d' % (acc['tl_limits'], min(sites_), max(sites_))))
        if not same_list(tl, acc['tl_shift'], sh=L):
            problems.append(('C10:TermList.shift', 'TermList.shift(L) is not the list with L added to every site'))
        if not same_list(tl, acc['tl_mul'], fac=2.5):
            problems.append(('C10:TermList.__mul__', 'TermList * 2.5 is not the list with every strength multiplied by 2.5'))
        if not same_list(tl, acc['tl_iter']):
            problems.append(('C10:TermList.__iter__', 'iterating a TermList does not give zip(terms, strength)'))
        # ranges of the containers (H_MPO.max_range is taken from them)
        rng_c = [e_[3] - e_[0] for e_ in (r.get('coupling') or [])] + [max(k for k, _ in t['word']) - min(k for k, _ in t['word']) for t in (r.get('multi') or [])]
        if acc['ct_max_range'] != (max(rng_c) if rng_c else 0):
            problems.append(('C10:CouplingTerms.max_range', 'max_range() of the coupling terms = %r, the stored terms span %r'
                             % (acc['ct_max_range'], max(rng_c) if rng_c else 0)))
        if acc['ot_max_range'] != 0:
            problems.append(('C10:OnsiteTerms.max_range', 'OnsiteTerms.max_range() = %r' % acc['ot_max_range']))
        if acc.get('exp_iadd') != r.get('exp'):
            problems.append(('C10:ExponentiallyDecayingTerms.__iadd__', 'an empty ExponentiallyDecayingTerms += the terms of the model does not hold the same terms'))
        if 'termlist_exp_infinite' in acc:
            cut = acc['exp_cutoff']
            want, slack = {}, set()
            for t in r['exp']['exp']:
                lam = [complex(*x) for x in t['lambda']]
                for i in t['subsites_start']:
                    pref = complex(*t['strength']) * lam[i]
                    cell = 0
                    while abs(pref) >= cut * 1e-3 and cell < 400:
                        for q in t['subsites']:
                            j = q + cell * L
                            if j <= i:
                                continue
                            key = (t['op_i'], i, t['op_j'], j)
                            if abs(pref) >= cut * (1 + 1e-9):
                                want[key] = want.get(key, 0) + pref
                            elif abs(pref) > cut * (1 - 1e-9):
                                slack.add(key)
                            pref = pref * lam[q]
                        cell += 1
            got = {}
            for term, st in acc['termlist_exp_infinite']:
                key = (term[0][0], term[0][1], term[1][0], term[1][1])
                got[key] = got.get(key, 0) + complex(*st)
            bad = [k for k in set(want) | set(got) if k not in slack and abs(want.get(k, 0) - got.get(k, 0)) > 1e-12 * max(1.0, abs(want.get(k, 0)))]
            if bad:
                k = sorted(bad)[0]
                problems.append(('C10:ExponentiallyDecayingTerms.to_TermList:infinite', 'exp_decaying_terms.to_TermList(cutoff=%g, bc="infinite"): term %r has '
                                 'strength %r, expected %r (%d terms differ)' % (cut, k, got.get(k), want.get(k), len(bad))))
        if 'tl_from_lattice_unit' in acc and r.get('tl_from_lattice_expected') is not None and not r.get('tl_shifted'):
            if not same_list([[t_, [1.0, 0.0]] for t_, _ in r['tl_from_lattice_expected']], acc['tl_from_lattice_unit']):
                problems.append(('C10:TermList.from_lattice_locations', 'TermList.from_lattice_locations(lat, terms) (default strength) = %r'
                                 % (acc['tl_from_lattice_unit'],)))
        if 'tl_from_lattice' in acc and r.get('tl_from_lattice_expected') is not None:
            if not same_list(r['tl_from_lattice_expected'], acc['tl_from_lattice']):
                problems.append(('C10:TermList.from_lattice_locations', 'TermList.from_lattice_locations(...) = %r, expected %r'
                                 % (acc['tl_from_lattice'], r['tl_from_lattice_expected'])))
    return problems


def zero_hamiltonian(case, r):
    """Is the operator the add_* calls of a specification stand for exactly zero?  True / False / a text (undecided).
    True needs: every term whose left-most operator lies in the first unit cell fits into the dense window, the dense sum of
    all terms inside the window vanishes, and the implementation's containers (zeros removed) hold no term."""
    if 'npz' not in r or 'onsite' not in r:
        return 'undecided: containers not exported (%s)' % (r.get('export_basic_error') or '')[-200:]
    EXP = ('add_exponentially_decaying_coupling', 'add_exponentially_decaying_centered_terms')
    try:
        npz = np.load(r['npz'])
        ops = O.load_ops(npz, len(r['needs_JW']))
        L, N, finite = r['L'], r['N'], r['finite']
        geo = O.Geometry(r)
        reach = N - 1
        # (exponentially decaying calls: a non-zero strength gives a non-zero term inside every window of two unit cells, or, on a
        # finite system, no term at all; they do not enlarge the window)
        noexp = dict(case['spec'], calls=[c_ for c_ in case['spec']['calls'] if c_['fn'] not in EXP])
        for kind, st, term, hc, strings in O.user_level_terms(noexp, geo):
            ks = [k for _, k in term]
            if st != 0 and 0 <= min(ks) < L:
                reach = max(reach, max(ks))
        if float(np.prod([float(r['dims'][k % L]) for k in range(reach + 1)])) > 1100:
            return 'undecided: a window of %d sites is too large for the dense oracle' % (reach + 1)
        dense = O.Dense(O.Geometry(r, lo=0, hi=reach), ops, r['needs_JW'])
        Href, _, nterms = O.expected_from_spec(case['spec'], dense)
        if case['spec'].get('explicit_plus_hc'):
            Href = 0.5 * (Href + Href.conj().T)
    except Exception as e:
        return 'undecided: %r' % (e,)
    finally:
        try:
            os.unlink(r['npz'])
        except OSError:
            pass
    if Href.size and float(np.max(np.abs(Href))) > 1e-13:
        return False
    ex = r.get('exp') or {}

    def nz(t):
        return complex(*t['strength']) != 0
    exp_terms = any(nz(t) and (not finite or any(j > i for i in t['subsites_start'] for j in t['subsites'])) for t in ex.get('exp', []))
    cen_terms = any(nz(t) and any(j != t['i'] for j in t['subsites']) for t in ex.get('centered', []))
    if r['onsite'] or r.get('coupling') or r.get('multi') or exp_terms or cen_terms:
        return False
    return True


def check_case(ctx, case, r, fam_store):
    """oracle for one case; returns (info for the Coq stream or None)"""
    is_spec = case['kind'] == 'spec'
    label = {'stream': 'models' if is_spec else 'predefined', 'case': case}
    if 'runner_error' in r:
        ctx.fail('correspondence', 'runner failed: ' + r['runner_error'][-500:], label)
        return None
    if 'construct_error' in r:
        ctx.count('predefined', [case['module'], case['cls'], case['params']], nontrivial=False)
        return None
    if 'error' in r:
        # the implementation raised on a valid model specification
        mk = 'C10:model-construction-raises'
        if r.get('error_type') == 'UFuncTypeError' and 'error_call' in r:
            c = case['spec']['calls'][r['error_call']]
            if (case['spec'].get('explicit_plus_hc') and not c.get('plus_hc') and c['strength'].get('dtype') == 'int'
                    and c['fn'] == 'add_onsite'):
                mk = 'C10:add_onsite:int-strength-with-explicit_plus_hc'
        if 'error_call' not in r and "can't determine" in r['error']:
            # The zero operator has no MPO graph (no path IdL -> IdR); MPOGraph.build_MPO refuses it with this ValueError.
            # A specification is outside the property when its terms sum to exactly zero (all strengths cancel, or an
            # exponentially decaying coupling restricted to a single site): decided by the independent dense semantics of the
            # calls AND by the implementation's own (zero-stripped) containers being empty.
            late_ = ((case['spec'].get('via') or {}).get('late') or 0) if 'init_H_from_terms' not in r['error'] else 0
            zcase = case if not late_ else dict(case, spec=dict(case['spec'], calls=case['spec']['calls'][:len(case['spec']['calls']) - late_]))
            zero = zero_hamiltonian(zcase, r)
            if zero is True:
                ctx.count('models', case['spec'], nontrivial=False)
                ctx.cov['zero_hamiltonian_specs'] = ctx.cov.get('zero_hamiltonian_specs', 0) + 1
                return None
            if zero is not False:
                r = dict(r, error=r['error'] + ' [' + str(zero) + ']')
        ctx.fail('oracle', 'valid model specification raised: ' + r['error'], label, match_key=mk)
        ctx.count('models', case['spec'], nontrivial=True)
        return None
    npz = np.load(r['npz'])
    nu = len(r['needs_JW'])
    ops = O.load_ops(npz, nu)
    geo = O.Geometry(r)
    dense = O.Dense(geo, ops, r['needs_JW'])
    mats = {k: npz[k] for k in npz.files if not k.startswith('op/')}
    problems = []          # (match_key, text)
    scale = 1.0
    # ---- the reference operator
    if 'onsite' in r:
        Hc, onsite_c = O.dense_from_containers(r, dense)
    else:
        Hc, onsite_c = None, {}
    if is_spec:
        try:
            Href, onsite, nterms = O.expected_from_spec(case['spec'], dense)
        except Exception as e:
            ctx.fail('correspondence', 'oracle failed: %r' % (e,), label)
            return None
        Hspec_hermitian = maxdiff(Href, Href.conj().T) <= TOL * max(1.0, float(np.max(np.abs(Href))) if Href.size else 1.0)
        if case['spec'].get('explicit_plus_hc'):
            # a model with explicit_plus_hc stores X and represents X + X^dagger: only Hermitian Hamiltonians can be
            # represented; for a non-Hermitian set of terms the documented halving yields the Hermitian part
            Href = 0.5 * (Href + Href.conj().T)
            onsite = {k: 0.5 * (m + m.conj().T) for k, m in onsite.items()}
        scale = max(1.0, float(np.max(np.abs(Href))) if Href.size else 1.0)
        if Hc is not None and maxdiff(Hc, Href) > TOL * scale:
            # known cause: add_multi_coupling drops an explicitly given op_string when no operator needs a Jordan-Wigner string.
            # Then all further representations are compared with what the containers hold (the calls read with op_string='Id')
            alt = copy.deepcopy(case['spec'])
            hit = [c_ for c_ in alt['calls'] if c_['fn'] == 'add_multi_coupling' and c_.get('op_string') not in (None, 'Id')]
            for c_ in hit:
                c_['op_string'] = 'Id'
            if hit:
                Ha, onsite_a, _ = O.expected_from_spec(alt, dense)
                if alt.get('explicit_plus_hc'):
                    Ha = 0.5 * (Ha + Ha.conj().T)
                    onsite_a = {k: 0.5 * (m + m.conj().T) for k, m in onsite_a.items()}
                if maxdiff(Hc, Ha) <= TOL * scale:
                    problems.append(('C10:add_multi_coupling:op_string-ignored-without-JW-operators',
                                     'add_multi_coupling(..., op_string=%r) with operators that need no Jordan-Wigner string stores the terms with '
                                     'op_string "Id" (documented: the given operator is used between the operators): containers differ from '
                                     'the calls by %.3e' % (sorted(set(c_2.get('op_string') for c_2 in case['spec']['calls'] if c_2['fn'] == 'add_multi_coupling'
                                                                       and c_2.get('op_string') not in (None, 'Id'))), maxdiff(Hc, Href))))
                    case = dict(case, spec=alt)
                    Href, onsite = Ha, onsite_a
                    Hspec_hermitian = maxdiff(Href, Href.conj().T) <= TOL * max(1.0, float(np.max(np.abs(Href))) if Href.size else 1.0)
                    scale = max(1.0, float(np.max(np.abs(Href))) if Href.size else 1.0)
        if Hc is not None and maxdiff(Hc, Href) > TOL * scale:
            problems.append(('C10:containers', 'term containers (onsite/coupling/multi/exp terms with their operator strings) differ from the '
                             'operator the add_* calls stand for by %.3e' % maxdiff(Hc, Href)))
    else:
        nterms = len(r.get('onsite', [])) + len(r.get('coupling') or []) + len(r.get('multi') or [])
        if Hc is not None:
            Href, onsite = Hc, onsite_c
        elif 'H_mpo_contract' in mats:
            Href, onsite = mats['H_mpo_contract'], {}
        else:
            ctx.fail('correspondence', 'no reference representation for predefined model: %s' % r['errors'], label)
            return None
        scale = max(1.0, float(np.max(np.abs(Href))) if Href.size else 1.0)
    hermitian = maxdiff(Href, Href.conj().T) <= TOL * scale
    herm_defect = maxdiff(Href, Href.conj().T)
    tol = TOL * scale
    finite = r['finite']
    N = r['N']
    # H_bond of an infinite system on a window: the on-site terms of the two edge sites count half
    edge_corr = 0
    if not finite and not is_spec and 'onsite' not in r:
        # a predefined model without term containers (AKLTChain: defined by its bond operators, MPO from calc_H_MPO_from_bond):
        # the reference operator is the contraction of the model's own MPO, and its on-site part on the two edge sites is the
        # on-site block W[IdL, IdR] of that MPO (for AKLT: the constant part of the bond operators, which calc_H_MPO_from_bond
        # distributes over the sites as multiples of the identity)
        for k in (geo.lo, geo.hi):
            nm_ = 'mpo_onsite/%d' % k
            if nm_ in mats:
                onsite[k] = dense.kron_list([mats[nm_] if q == k else np.eye(dense.dims[q - geo.lo]) for q in range(geo.lo, geo.hi + 1)])
    mats = {k_: v_ for k_, v_ in mats.items() if not k_.startswith('mpo_onsite/')}
    if not finite:
        for k in (geo.lo, geo.hi):
            if k in onsite:
                edge_corr = edge_corr + 0.5 * onsite[k]
    Href_bond = Href - edge_corr

    def cmp(name, ref, key=None, what=None):
        if name in mats:
            d = maxdiff(mats[name], ref)
            if d > tol:
                problems.append((key or 'C10:' + name, '%s differs from the reference operator by %.3e' % (what or name, d)))
            return True
        return False
    cmp('H_mpo_contract', Href, what='MPO (contraction of the W tensors from IdL to IdR)')
    cmp('H_ed_mpo', Href, what='ExactDiag.build_full_H_from_mpo')
    cmp('H_ed_from_H_mpo', Href, what='ExactDiag.from_H_mpo')
    cmp('H_bond_window', Href_bond, what='sum of H_bond (calc_H_bond)')
    cmp('H_ed_bond', Href, what='ExactDiag.build_full_H_from_bonds')
    Href_from_bond = Href
    if not finite and 'H_mpo_from_bond' in mats and N >= 2 * r['L']:
        # calc_H_MPO_from_bond moves the partial traces of every bond operator into on-site terms; on a window of an
        # infinite system the two bonds cut by the window edges leave those on-site parts behind
        Lc = r['L']
        geo2 = O.Geometry(r, lo=Lc - 1, hi=Lc)
        dense2 = O.Dense(geo2, ops, r['needs_JW'])
        if is_spec:
            H2, os2, _ = O.expected_from_spec(case['spec'], dense2)
            if case['spec'].get('explicit_plus_hc'):
                H2 = 0.5 * (H2 + H2.conj().T)
                os2 = {k: 0.5 * (m_ + m_.conj().T) for k, m_ in os2.items()}
        elif 'onsite' in r:
            H2, os2 = O.dense_from_containers(r, dense2)
        else:
            # a predefined model without term containers (e.g. AKLTChain): the on-site parts left behind by the two cut bonds
            # cannot be predicted from containers; use the bond operator of the implementation's own MPO on two sites
            H2, os2 = None, {}
        if H2 is None:
            mats.pop('H_mpo_from_bond', None)
            H2 = np.zeros((int(np.prod(dense2.dims)),) * 2)
        Cb = H2 - sum(os2.values()) if os2 else H2
        dL_, dR_ = dense2.dims
        C4 = Cb.reshape(dL_, dR_, dL_, dR_)
        tL = np.einsum('abcb->ac', C4) / dR_                      # acts on the left site of the bond
        C4 = C4 - np.einsum('ac,bd->abcd', tL, np.eye(dR_))
        tR = np.einsum('abad->bd', C4) / dL_                      # acts on the right site
        D_rest = int(np.prod(r['dims'][1:]))
        Href_from_bond = Href + np.kron(tR, np.eye(D_rest)) + np.kron(np.eye(int(np.prod(r['dims'][:-1]))), tL)
    cmp('H_mpo_from_bond', Href_from_bond, what='calc_H_MPO_from_bond')
    cmp('H_bond_from_mpo', Href_bond, what='calc_H_bond_from_MPO')
    cmp('H_sorted_legs', Href, what='MPO after sort_legcharges')
    cmp('H_bond_from_plain_MPOModel', Href_bond, what='MPOModel(lat, H_MPO).calc_H_bond_from_MPO')
    cmp('H_original_after_sorting_a_copy', Href, key='C10:MPO.copy-sort_legcharges:shared-IdL-IdR',
        what='the original MPO after H.copy().sort_legcharges()')
    cmp('H_enlarged', Href, what='MPO after enlarge_mps_unit_cell(2)')
    cmp('H_enlarged_bond', Href_bond, what='H_bond after enlarge_mps_unit_cell(2)')
    plain_strings = set(r.get('termlist_strings') or []) <= {'Id', 'JW'}
    oc = r.get('orig_after_enlarging_copy')
    if oc and (oc['lat_N_sites'] != oc['mpo_L'] or oc['copy_lat_N_sites'] != oc['copy_mpo_L']):
        problems.append(('C10:Model.copy-enlarge_mps_unit_cell:shared-lattice',
                         'after m2 = m.copy(); m2.enlarge_mps_unit_cell(2) the ORIGINAL model has a lattice of %d sites but an MPO of %d sites '
                         '(copy: %d / %d): the shallow copy shares the lattice, which is enlarged in place'
                         % (oc['lat_N_sites'], oc['mpo_L'], oc['copy_lat_N_sites'], oc['copy_mpo_L'])))
    if r.get('enlarged_then_segment_L') == N:
        cmp('H_enlarged_then_segment', Href, what='MPO of enlarge_mps_unit_cell(%d) followed by extract_segment()' % (N // r['L']))
    cmp('H_group_then_ed', Href, what='ExactDiag of the model after group_sites(2)')
    cmp('H_group_then_np', Href, what='get_numpy_Hamiltonian of the MPO model after group_sites(2)')
    cmp('H_ed_from_infinite_enlarge', Href, what='ExactDiag.from_infinite_model(model, enlarge=%d)' % (N // r['L']))
    cmp('H_ed_sparse', Href, what='ExactDiag(model, sparse=True).build_full_H_from_mpo')
    cmp('H_bond_from_MPOModel_cls', Href_bond, what='NearestNeighborModel.from_MPOModel(model).H_bond')
    cmp('H_enlarged3', Href, what='MPO after enlarge_mps_unit_cell(3)')
    cmp('H_enlarged3_bond', Href_bond, what='H_bond after enlarge_mps_unit_cell(3)')
    if r.get('segment_enlarge_L') == N:
        cmp('H_segment_enlarge', Href, what='MPO of extract_segment(enlarge=%d)' % (N // r['L']))
        cmp('H_segment_enlarge_bond', Href_bond, what='H_bond of extract_segment(enlarge=%d)' % (N // r['L']))
    elif 'segment_enlarge_L' in r:
        problems.append(('C10:H_segment_enlarge', 'extract_segment(enlarge=%d) has %d sites, expected %d' % (N // r['L'], r['segment_enlarge_L'], N)))
    if is_spec and (r.get('accessors') or {}).get('tl_from_lattice') is not None:
        sh_ = case['spec'].get('tl_shift') or [0] * (geo.dim + 1)
        r['tl_shifted'] = any(sh_)
        r['tl_from_lattice_expected'] = [
            [[[o, geo.mps_index([x_ + d_ for x_, d_ in zip(idx[:-1], sh_[:-1])], idx[-1] + sh_[-1])] for o, idx in c_['term']],
             [float(np.real(O.decode_strength(c_['strength']))), float(np.imag(O.decode_strength(c_['strength'])))]]
            for c_ in case['spec']['calls'] if c_['fn'] == 'add_local_term']
    problems.extend(check_extra(r, dense, Href, Href_bond, mats, tol, hermitian, scale))
    if 'termlist' in r and 'onsite' in r and not plain_strings:
        # a TermList stores no operator strings (documented): a model with other strings than Id / JW has no faithful term list
        ctx.cov['termlist_skipped_nontrivial_strings'] = ctx.cov.get('termlist_skipped_nontrivial_strings', 0) + 1
    if 'termlist' in r and 'onsite' in r and plain_strings:
        tl_problems, far = check_termlist(r, geo, dense, Href, Hc, mats, tol)
        problems.extend(tl_problems)
        ctx.count('termlist', [case.get('spec') or [case['module'], case['cls'], case['params']], case.get('variant')],
                  nontrivial=len(r['termlist']) > 0, sample={'terms': len(r['termlist']), 'beyond_first_cell': far, 'finite': finite})
        if far and not finite:
            ctx.cov['termlist_infinite_cases_with_terms_beyond_first_cell'] = ctx.cov.get('termlist_infinite_cases_with_terms_beyond_first_cell', 0) + 1
            if r.get('multi') and any(t['shift'] != 0 and t['right'] for t in r['multi']):
                ctx.cov['termlist_infinite_multi_shifted_right_part'] = ctx.cov.get('termlist_infinite_multi_shifted_right_part', 0) + 1
    def same_operator(m, ref):
        """equal (no charges: same basis) or, for charge-sorted grouped bases, equal spectrum of a Hermitian operator"""
        if m.shape != ref.shape:
            return False, 'shape %s' % (m.shape,)
        if r.get('trivial_charges'):
            d = maxdiff(m, ref)
            return d <= tol, 'differs by %.3e' % d
        if not hermitian:
            return True, 'not compared'
        if maxdiff(m, m.conj().T) > tol:
            return False, 'not Hermitian although the terms are'
        d = float(np.max(np.abs(np.linalg.eigvalsh(m) - np.linalg.eigvalsh(ref))))
        return d <= 1e-8 * scale, 'has a different spectrum (%.3e)' % d
    if 'H_group' in mats:
        ok, why = same_operator(mats['H_group'], Href)
        if not ok:
            problems.append(('C10:H_group', 'MPO after group_sites(2) ' + why))
    for nm_, what_ in (('H_group3', 'MPO after group_sites(3)'), ('H_group_given', 'MPO after group_sites(2, grouped_sites=...)')):
        if nm_ in mats:
            ok, why = same_operator(mats[nm_], Href)
            if not ok:
                problems.append(('C10:' + nm_, what_ + ' ' + why))
    if 'H_group3_bond' in mats and finite:
        ok, why = same_operator(mats['H_group3_bond'], Href_bond)
        if not ok:
            problems.append(('C10:H_group3_bond', 'H_bond after group_sites(3) ' + why))
    if 'H_group_bond' in mats and finite:
        # (on a window of an infinite system the bonds of grouped sites cut through the edge groups: not compared)
        ok, why = same_operator(mats['H_group_bond'], Href_bond)
        if not ok:
            key = 'C10:H_group_bond'
            L_ = r['L']
            if 'Hb_last' in mats and L_ % 2 == 0 and L_ >= 4 and r['dims'][L_ - 4:L_ - 2] == r['dims'][L_ - 2:]:
                # known defect: the bond inside the last group is put on the previous group
                dl = int(np.prod(r['dims'][:L_ - 4]))
                d2 = int(np.prod(r['dims'][L_ - 2:]))
                T = mats['Hb_last']
                pred = Href_bond - np.kron(np.eye(dl * d2), T) + np.kron(np.kron(np.eye(dl), T), np.eye(d2))
                if same_operator(mats['H_group_bond'], pred)[0]:
                    key = 'C10:NearestNeighborModel.group_sites:finite-last-group-bond-misplaced'
            problems.append((key, 'H_bond after group_sites(2) ' + why))
    # exporters
    perms = [r['perm'][k % r['L']] for k in range(N)]
    if finite:
        Hconv = O.undo_sort(Href, perms, r['dims'])
        # candidates that explain a wrong CouplingModel exporter (see KNOWN findings)
        cand = {}
        if 'termlist' in r and is_spec or ('termlist' in r and r.get('is_coupling_model')):
            Hl = np.zeros_like(Href)
            for term, st in r['termlist'] + r.get('termlist_exp', []):
                w = {k: o for o, k in term}
                if all(0 <= k < N for k in w):
                    Hl = Hl + complex(*st) * dense.tensor(w)
            cand['nostring-hc'] = Hl + Hl.conj().T if r['explicit_plus_hc'] else Hl
            if r['explicit_plus_hc']:
                if Hc is not None:
                    cand['string-nohc'] = O.dense_from_containers(dict(r, explicit_plus_hc=False), dense)[0]
                cand['nostring-nohc'] = Hl
        for nm, undo in (('H_np', True), ('H_np_noundo', False), ('H_sp', True), ('H_sp_noundo', False),
                         ('H_np_mpomodel', True), ('H_np_mpomodel_noundo', False), ('H_np_nnmodel', True),
                         ('H_np_nnmodel_noundo', False), ('H_np_both_from_bond', True), ('H_np_both_from_mpo', True)):
            if nm not in mats:
                continue
            ref = Hconv if undo else Href
            d = maxdiff(mats[nm], ref)
            if d <= tol:
                continue
            key = 'C10:exporter:' + nm
            expl = ''
            if nm in ('H_np', 'H_np_noundo', 'H_sp', 'H_sp_noundo'):
                for cn, cm in cand.items():
                    cm2 = O.undo_sort(cm, perms, r['dims']) if undo else cm
                    if maxdiff(mats[nm], cm2) <= tol:
                        if cn == 'string-nohc':
                            key = 'C10:_get_Hamiltonian_from_couplings:ignores-explicit_plus_hc'
                        elif cn == 'nostring-hc':
                            key = 'C10:_get_Hamiltonian_from_couplings:ignores-op_string'
                        else:
                            key = 'C10:_get_Hamiltonian_from_couplings:ignores-op_string-and-explicit_plus_hc'
                        expl = ' (equals the dense matrix of %s)' % cn
                        break
            problems.append((key, '%s differs from the reference operator by %.3e%s' % (nm, d, expl)))
    # segment
    seg = (case.get('spec') or case).get('segment')
    if seg == 'auto':
        seg = r.get('segment')
    if 'H_segment' in mats and seg is not None:
        a, b = seg
        geo_s = O.Geometry(r, lo=a, hi=b)
        dense_s = O.Dense(geo_s, ops, r['needs_JW'])
        if is_spec:
            Hs, onsite_s, _ = O.expected_from_spec(case['spec'], dense_s)
            if case['spec'].get('explicit_plus_hc'):
                Hs = 0.5 * (Hs + Hs.conj().T)
                onsite_s = {k: 0.5 * (m + m.conj().T) for k, m in onsite_s.items()}
        else:
            Hs, onsite_s = O.dense_from_containers(r, dense_s) if 'onsite' in r else (None, {})
        if Hs is not None:
            d = maxdiff(mats['H_segment'], Hs)
            if d > tol:
                problems.append(('C10:H_segment', 'MPO of extract_segment(%d, %d) differs from the terms inside the segment by %.3e' % (a, b, d)))
            if 'H_ed_from_infinite' in mats:
                d = maxdiff(mats['H_ed_from_infinite'], Hs)
                if d > tol:
                    problems.append(('C10:H_ed_from_infinite', 'ExactDiag.from_infinite_model(first=%d, last=%d) differs from the terms '
                                     'inside the segment by %.3e' % (a, b, d)))
            if 'H_segment_bond' in mats:
                corr = 0
                # bonds of a segment: on-site terms of the edge sites that are not boundary sites of a finite chain count half
                for k in (a, b):
                    if k in onsite_s and not (finite and k in (0, r['L'] - 1)):
                        corr = corr + 0.5 * onsite_s[k]
                    elif k in onsite_s and finite and b - a == 0:
                        pass
                d = maxdiff(mats['H_segment_bond'], Hs - corr)
                if d > tol:
                    problems.append(('C10:H_segment_bond', 'H_bond of extract_segment(%d, %d) differs by %.3e' % (a, b, d)))
    # hermiticity
    if 'is_hermitian' in r and float(np.max(np.abs(Href))) > 1e-6:
        if hermitian and finite and not r['is_hermitian']:
            problems.append(('C10:is_hermitian', 'terms are Hermitian but H_MPO.is_hermitian() is False'))
        if (not hermitian) and herm_defect > 1e-3 * scale and r['is_hermitian']:
            key_h = 'C10:is_hermitian'
            if (not finite and (r.get('exp') or {}).get('exp') and r.get('mpo_max_range') not in (None, 'inf')):
                # known: calc_H_MPO overwrites max_range = inf of the graph by the range of the coupling terms, and the window
                # of is_equal for infinite MPOs is L + 2 * max_range sites
                key_h = 'C10:calc_H_MPO:max_range-ignores-exponentially-decaying-terms'
            problems.append((key_h, 'operator is not Hermitian (defect %.2e) but H_MPO.is_hermitian() is True' % herm_defect))
    # a nearest-neighbour Hamiltonian must have a bond form
    if 'no_bond' in r and 'onsite' in r:
        nn = not r['exp']['exp'] and not r['exp']['centered']
        for e_ in (r.get('coupling') or []):
            nn = nn and e_[3] == e_[0] + 1
        for t_ in (r.get('multi') or []):
            ks_ = [k_ for k_, o_ in t_['word'] if o_ != 'Id']
            nn = nn and len(t_['word']) == 2 and t_['word'][1][0] == t_['word'][0][0] + 1
        if nn and r['no_bond'].startswith('AssertionError') and any(
                t_['left'] and not t_['right'] and t_['op_sw'] == t_['left'][-1][2] and t_['op_sw'] != 'Id' for t_ in (r.get('multi') or [])):
            problems.append(('C10:MultiCouplingTerms.to_TermList:switch-operator-named-like-op_string',
                             'calc_H_bond raised (%s): MultiCouplingTerms.to_TermList drops the operator on the switchLR site of a stored term '
                             'because its name equals the operator string left of it' % r['no_bond']))
        elif nn and (r.get('coupling') or r.get('multi') or r.get('onsite')):
            problems.append(('C10:calc_H_bond:raises', 'calc_H_bond raised (%s) although all terms are on-site or nearest-neighbour' % r['no_bond']))
    # every representation must have been produced
    # consequences of MPO.sort_legcharges (finding F112): a model built with sort_mpo_legs=True on an infinite lattice with a
    # non-trivial charge shift holds an MPO whose first wL and last wR leg are incompatible (the runner verified: the MPO before
    # sorting passes test_sanity, the sorted one does not); every contraction across the unit-cell boundary then raises
    sorted_model = bool((case.get('spec') or case.get('params') or {}).get('sort_mpo_legs'))
    broken_by_sort = (sorted_model and not finite and not r.get('trivial_shift', True) and r.get('sort_legs_breaks_sanity') is True)
    seg_ = (case.get('spec') or case).get('segment')
    seg_ = r.get('segment') if seg_ == 'auto' else seg_
    seg_len = (seg_[1] - seg_[0] + 1) if seg_ else None
    for nm, e in r['errors'].items():
        if nm.startswith('mpo_onsite/'):
            continue
        key = 'C10:raises:' + nm
        if nm == 'H_mpo_from_bond' and ('chinfo' in e or 'SVD found no singular values' in e) and O.is_onsite_only(Href, r['dims'], 1e-9 * scale):
            key = 'C10:calc_H_MPO_from_bond:no-two-site-coupling'
        if nm in ('H_np', 'H_np_noundo', 'H_sp', 'H_sp_noundo') and ('broadcast' in e or 'inconsistent shapes' in e) and any(
                t['i'] > min(t['subsites']) for t in (r.get('exp') or {}).get('centered', [])):
            key = 'C10:_get_Hamiltonian_from_couplings:centered-terms-not-site-ordered'
        if nm == 'H_ed_from_H_mpo' and 'lattice incompatible with H_MPO.sites' in e and not r.get('trivial_shift', True):
            key = 'C10:ExactDiag.from_H_mpo:nontrivial-charge-shift'
        if nm == 'H_sorted_legs' and 'incompatible LegCharge' in e and not r.get('trivial_shift', True) and not finite:
            key = 'C10:MPO.sort_legcharges:infinite-nontrivial-charge-shift'
        if nm == 'is_hermitian' and 'incompatible LegCharge' in e and not r.get('trivial_shift', True) and not finite:
            key = 'C10:MPO.dagger:infinite-nontrivial-charge-shift'
        if nm in ('H_bond_from_plain_MPOModel', 'H_bond_from_mpo') and "no attribute 'explicit_plus_hc'" in e:
            key = 'C10:MPOModel.calc_H_bond_from_MPO:explicit_plus_hc-attribute'
        if nm == 'bond_energies' and not finite and ('incompatible' in e or 'shape' in e or 'dimension' in e.lower()) and (
                len(set(r['dims'][:r['L']])) > 1 or len(set(str(q_) for q_ in (r.get('qflat') or [])[:r['L']])) > 1):
            # (H_bond[j] evaluated on the sites (j, j+1): the legs do not fit when the sites of the unit cell differ)
            key = 'C10:NearestNeighborModel.bond_energies:infinite-shifted-by-one-site'
        if nm == 'bond_energies' and "'NoneType' object has no attribute" in e and any(r.get('H_bond_none', [])[(1 if finite else 0):]):
            key = 'C10:NearestNeighborModel.bond_energies:None-bond'
        if nm == 'H_ed_from_infinite' and ('full_H has 3 legs' in e or "Label not found: 'wR'" in e) and seg_len == 1:
            key = 'C10:ExactDiag.build_full_H_from_mpo:single-site'
        if (nm in ('H_segment', 'H_segment_enlarge', 'H_ed_from_infinite', 'H_ed_from_infinite_enlarge') and 'incompatible LegCharge' in e
                and not r.get('trivial_shift', True) and not finite and (seg_ is None or nm.endswith('enlarge') or seg_[1] >= r['L'])):
            key = 'C10:MPO.extract_segment:charge-shift-beyond-first-unit-cell'
        if nm == 'H_group_then_ed' and finite and r['L'] <= 2 and ('AssertionError' in e or "Label not found: 'wR'" in e):
            key = 'C10:ExactDiag.build_full_H_from_mpo:single-site'       # (two sites grouped into one)
        if broken_by_sort and 'incompatible LegCharge' in e:
            key = 'C10:MPO.sort_legcharges:infinite-nontrivial-charge-shift'
        problems.append((key, 'representation %s raised %s' % (nm, e)))
    # family invariance (explicit_plus_hc, manual h.c., conserve options, sort_mpo_legs): same operator
    fkey = case['family']
    if finite:
        conv = O.undo_sort(Href, perms, r['dims'])
    else:
        conv = O.undo_sort(Href, perms, r['dims'])
    if is_spec or case['kind'] == 'predefined':
        sig = (N, tuple(r['dims']))
        if (is_spec and not Hspec_hermitian) or r.get('grouped_sites'):
            pass        # (grouped sites: the charge-sorted basis of a GroupedSite is not described by Site.perm)
        elif fkey in fam_store and fam_store[fkey][0] == sig:
            d = maxdiff(fam_store[fkey][1], conv)
            if d > tol:
                if is_spec:
                    ctx.fail('correspondence', 'harness: expected operators of the variants of one family differ (%.3e)' % d, label)
                else:
                    problems.append(('C10:conserve-variants', 'the model with %r differs from the variant %r of the same model by %.3e'
                                     % (case['variant'], fam_store[fkey][2], d)))
        else:
            fam_store[fkey] = (sig, conv, case['variant'])
    stream = 'models' if is_spec else 'predefined'
    keyobj = case['spec'] if is_spec else [case['module'], case['cls'], case['params']]
    ctx.count(stream, keyobj, nontrivial=nterms > 0,
              sample={'lattice': (case.get('spec') or {}).get('lattice', case.get('cls')), 'N': N, 'reps': sorted(mats)[:12], 'terms': nterms})
    seen = set()
    for key, text in problems:
        if key in seen:
            continue
        seen.add(key)
        ctx.fail('oracle', text, dict(label, impl_errors=r['errors']), match_key=key)
    return {'r': r, 'geo': geo, 'problems': problems}


# ------------------------------------------------------------------------------------------
# Coq stream
# ------------------------------------------------------------------------------------------

def coq_cases_for(case, r, geo):
    """literals for check_build / check_denote from the implementation's graph, grids and containers"""
    out = {'build': None, 'build_multi': None, 'denote': [], 'why_skipped': None}
    if 'graph' not in r or 'onsite' not in r:
        out['why_skipped'] = 'no graph'
        return out
    terms = O.container_terms(r, geo)
    L = r['L']
    reps = r['N'] // L
    lit = Lit()
    g = lit.graph(r['graph'] * reps)
    p = lit.poly(terms)
    if lit.ok:
        out['denote'].append('(%s, %s)' % (g, p))
    else:
        out['why_skipped'] = 'non-integer strengths'
        return out
    lit2 = Lit()
    g2 = lit2.graph(grid_edges(r['grids']) * reps)
    p2 = lit2.poly(terms)
    if lit2.ok:
        out['denote'].append('(%s, %s)' % (g2, p2))
    if r['finite'] and r.get('coupling') is not None and not r['exp']['exp'] and not r['exp']['centered']:
        lit3 = Lit()
        ots = '[' + '; '.join('mkOT %d%%nat %s %s' % (i, z(lit3.op(op)), lit3.c(st)) for i, op, st in r['onsite']) + ']'
        cts = '[' + '; '.join('mkCT %d%%nat %s %s %d%%nat %s %s' % (i, z(lit3.op(a)), z(lit3.op(s)), j, z(lit3.op(b)), lit3.c(st))
                              for i, a, s, j, b, st in r['coupling']) + ']'
        g3 = lit3.graph(r['graph'])
        # (typed empty lists: a shard in which every case has no on-site / no coupling terms must still type-check)
        ots = '(@nil oterm)' if ots == '[]' else ots
        cts = '(@nil cterm)' if cts == '[]' else cts
        if lit3.ok:
            out['build'] = '(%d%%nat, %s, %s, %s)' % (L, ots, cts, g3)
    if (r['finite'] and r.get('multi') is not None and not r['exp']['exp'] and not r['exp']['centered']
            and all('left' in t and t.get('shift') == 0 for t in r['multi'])):
        # MultiCouplingTerms.add_to_graph: the Coq model add_mterm rebuilds the graph from the stored form
        lit4 = Lit()
        ots = '[' + '; '.join('mkOT %d%%nat %s %s' % (i, z(lit4.op(op)), lit4.c(st)) for i, op, st in r['onsite']) + ']'
        mts = '[' + '; '.join('mkMT %s %s %d%%nat %s %s' % (
            '[' + '; '.join('(%d%%nat, %s, %s)' % (i, z(lit4.op(a)), z(lit4.op(s))) for i, a, s in t['left']) + ']',
            '[' + '; '.join('(%d%%nat, %s, %s)' % (i, z(lit4.op(a)), z(lit4.op(s))) for i, a, s in t['right']) + ']',
            t['sw'], z(lit4.op(t['op_sw'])), lit4.c(t['strength'])) for t in r['multi']) + ']'
        g4 = lit4.graph_m(r['graph'])
        ots = '(@nil oterm)' if ots == '[]' else ots
        mts = '(@nil mterm)' if mts == '[]' else mts
        if lit4.ok:
            out['build_multi'] = '(%d%%nat, %s, %s, %s)' % (L, ots, mts, g4)
    return out


# ------------------------------------------------------------------------------------------
# tie streams: Model/BondSum.v (c10_bond), Model/ExpDecay.v (c10_expdecay), split_term (c10_split)
# ------------------------------------------------------------------------------------------

def gen_tie_specs(rng, n_bond, n_exp):
    """chain models with exact strengths aimed at the Coq models of calc_H_bond (on-site + nearest-neighbour terms, finite and
    infinite) and of ExponentiallyDecayingTerms.add_to_graph (finite, uniform Gaussian-integer lambda, default subsites)"""
    cases = []
    for n in range(n_bond + n_exp):
        want_exp = n >= n_bond
        for _try in range(40):
            infinite = (not want_exp) and rng.random() < 0.4
            L = rng.choice([1, 2, 2, 3]) if infinite else rng.choice([2, 3, 4, 5, 6])
            nwin = 1
            if infinite:
                nwin = rng.choice([2, 3]) if L <= 2 else 2
            sites = gen_sites(rng, 1, L * nwin)
            if sites is None:
                continue
            T = SITES[sites[0]['type']]
            lat = {'kind': 'Chain', 'Ls': [L], 'bc': 'periodic' if infinite else 'open', 'bc_MPS': 'infinite' if infinite else 'finite'}
            calls = []

            def onsite_or_coupling(maxdx):
                plus_hc = rng.random() < 0.35
                k = rng.choice(['onsite', 'coupling', 'coupling', 'onsite_term', 'coupling_term'])
                if k == 'onsite':
                    ops = T['onsite0'] + (T['onsite1'] if level(sites[0]) else [])
                    return {'fn': 'add_onsite', 'strength': rand_strength(rng, [L], True), 'u': 0, 'op': rng.choice(ops), 'plus_hc': plus_hc}
                if k == 'onsite_term':
                    ops = T['onsite0'] + (T['onsite1'] if level(sites[0]) else [])
                    return {'fn': 'add_onsite_term', 'strength': rand_strength(rng, None, True, allow_array=False),
                            'i': rng.randrange(L), 'op': rng.choice(ops), 'plus_hc': plus_hc}
                dx = rng.randint(1, maxdx)
                if k == 'coupling':
                    pr = pick_pair(rng, sites, 0, 0)
                    if infinite:
                        shape = [L]
                    else:
                        shape = [L - dx]
                    if shape[0] <= 0:
                        return None
                    if rng.random() < 0.25:
                        dx = -dx        # (the coupling is reordered to i < j by add_coupling)
                    return {'fn': 'add_coupling', 'strength': rand_strength(rng, shape, True), 'u1': 0, 'op1': pr[0], 'u2': 0, 'op2': pr[1],
                            'dx': [dx], 'plus_hc': plus_hc}
                prs = [q for q in T['pairs0'] if q[0] not in T['fer']]
                if not prs:
                    return None
                pr = rng.choice(prs)
                i = rng.randrange(L)
                if not infinite and i + dx >= L:
                    return None
                return {'fn': 'add_coupling_term', 'strength': rand_strength(rng, None, True, allow_array=False), 'i': i, 'j': i + dx,
                        'op_i': pr[0], 'op_j': pr[1], 'op_string': 'Id', 'plus_hc': plus_hc}
            if want_exp:
                for _ in range(rng.choice([1, 1, 2])):
                    pr = pick_pair(rng, sites, 0, 0)
                    lam = rng.choice([1, 2, -1, 3, -2])
                    lam_enc = enc(np.array(lam), 'int' if rng.random() < 0.5 else 'float')
                    if rng.random() < 0.3:
                        lam_enc = enc(np.array(complex(rng.choice([1, 2, 0, -1]), rng.choice([1, -1, 2]))), 'complex')
                    calls.append({'fn': 'add_exponentially_decaying_coupling', 'strength': rand_strength(rng, None, True, allow_array=False),
                                  'lambda': lam_enc, 'op_i': pr[0], 'op_j': pr[1], 'plus_hc': rng.random() < 0.3})
                for _ in range(rng.choice([0, 0, 1, 2])):
                    c = onsite_or_coupling(2)
                    if c is not None:
                        calls.append(c)
                rng.shuffle(calls)
            else:
                for _ in range(rng.choice([1, 2, 3, 4])):
                    c = onsite_or_coupling(1)
                    if c is not None:
                        calls.append(c)
            if not calls:
                continue
            spec = {'lattice': lat, 'sites': sites, 'explicit_plus_hc': False, 'calls': calls}
            cases.append({'kind': 'spec', 'spec': spec, 'nwin': nwin, 'family': 'T%d' % n, 'variant': 'base', 'exact': True,
                          'want': ['bond'], 'tie': 'exp' if want_exp else 'bond'})
            break
    return cases


def gen_termlist_specs(rng, n):
    """models whose summed coupling terms are a MultiCouplingTerms container, mostly on infinite chains / ladders with unit cells of
    2..4 sites, so that terms reach beyond the first unit cell (stored folded back with a unit-cell shift): aimed at the term list
    (to_TermList) <-> containers <-> MPO comparison.  Only the containers, the term list and the MPO are exported (cheap)."""
    cases = []
    for n_ in range(n):
        for _try in range(300):
            kind = rng.choice(['Chain', 'Chain', 'Chain', 'Ladder'])
            infinite = rng.random() < 0.85
            if kind == 'Chain':
                Ls = [rng.choice([2, 3, 4, 4]) if infinite else rng.choice([4, 5, 6])]
            else:
                Ls = [rng.choice([1, 2]) if infinite else 3]
            nu = LATTICES[kind][1]
            nwin = 2 if infinite else 1
            N = Ls[0] * nu * nwin
            if N > 8:
                continue
            lat = {'kind': kind, 'Ls': Ls, 'bc': 'periodic' if infinite else rng.choice(['open', 'open', 'periodic']),
                   'bc_MPS': 'infinite' if infinite else 'finite'}
            sites = gen_sites(rng, nu, N)
            if sites is None:
                continue
            exact = rng.random() < 0.5
            explicit = rng.random() < 0.2
            calls = [c for c in gen_calls(rng, lat, 1, nu, sites, exact, explicit) if not c['fn'].startswith('add_exponentially')]
            if not any(c['fn'] in ('add_multi_coupling', 'add_multi_coupling_term') or (c['fn'] == 'add_local_term' and len(c['term']) >= 3)
                       for c in calls):
                continue
            for c in calls:
                if c['fn'] == 'add_multi_coupling' and rng.random() < 0.5 and (infinite or lat['bc'] == 'periodic'):
                    # site-dependent strength (one entry per cell along the chain)
                    c['strength'] = rand_strength(rng, Ls, exact, exact and explicit and not c.get('plus_hc'))
            spec = {'lattice': lat, 'sites': sites, 'explicit_plus_hc': explicit, 'calls': calls}
            cases.append({'kind': 'spec', 'spec': spec, 'nwin': nwin, 'family': 'L%d' % n_, 'variant': 'base', 'exact': exact,
                          'want': ['termlist'], 'tie': 'termlist'})
            break
    return cases


def bond_literal(r):
    """case of check_bond (coq/Model/AutomatonTieCheck.v): the containers and the implementation's H_bond, every H_bond[j]
    decomposed into named operator products with exact (doubled) Gaussian-integer coefficients.
    Returns (literal or None, reason skipped or None, problem text or None)."""
    if 'H_bond_none' not in r or r.get('coupling') is None or 'onsite' not in r:
        return None, None, None
    if r['explicit_plus_hc']:
        return None, 'bond: explicit_plus_hc', None
    L, finite = r['L'], r['finite']
    npz = np.load(r['npz'])
    nu = len(r['needs_JW'])
    ops = O.load_ops(npz, nu)

    def u_of(k):
        return r['order'][k % L][-1]
    lit = Lit()
    ots = '[' + '; '.join('mkOT %d%%nat %s %s' % (i, z(lit.op(op)), lit.c(st)) for i, op, st in r['onsite']) + ']'
    cts = '[' + '; '.join('mkCT %d%%nat %s %s %d%%nat %s %s' % (i, z(lit.op(a)), z(lit.op(s_)), j, z(lit.op(b)), lit.c(st))
                          for i, a, s_, j, b, st in r['coupling']) + ']'
    if not lit.ok:
        return None, 'bond: non-integer strengths', None
    ots = '(@nil oterm)' if ots == '[]' else ots
    cts = '(@nil cterm)' if cts == '[]' else cts
    all_pairs = []
    for i, a, s_, j, b, st in r['coupling']:
        if (a, b) not in all_pairs:
            all_pairs.append((a, b))
    all_onsite = []
    for i, op, st in r['onsite']:
        if op not in all_onsite:
            all_onsite.append(op)
    bonds = []
    for j in range(L):
        i0 = (j - 1) % L
        uL, uR = u_of(i0), u_of(j)
        if r['H_bond_none'][j]:
            bonds.append('(true, @nil lmono)')
            continue
        M = npz['Hb/%d' % j]
        pred = []
        for i, op, st in r['onsite']:
            if i == j and ('Id', op) not in pred:
                pred.append(('Id', op))
        for i, op, st in r['onsite']:
            if i == i0 and (op, 'Id') not in pred:
                pred.append((op, 'Id'))
        for i, a, s_, jj, b, st in r['coupling']:
            if jj % L == j and (a, b) not in pred:
                pred.append((a, b))
        extra = [('Id', 'Id')] + all_pairs + [('Id', op) for op in all_onsite] + [(op, 'Id') for op in all_onsite]
        basis, cols = [], []
        Q = np.zeros((M.size, 0), dtype=complex)
        for n, (a, b) in enumerate(pred + [e for e in extra if e not in pred]):
            if a not in ops[uL] or b not in ops[uR]:
                if n < len(pred):
                    return None, None, 'H_bond[%d]: operator %r / %r of the containers unknown on the sites of the bond' % (j, a, b)
                continue
            v = np.kron(ops[uL][a], ops[uR][b]).astype(complex).reshape(-1)
            if v.size != M.size:
                return None, None, 'H_bond[%d] has %d entries, expected %d' % (j, M.size, v.size)
            w = v - Q @ (Q.conj().T @ v)
            w = w - Q @ (Q.conj().T @ w)
            if np.linalg.norm(w) <= 1e-9 * max(1.0, np.linalg.norm(v)):
                if n < len(pred):
                    return None, 'bond: linearly dependent operator names', None
                continue
            Q = np.concatenate([Q, (w / np.linalg.norm(w)).reshape(-1, 1)], axis=1)
            basis.append((a, b))
            cols.append(v)
        A = np.array(cols).T if cols else np.zeros((M.size, 0), dtype=complex)
        y = M.astype(complex).reshape(-1)
        x = np.linalg.lstsq(A, y, rcond=None)[0] if cols else np.zeros(0)
        res = float(np.max(np.abs(A @ x - y))) if M.size else 0.0
        if res > 1e-9 * max(1.0, float(np.max(np.abs(y)))):
            return None, None, ('H_bond[%d] is not a combination of the named operator products of the containers (residual %.2e, '
                                'products %r)' % (j, res, basis))
        ms = []
        for (a, b), cf in zip(basis, x):
            g = gauss([2 * cf.real, 2 * cf.imag])
            if g is None:
                return None, None, 'H_bond[%d]: coefficient %r of %s (x) %s is not half of a Gaussian integer' % (j, complex(cf), a, b)
            if g != (0, 0):
                ms.append('((%s, %s), %s, %s)' % (z(g[0]), z(g[1]), z(lit.op(a)), z(lit.op(b))))
        bonds.append('(false, [%s])' % '; '.join(ms) if ms else '(false, @nil lmono)')
    return '(%s, %d%%nat, %s, %s, [%s])' % ('true' if finite else 'false', L, ots, cts, '; '.join(bonds)), None, None


def exp_literal(r):
    """case of check_expdecay_all: containers, exp_decaying_terms (uniform Gaussian-integer lambda, default subsites) and the
    implementation's graph of MPOGraph.from_terms((ot, ct, edt)) on a finite chain"""
    import re
    if not r.get('finite') or r.get('coupling') is None or 'graph' not in r or 'onsite' not in r:
        return None, None
    ex = r['exp']
    if not ex['exp'] or ex['centered']:
        return None, None
    L = r['L']
    lit = Lit()
    xts = []
    for t in ex['exp']:
        if t['subsites'] != list(range(L)) or t['subsites_start'] != list(range(L)):
            return None, 'exp: subsites'
        if any(x != t['lambda'][0] for x in t['lambda']):
            return None, 'exp: non-uniform lambda'
        xts.append('mkXT %s %s %s %s %s' % (z(lit.op(t['op_i'])), z(lit.op(t['op_string'])), z(lit.op(t['op_j'])),
                                           lit.c(t['lambda'][0]), lit.c(t['strength'])))
    ots = '[' + '; '.join('mkOT %d%%nat %s %s' % (i, z(lit.op(op)), lit.c(st)) for i, op, st in r['onsite']) + ']'
    cts = '[' + '; '.join('mkCT %d%%nat %s %s %d%%nat %s %s' % (i, z(lit.op(a)), z(lit.op(s_)), j, z(lit.op(b)), lit.c(st))
                          for i, a, s_, j, b, st in r['coupling']) + ']'

    ots = '(@nil oterm)' if ots == '[]' else ots
    cts = '(@nil cterm)' if cts == '[]' else cts

    def k(x):
        if isinstance(x, str):
            m = re.match(r"^K:\((\d+), 'exp-decay'\)$", x)
            if m:
                return int(m.group(1))
        return x
    graph = [[[k(kl), k(kr), op, st] for kl, kr, op, st in es] for es in r['graph']]
    g = lit.graph(graph)
    if lit.keys:
        return None, 'exp: unknown keys'
    if not lit.ok:
        return None, 'exp: non-integer strengths'
    return '(%d%%nat, %s, %s, [%s], %s)' % (L, ots, cts, '; '.join(xts), g), None


def gen_split_cases(rng, n):
    """arguments of MultiCouplingTerms.add_multi_coupling_term on finite chains (all sites < L)"""
    names = ['A', 'B', 'Cd', 'C', 'N', 'Sz', 'Id']
    strs = ['Id', 'JW', 'X', 'Id']
    out = []
    for _ in range(n):
        L = rng.randint(2, 9)
        nops = rng.randint(2, min(5, L))
        ijkl = sorted(rng.sample(range(L), nops))
        ops = [rng.choice(names) for _ in ijkl]
        if rng.random() < 0.3:
            op_string = rng.choice(strs)
        else:
            op_string = [rng.choice(strs) for _ in ijkl[1:]]
        sw = rng.choice(['middle_i', 'middle_op', None, 'int', 'int', 'edge'])
        if sw == 'int':
            sw = rng.randint(ijkl[0], ijkl[-1])
        elif sw == 'edge':
            sw = rng.choice([ijkl[0], ijkl[-1]])
        st = rng.choice([[1, 0], [2, 0], [-3, 0], [2, 1], [0, -1]])
        out.append({'L': L, 'ijkl': ijkl, 'ops': ops, 'op_string': op_string, 'switchLR': sw,
                    'strength': {'re': st[0], 'im': st[1], 'dtype': 'complex' if st[1] else 'int'}})
        if nops == 2 and isinstance(op_string, str):
            # (MultiCouplingTerms.add_coupling_term(..., switchLR) is the two-site front end of add_multi_coupling_term)
            out[-1]['via_add_coupling_term'] = True
    return out


def split_literal(c, res):
    lit = Lit()
    nops = len(c['ijkl'])
    strs = c['op_string'] if isinstance(c['op_string'], list) else [c['op_string']] * (nops - 1)
    ops = '[' + '; '.join('(%d%%nat, %s)' % (i, z(lit.op(o))) for i, o in zip(c['ijkl'], c['ops'])) + ']'
    ss = '[' + '; '.join(z(lit.op(s_)) for s_ in strs) + ']'
    sw = c['switchLR']
    spec = -1 if sw in ('middle_i', None) else (-2 if sw == 'middle_op' else int(sw))
    w = lit.c([c['strength']['re'], c['strength']['im']])
    if 'error' in res or len(res.get('stored', [])) != 1 or res['stored'][0]['shift'] != 0:
        return None
    t = res['stored'][0]
    mt = 'mkMT %s %s %d%%nat %s %s' % (
        '[' + '; '.join('(%d%%nat, %s, %s)' % (i, z(lit.op(a)), z(lit.op(s_))) for i, a, s_ in t['left']) + ']',
        '[' + '; '.join('(%d%%nat, %s, %s)' % (i, z(lit.op(a)), z(lit.op(s_))) for i, a, s_ in t['right']) + ']',
        t['sw'], z(lit.op(t['op_sw'])), lit.c(t['strength']))
    return '(%s, %s, %s, %s, %s)' % (ops, ss, z(spec), w, mt)


def main(ctx):
    rng = ctx.rng
    ctx.proof = common.check_proofs('C10', extra_targets=['Model/AutomatonTieCheck.vo'])
    nfam = ctx.pick(170, 1500)
    per_class = ctx.pick(1, 6)
    if not ctx.proof.ok:
        nfam = int(nfam * 1.6)
    cases = []
    replay = None
    if ctx.replay_in:
        import json
        replay = json.load(open(ctx.replay_in)).get('input') or {}
        if isinstance(replay.get('case'), dict):
            cases.append(replay['case'])
            nfam, per_class = 0, 0
    for c in common.corpus_cases('C10'):
        cases.append(c['case'])
    for fid in range(nfam):
        cases.extend(gen_family(rng, 'F%d' % fid))
    if not ctx.thorough():
        # quick tier: the additional accessors (wave functions, charge sectors, bond energies, non-default grouping, ...) on the
        # base and CouplingMPOModel variants of every family and on half of the other variants
        for c in cases:
            if c.get('kind') == 'spec' and c.get('variant') not in ('base', 'via-CouplingMPOModel') and 'want' not in c and rng.random() < 0.5:
                c['want'] = ['bond', 'exporters', 'convert', 'options']
    # predefined models
    models, err = common.run_impl('c10_impl.py', {'kind': 'list_models'})
    if err:
        ctx.fail('correspondence', 'cannot list tenpy.models: ' + err[-400:], None)
        models = []
    pre = gen_predefined(rng, models, per_class) if per_class else []
    ctx.cov['predefined_model_classes'] = sorted(set('%s.%s' % (m, c) for m, c, _ in models if c))
    cases.extend(pre)
    if nfam:
        # (generated last: the random sequences of the older streams stay as they were)
        cases.extend(gen_tie_specs(rng, ctx.pick(90, 600), ctx.pick(70, 500)))
        cases.extend(gen_termlist_specs(rng, ctx.pick(80, 600)))
        cases.extend(gen_option_specs(rng, ctx.pick(1, 5)))
    # ---- implementation
    nchunk = common.NPROC
    order = list(range(len(cases)))
    chunks = [order[i::nchunk] for i in range(nchunk)]
    res = common.run_impl_parallel('c10_impl.py', [{'cases': [cases[i] for i in ch], 'trace': True} for ch in chunks if ch], timeout=1500)
    results = [None] * len(cases)
    trace_lines, trace_opts = {}, {}

    def merge_trace(tr):
        for f_, ls_ in (tr.get('lines') or {}).items():
            trace_lines.setdefault(f_, set()).update(ls_)
        for q_, d_ in (tr.get('options') or {}).items():
            for k_, vs_ in d_.items():
                trace_opts.setdefault(q_, {}).setdefault(k_, set()).update(vs_)
    for ch, (r, err) in zip([c for c in chunks if c], res):
        if err:
            ctx.fail('correspondence', 'implementation runner failed: ' + err[-600:], None)
            continue
        merge_trace(r.get('trace') or {})
        for i, x in zip(ch, r['results']):
            results[i] = x
    # ---- oracle + literals
    fam_store = {}
    build_cases, build_idx, den_cases, den_idx = [], [], [], []
    bm_cases, bm_idx = [], []
    bond_cases, bond_idx, exp_cases, exp_idx = [], [], [], []
    skipped = {}
    for idx, (case, r) in enumerate(zip(cases, results)):
        if r is None:
            continue
        try:
            info = check_case(ctx, case, r, fam_store)
        except Exception as e:
            import traceback
            ctx.fail('correspondence', 'oracle crashed: ' + traceback.format_exc()[-600:], {'stream': 'models', 'case': case})
            continue
        if info is None:
            continue
        lits = coq_cases_for(case, r, info['geo'])
        if lits['why_skipped']:
            skipped[lits['why_skipped']] = skipped.get(lits['why_skipped'], 0) + 1
        if lits['build']:
            build_cases.append(lits['build'])
            build_idx.append(idx)
        if lits['build_multi']:
            bm_cases.append(lits['build_multi'])
            bm_idx.append(idx)
        for d in lits['denote']:
            den_cases.append(d)
            den_idx.append(idx)
        try:
            bl, why, problem = bond_literal(r)
            if problem:
                ctx.fail('correspondence', 'c10_bond: ' + problem, {'stream': 'c10_bond', 'case': case})
            if why:
                skipped[why] = skipped.get(why, 0) + 1
            if bl:
                bond_cases.append(bl)
                bond_idx.append(idx)
            el, why = exp_literal(r)
            if why:
                skipped[why] = skipped.get(why, 0) + 1
            if el:
                exp_cases.append(el)
                exp_idx.append(idx)
        except Exception:
            import traceback
            ctx.fail('correspondence', 'tie literals crashed: ' + traceback.format_exc()[-600:], {'stream': 'c10_bond', 'case': case})
        try:
            os.unlink(r['npz'])
        except OSError:
            pass
    # ---- model <-> implementation inside Coq
    for name, checker, cs, ids, what in (
            ('c10_build', 'check_build', build_cases, build_idx,
             'Coq model of MPOGraph.from_terms (Model/Automaton.v) does not rebuild the implementation\'s graph / graph is not well formed / '
             'graph does not denote the container terms'),
            ('c10_build_multi', 'check_build_multi', bm_cases, bm_idx,
             'Coq model of MultiCouplingTerms.add_to_graph (Model/AutomatonMulti.v) does not rebuild the implementation\'s graph / '
             'graph does not denote the stored multi-site terms'),
            ('c10_denote', 'check_denote', den_cases, den_idx,
             'the verified denotation of the implementation\'s MPO graph (or grids) differs from the normal form of its own term containers'),
            ('c10_bond', 'check_bond', bond_cases[:300], bond_idx[:300],
             'Coq model of calc_H_bond (Model/BondSum.v: to_nn_bond_Arrays + add_to_nn_bond_Arrays with the boundary exceptions) differs '
             'from the implementation\'s H_bond (exact coefficients of the named operator products, None entries)'),
            ('c10_expdecay', 'check_expdecay_all', exp_cases[:300], exp_idx[:300],
             'Coq model of ExponentiallyDecayingTerms.add_to_graph (Model/ExpDecay.v, finite branch) does not rebuild the implementation\'s '
             'graph edge for edge / graph does not denote sum_{i<j} strength lambda^(j-i) A_i S..S B_j + the other terms')):
        if not cs:
            continue
        mods = ['Base.Prelude', 'Model.Automaton'] + (['Model.AutomatonMulti'] if name == 'c10_build_multi' else [])
        if name in ('c10_bond', 'c10_expdecay'):
            mods += ['Model.BondSum', 'Model.ExpDecay', 'Model.AutomatonTieCheck']
        bad, err = common.coq_failing_indices(name, mods, checker, cs, shard=150)
        if err:
            ctx.fail('correspondence', 'model evaluation failed: ' + err[-600:], None)
        ctx.cov.setdefault('coq_disagreements', {})[name] = len(bad)
        for b in bad[:5]:
            ctx.fail('correspondence', what, {'stream': name, 'case': cases[ids[b]], 'literal': cs[b][:3000]})
        for i, _ in enumerate(cs):
            ctx.count(name, [name, ids[i], i], nontrivial=True)
    # ---- MultiCouplingTerms.add_multi_coupling_term vs split_term (Model/AutomatonMulti.v)
    nsplit = 0
    if nfam or (replay or {}).get('stream') == 'c10_split':
        scases = [replay['args']] if (replay or {}).get('stream') == 'c10_split' else gen_split_cases(rng, ctx.pick(200, 300))
        sres, err = common.run_impl('c10_impl.py', {'kind': 'split_terms', 'cases': scases, 'trace': True})
        if err:
            ctx.fail('correspondence', 'c10_split: runner failed: ' + err[-400:], None)
            sres = []
        else:
            merge_trace(sres.get('trace') or {})
            sres = sres['results']
        slits, sidx = [], []
        for n, (c, res) in enumerate(zip(scases, sres)):
            sl = split_literal(c, res)
            if sl is None:
                ctx.fail('correspondence', 'c10_split: add_multi_coupling_term failed or stored no single connection: %r' % (res,),
                         {'stream': 'c10_split', 'args': c})
                continue
            slits.append(sl)
            sidx.append(n)
        if slits:
            bad, err = common.coq_failing_indices('c10_split', ['Base.Prelude', 'Model.Automaton', 'Model.AutomatonMulti',
                                                                'Model.AutomatonTieCheck'], 'check_split', slits, shard=150)
            if err:
                ctx.fail('correspondence', 'model evaluation failed: ' + err[-600:], None)
            ctx.cov.setdefault('coq_disagreements', {})['c10_split'] = len(bad)
            for b in bad[:5]:
                ctx.fail('correspondence', 'split_term (Model/AutomatonMulti.v) differs from the form stored by '
                         'MultiCouplingTerms.add_multi_coupling_term, or the stored form is not the operator of the arguments',
                         {'stream': 'c10_split', 'args': scases[sidx[b]], 'stored': sres[sidx[b]], 'literal': slits[b][:2000]})
            for i, _ in enumerate(slits):
                ctx.count('c10_split', ['c10_split', scases[sidx[i]]], nontrivial=True)
            nsplit = len(slits)
    # ---- coverage audit: public functions / branches / options of the anchored source files reached by the streams above
    if nfam:
        import c10_cov
        try:
            tab, unclassified, summ = c10_cov.table(common.REPO, {f_: sorted(v_) for f_, v_ in trace_lines.items()})
            otab, stuck = c10_cov.option_table(common.REPO, {q_: {k_: sorted(v_) for k_, v_ in d_.items()} for q_, d_ in trace_opts.items()})
            strata = strata_counts(cases)
            ctx.cov['api_coverage'] = {'summary': {k_: v_ for k_, v_ in summ.items() if k_ != 'unreached_branches'},
                                       'unreached_branches': summ['unreached_branches'],
                                       'items': {k_: ('excluded: ' + v_['excluded']) if ('excluded' in v_ and not v_['reached']) else v_['lines']
                                                 for k_, v_ in tab.items()}}
            ctx.cov['option_coverage'] = otab
            ctx.cov['option_strata'] = strata
            for name in unclassified:
                ctx.fail('correspondence', 'coverage: the public function %s of the anchored source files is neither reached by any stream nor '
                         'classified as outside the property (harness/c10_cov.py EXCLUDED)' % name, {'stream': 'coverage', 'item': name})
            for name in stuck:
                ctx.fail('correspondence', 'coverage: the optional parameter %s was never given a non-default value by any stream and is not '
                         'classified (harness/c10_cov.py EXCLUDED_OPTIONS)' % name, {'stream': 'coverage', 'item': name})
            for name, n_ in strata.items():
                if n_ == 0:
                    ctx.fail('correspondence', 'coverage: no generated model contains the option stratum %r' % name, {'stream': 'coverage', 'item': name})
        except Exception:
            import traceback
            ctx.fail('correspondence', 'coverage table crashed: ' + traceback.format_exc()[-600:], {'stream': 'coverage'})
    ctx.cov['traces_validated_against_impl'] = len(build_cases) + len(bm_cases) + len(den_cases) + len(bond_cases) + len(exp_cases) + nsplit
    ctx.cov['c10_bond_cases'] = len(bond_cases)
    ctx.cov['c10_expdecay_cases'] = len(exp_cases)
    ctx.cov['c10_build_multi_cases'] = len(bm_cases)
    ctx.cov['coq_skipped'] = skipped
    ctx.assumptions += [
        'C10 model: operators are formal words over operator NAMES (no algebraic relations between named operators); the dense oracle covers the matrices',
        'C10 c10_bond: H_bond[j] is decomposed into named operator products by a numerical linear solve (residual <= 1e-9) before the exact '
        'comparison in Coq; only explicit_plus_hc=False and plain CouplingTerms; c10_expdecay: finite chains, uniform Gaussian-integer lambda, '
        'default subsites; the invariant mwf of multi-site graphs is a Prop and is not evaluated on implementation data',
        'C10 not modelled in Coq: infinite boundary conditions (construction; '
        'their graphs are denoted on an unrolled window), charges of virtual legs, group_sites/extract_segment (dense oracle only)',
        'C10 termlist: a TermList stores no operator strings (documented); the sites between two operators of a term are read as JW when '
        'an odd number of operators to their left anticommutes with the local JW, as identity otherwise',
        'local operator matrices and Jordan-Wigner flags are taken from tenpy.networks.site (property C12)',
        'C10 explicit operator strings: op_string=None / "JW" (two fermionic operators) of add_coupling is the operator product with '
        'Jordan-Wigner strings; any other explicit op_string (add_coupling, add_multi_coupling with operators that need no string, '
        'add_coupling_term, add_multi_coupling_term, exponentially decaying couplings) is the plain tensor product with that operator on '
        'the sites between the operators; explicit strings are drawn only for operators without Jordan-Wigner string (except "JW" '
        'itself); models with other strings than Id / JW have no faithful TermList (it stores no strings): their term list is not compared',
        'C10 external flux: coupling_strength_add_ext_flux multiplies the coupling op1(x) op2(x + dx) by exp(-i phase[a] w) where w = '
        'floor((x[a] + dx[a]) / L[a]) counts the crossings of the periodic boundary (|dx[a]| < L[a], no flux along the infinite direction)',
        'C10 ExactDiag(charge_sector): the order of the basis states inside a sector is not documented; the block is compared through '
        'trace, norm, spectrum (Hermitian case) and through <psi|H|psi>, |P H psi| of a state of that sector',
        'C10 coverage exclusions: see harness/c10_cov.py (EXCLUDED, EXCLUDED_OPTIONS, EXCLUDED_BRANCHES) - serialisation, plotting, '
        'eigen-decompositions, memory heuristics, lattice wrappers (Helical / Irregular / MultiSpecies: C19), size guard max_size, '
        'numerical zero thresholds of the bond <-> MPO conversions, warning branches for documented misuse',
        'C10 excluded: model specifications whose terms sum to exactly the zero operator (strengths of several calls cancel, or an '
        'exponentially decaying coupling on a single site): the zero operator has no MPO graph and MPOGraph.build_MPO refuses it with '
        'ValueError "can\'t determine ... charges"; decided per case by the dense semantics of the calls (all terms of the first unit '
        'cell inside the window, |H| <= 1e-13) together with the emptiness of the implementation\'s zero-stripped containers; any other '
        'raise of a specification is reported',
        'C10 predefined models without term containers on infinite lattices (AKLTChain): the reference is the contraction of the model\'s '
        'own MPO; the bond form on a window counts the on-site block W[IdL, IdR] of the two edge sites half (as for coupling models), so '
        'H_bond is compared with the MPO window minus half of those two blocks',
    ]
    return ctx.finish(RULE, 'theorems of coq/Props/C10.v about the automaton model; model tied to MPOGraph.from_terms by rebuilding the '
                      'implementation\'s graphs inside Coq and by denoting the implementation\'s graphs with the verified function; all dense '
                      'representations compared with an independent dense semantics of the add_* calls')


RULE = ('models: random coupling models (chain/ladder/square/triangular/honeycomb, open/periodic/infinite, spin/boson/fermion/mixed sites, '
        'integer/Gaussian/float/complex scalar and site-dependent strengths, all add_* calls, plus_hc x explicit_plus_hc x manual h.c., '
        'sort_mpo_legs, group_sites, extract_segment, enlarge_mps_unit_cell), non-trivial when at least one term lies in the window; '
        'termlist: the term list (to_TermList of all on-site and coupling terms) of every random and predefined coupling model, dense on the '
        'window against the reference operator, re-built into an MPO with MPOGraph.from_term_list (models without Jordan-Wigner operators), '
        'and word for word against the term containers; extra models with multi-site couplings on infinite chains/ladders whose terms reach '
        'beyond the first unit cell; '
        'option strata (evidence option_strata): for each of the named combinations of add_* options / boundary values at least one model '
        '(plus its explicit_plus_hc-toggled and CouplingMPOModel variants) is generated by construction; every family also as a generic '
        'CouplingMPOModel subclass built from model parameters, with terms added after the initialisation and a second init_H_from_terms; '
        'additional accessors per model (wave-function exporter, ExactDiag charge sectors / sparse / from_infinite_model / matvec, bond '
        'energies, non-default group_sites / enlarge / extract_segment arguments, chained operations, TermList and container accessors); '
        'coverage (evidence api_coverage / option_coverage): lines of the anchored sources executed in the runner and argument values '
        'of every public function with optional parameters, public names / options neither reached nor classified are failures; '
        'predefined: every model class of tenpy.models x parameter sets (incl. order / lattice / external flux) x conserve options; c10_build / c10_build_multi / c10_denote / c10_bond / '
        'c10_expdecay / c10_split: Coq evaluations (model recomputes what the implementation returned).')
