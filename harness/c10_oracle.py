"""Independent dense oracle for C10 / C11 (numpy only, no tenpy import).

Semantics implemented from the documentation of CouplingModel.add_*:
an operator named `op` acting on MPS site k is the full-space matrix
    F(op, k) = JW_lo x ... x JW_{k-1} x op_k x 1 x ... x 1     if `op` needs a Jordan-Wigner string,
               1 x ... x 1 x op_k x 1 x ... x 1                 otherwise,
and a term is strength times the matrix product of its operators in the order written
("OP0 * OP1 * ...").  Lattice sums run over all cells x; positions x + dx wrap in periodic directions,
are dropped in open directions when outside, and are unrestricted along an infinite first direction
(then only terms lying completely inside the window count).
Container-level terms (with explicit operator strings) are plain tensor products.
"""
import itertools

import numpy as np


def decode_strength(x):
    if not isinstance(x, dict):
        return np.array(x)
    re = np.array(x['re'], dtype=float)
    if x.get('dtype', 'complex') in ('int', 'float'):
        return re
    return re + 1j * np.array(x['im'], dtype=float)


def tile_to(a, shape):
    """documented behaviour of strength arrays: scalars are broadcast, smaller arrays are tiled"""
    a = np.array(a)
    if a.ndim == 0 or a.size == 1:
        return np.full(shape, a.reshape(-1)[0], dtype=a.dtype)
    assert a.ndim == len(shape)
    reps = [s // d for s, d in zip(shape, a.shape)]
    assert all(r * d == s for r, d, s in zip(reps, a.shape, shape)), (a.shape, shape)
    return np.tile(a, reps)


class Geometry:
    """lattice geometry of a case: Ls, number of unit cell sites, order table, boundary conditions,
    window [lo, hi] of MPS sites"""

    def __init__(self, info, lo=None, hi=None):
        self.Ls = list(info['Ls'])
        self.dim = len(self.Ls)
        self.order = [tuple(r) for r in info['order']]
        self.L = len(self.order)
        self.idx = {r: i for i, r in enumerate(self.order)}
        self.open = list(info['bc'])              # True = open in that direction
        self.finite = info['finite']
        self.lo = 0 if lo is None else lo
        self.hi = (info['N'] - 1) if hi is None else hi
        self.nu = 1 + max(r[-1] for r in self.order)

    def translations(self):
        """a term given by MPS indices of an infinite system stands for all its translates by unit cells"""
        if self.finite:
            return [0]
        return [n * self.L for n in range(self.lo // self.L - 8, self.hi // self.L + 2)]

    def site_u(self, k):
        return self.order[k % self.L][-1]

    def mps_index(self, X, u):
        """lattice position (may be outside) -> mps index or None"""
        X = list(X)
        shift = 0
        for a in range(self.dim):
            if a == 0 and not self.finite:
                n, r = divmod(X[0], self.Ls[0])
                X[0] = r
                shift = n * self.L
            elif self.open[a]:
                if not 0 <= X[a] < self.Ls[a]:
                    return None
            else:
                X[a] = X[a] % self.Ls[a]
        return shift + self.idx[tuple(X) + (u,)]

    def cells(self, reach):
        """all base cells x to be summed over"""
        rngs = []
        for a in range(self.dim):
            if a == 0 and not self.finite:
                c_lo = self.lo // self.L * self.Ls[0] - reach - self.Ls[0]
                c_hi = (self.hi // self.L + 1) * self.Ls[0] + reach + self.Ls[0]
                rngs.append(range(c_lo, c_hi + 1))
            else:
                rngs.append(range(self.Ls[a]))
        return itertools.product(*rngs)

    def strength_index(self, x, dxs):
        """index into the (tiled) strength array for the coupling with base cell x"""
        idx = []
        for a in range(self.dim):
            mn = min(0, min(d[a] for d in dxs))
            mx = max(0, max(d[a] for d in dxs))
            if self.open[a] and not (a == 0 and not self.finite):
                shape = self.Ls[a] - (mx - mn)
            else:
                shape = self.Ls[a]
            idx.append((x[a] + mn) % shape if shape > 0 else 0)
        return tuple(idx)

    def coupling_shape(self, dxs):
        shp = []
        for a in range(self.dim):
            mn = min(0, min(d[a] for d in dxs))
            mx = max(0, max(d[a] for d in dxs))
            if self.open[a] and not (a == 0 and not self.finite):
                shp.append(self.Ls[a] - (mx - mn))
            else:
                shp.append(self.Ls[a])
        return tuple(shp)


class Dense:
    """dense operators on the window [lo, hi]"""

    def __init__(self, geo, ops, needs_JW):
        self.geo = geo
        self.ops = ops                  # ops[u][name] = matrix
        self.needs_JW = needs_JW        # needs_JW[u][name] = bool
        self.n = geo.hi - geo.lo + 1
        self.dims = [ops[geo.site_u(k)]['Id'].shape[0] for k in range(geo.lo, geo.hi + 1)]
        self.D = int(np.prod(self.dims))

    def local(self, name, k):
        u = self.geo.site_u(k)
        if name in self.ops[u]:
            return self.ops[u][name]
        # composite name 'A B' = matrix product
        parts = name.split(' ')
        m = None
        for p in parts:
            if p not in self.ops[u]:
                raise KeyError('operator %r not exported for unit cell site %d' % (name, u))
            m = self.ops[u][p] if m is None else m @ self.ops[u][p]
        return m

    def jw_needed(self, name, k):
        u = self.geo.site_u(k)
        if name in self.needs_JW[u]:
            return self.needs_JW[u][name]
        return sum(1 for p in name.split(' ') if self.needs_JW[u].get(p, False)) % 2 == 1

    def kron_list(self, mats):
        out = np.eye(1)
        for m in mats:
            out = np.kron(out, m)
        return out

    def tensor(self, word):
        """plain tensor product: word = {site: opname}"""
        mats = []
        for k in range(self.geo.lo, self.geo.hi + 1):
            mats.append(self.local(word[k], k) if k in word else np.eye(self.dims[k - self.geo.lo]))
        return self.kron_list(mats)

    def full_op(self, name, k):
        """F(op, k) with its Jordan-Wigner string"""
        jw = self.jw_needed(name, k)
        mats = []
        for q in range(self.geo.lo, self.geo.hi + 1):
            if q < k and jw:
                mats.append(self.local('JW', q))
            elif q == k:
                mats.append(self.local(name, k))
            else:
                mats.append(np.eye(self.dims[q - self.geo.lo]))
        return self.kron_list(mats)

    def product(self, term):
        """term = [(opname, site), ...] -> matrix product in the order written"""
        m = None
        for name, k in term:
            f = self.full_op(name, k)
            m = f if m is None else m @ f
        return m

    def inside(self, sites):
        return all(self.geo.lo <= s <= self.geo.hi for s in sites)


def user_level_terms(spec, geo):
    """enumerate the concrete terms the add_* calls stand for:
    yields (kind, strength, [(op, mps_site), ...], plus_hc) with kind in 'fermionic' (operator product with
    Jordan-Wigner strings) | 'tensor' (plain tensor product, with 'string': opname between)"""
    for c in spec['calls']:
        fn = c['fn']
        s = decode_strength(c['strength'])
        hc = bool(c.get('plus_hc', False))
        if fn == 'add_onsite':
            arr = tile_to(s, tuple(geo.Ls))
            for x in geo.cells(0):
                k = geo.mps_index(x, c['u'])
                if k is None:
                    continue
                st = arr[tuple(xa % La for xa, La in zip(x, geo.Ls))]
                yield ('fermionic', st, [(c['op'], k)], hc, None)
        elif fn in ('add_coupling', 'add_multi_coupling'):
            if fn == 'add_coupling':
                dx_ = c['dx'] if isinstance(c['dx'], (list, tuple)) else [c['dx']]      # (1D: a single int is documented)
                ops = [(c['op1'], [0] * geo.dim, c['u1']), (c['op2'], list(dx_), c['u2'])]
            else:
                ops = [(o, list(dx), u) for o, dx, u in c['ops']]
            # op_string: None / 'JW' (both operators fermionic) -> operator product with Jordan-Wigner strings; any other name ->
            # plain tensor product with that operator on the sites between the operators (documented: "to be used between")
            ostr = c.get('op_string')
            kind = 'fermionic' if ostr in (None, 'JW') else 'tensor'
            dxs = [o[1] for o in ops]
            shape = geo.coupling_shape(dxs)
            if any(x <= 0 for x in shape):
                continue        # does not fit into the lattice at all
            arr = tile_to(s, shape)
            reach = max(abs(d[0]) for d in dxs)
            for x in geo.cells(reach):
                term = []
                ok = True
                for o, dx, u in ops:
                    k = geo.mps_index([xa + da for xa, da in zip(x, dx)], u)
                    if k is None:
                        ok = False
                        break
                    term.append((o, k))
                if not ok:
                    continue
                # open directions: the base cell itself must be inside as well (it is ops[0] for add_coupling;
                # for multi couplings every operator position is checked above)
                if fn == 'add_coupling' and geo.mps_index(x, c['u1']) is None:
                    continue
                st = arr[geo.strength_index(x, dxs)]
                if c.get('flux') is not None:
                    # coupling_strength_add_ext_flux (documented): a particle hopping in positive direction around a periodic
                    # direction picks up exp(+i phase); op1 (at x) creates, op2 (at x + dx) annihilates: the particle moves from
                    # x + dx to x, i.e. it crosses the boundary w times in NEGATIVE direction, w = floor((x + dx) / L)
                    for a in range(geo.dim):
                        if not geo.open[a] and not (a == 0 and not geo.finite):
                            w = (x[a] + ops[1][1][a]) // geo.Ls[a]
                            st = st * np.exp(-1j * c['flux'][a] * w)
                yield (kind, st, term, hc, None if kind == 'fermionic' else [ostr])
        elif fn == 'add_local_term':
            term = []
            for o, idx in c['term']:
                term.append((o, geo.mps_index(idx[:-1], idx[-1])))
            for sh in geo.translations():
                yield ('fermionic', s, [(o, k + sh) for o, k in term], hc, None)
        elif fn == 'add_onsite_term':
            for sh in geo.translations():
                yield ('tensor', s, [(c['op'], c['i'] + sh)], hc, None)
        elif fn == 'add_coupling_term':
            for sh in geo.translations():
                yield ('tensor', s, [(c['op_i'], c['i'] + sh), (c['op_j'], c['j'] + sh)], hc, [c.get('op_string', 'Id')])
        elif fn == 'add_multi_coupling_term':
            for sh in geo.translations():
                yield ('tensor', s, [(o, k + sh) for o, k in zip(c['ops'], c['ijkl'])], hc, list(c['op_string']))
        elif fn == 'add_exponentially_decaying_coupling':
            lam = decode_strength(c['lambda'])
            lam = np.full(geo.L, lam) if lam.ndim == 0 else lam
            sub = list(range(geo.L)) if c.get('subsites') is None else list(c['subsites'])
            sub0 = sub if c.get('subsites_start') is None else list(c['subsites_start'])
            # strength * sum_{i in subsites_start} sum_{j in subsites, j > i} lambda_i prod_{k in subsites, i<k<j} lambda_k A_i B_j
            # Lambda'_{i,j} = lambda_i prod_{n in S, i < n < j} lambda_n   (docstring of the method)
            if geo.finite:
                cells = [0]
                allsub = sub
            else:
                cells = list(range(geo.lo // geo.L - 1, geo.hi // geo.L + 2))
                allsub = sorted(q + n * geo.L for n in cells for q in sub)
            for n in cells:
                for i0 in sub0:
                    i = i0 + n * geo.L
                    pref = s * lam[i0]
                    for j in allsub:
                        if j <= i:
                            continue
                        if c.get('op_string') is None:
                            yield ('fermionic', pref, [(c['op_i'], i), (c['op_j'], j)], hc, None)
                        else:
                            yield ('tensor', pref, [(c['op_i'], i), (c['op_j'], j)], hc, [c['op_string']])
                        pref = pref * lam[j % geo.L]
        elif fn == 'add_exponentially_decaying_centered_terms':
            lam = decode_strength(c['lambda'])
            lam = np.full(geo.L, lam) if lam.ndim == 0 else lam
            sub = list(range(geo.L)) if c.get('subsites') is None else list(c['subsites'])
            i = c['i'] % geo.L
            for j in sub:
                if j == i:
                    continue
                if j < i:
                    fac = [lam[q] for q in sub if j < q <= i]
                else:
                    fac = [lam[q] for q in sub if i <= q < j]
                yield ('tensor', s * np.prod(fac), [(c['op_i'], i), (c['op_j'], j)], hc, [c.get('op_string') or 'Id'])
        else:
            raise ValueError(fn)


def expected_from_spec(spec, dense):
    """dense matrix of the Hamiltonian the calls stand for, on the window; also the on-site part per site"""
    geo = dense.geo
    H = np.zeros((dense.D, dense.D), dtype=complex)
    onsite = {}
    nterms = 0
    for kind, st, term, hc, strings in user_level_terms(spec, geo):
        sites = [k for _, k in term]
        if not dense.inside(sites):
            continue
        if st == 0:
            continue
        if kind == 'fermionic':
            m = st * dense.product(term)
        else:
            word = {}
            srt = sorted(term, key=lambda t: t[1])
            nseg = 0
            for n, (o, k) in enumerate(srt):
                word[k] = (word[k] + ' ' + o) if k in word else o       # (same site: product in the order written)
                if n + 1 < len(srt) and srt[n + 1][1] > k:
                    for q in range(k + 1, srt[n + 1][1]):
                        word[q] = strings[nseg] if len(strings) > 1 else strings[0]
                    nseg += 1
            m = st * dense.tensor(word)
        if hc:
            m = m + m.conj().T
        H += m
        nterms += 1
        if len(set(sites)) == 1:
            onsite[sites[0]] = onsite.get(sites[0], 0) + m
    return H, onsite, nterms


def container_terms(info, geo):
    """terms of the implementation's containers with explicit operator strings, translated into the window:
    list of (strength complex, {site: opname})"""
    out = []
    L = geo.L
    shifts = [0] if geo.finite else [n * L for n in range(geo.lo // L - 8, geo.hi // L + 2)]

    def emit(st, word):
        for sh in shifts:
            w = {k + sh: o for k, o in word.items()}
            if all(geo.lo <= k <= geo.hi for k in w):
                out.append((complex(st[0], st[1]) if isinstance(st, (list, tuple)) else complex(st), w))
    for i, op, st in info['onsite']:
        emit(st, {i: op})
    for e in (info.get('coupling') or []):
        i, a, s, j, b, st = e
        w = {i: a, j: b}
        for q in range(i + 1, j):
            w[q] = s
        emit(st, w)
    for t in (info.get('multi') or []):
        w = {}
        for k, o in t['word']:
            w[k] = o
        emit(t['strength'], w)
    ex = info.get('exp') or {'exp': [], 'centered': []}
    for t in ex['exp']:
        lam = [complex(*x) for x in t['lambda']]
        st = complex(*t['strength'])
        sub, sub0 = t['subsites'], t['subsites_start']
        if geo.finite:
            allsub = sub
        else:
            ncells = range(0, (geo.hi - geo.lo) // L + 3)
            allsub = sorted(q + n * L for n in ncells for q in sub)
        for i in sub0:
            pref = st * lam[i]
            for j in allsub:
                if j <= i:
                    continue
                w = {i: t['op_i'], j: t['op_j']}
                for q in range(i + 1, j):
                    w[q] = t['op_string']
                emit([pref.real, pref.imag], w)
                pref = pref * lam[j % L]
    for t in ex['centered']:
        lam = [complex(*x) for x in t['lambda']]
        st = complex(*t['strength'])
        i = t['i']
        for j in t['subsites']:
            if j == i:
                continue
            fac = [lam[q] for q in t['subsites'] if (j < q <= i if j < i else i <= q < j)]
            pref = st * np.prod(fac) if fac else st
            w = {i: t['op_i'], j: t['op_j']}
            for q in range(min(i, j) + 1, max(i, j)):
                w[q] = t['op_string']
            emit([pref.real, pref.imag], w)
    return out


def dense_from_containers(info, dense):
    geo = dense.geo
    H = np.zeros((dense.D, dense.D), dtype=complex)
    onsite = {}
    for st, w in container_terms(info, geo):
        m = st * dense.tensor(w)
        H += m
        if len(w) == 1:
            k = next(iter(w))
            onsite[k] = onsite.get(k, 0) + m
    if info.get('explicit_plus_hc'):
        H = H + H.conj().T
        onsite = {k: m + m.conj().T for k, m in onsite.items()}
    return H, onsite


def is_onsite_only(H, dims, tol):
    """is H a sum of single-site operators (plus a constant)?"""
    n = len(dims)
    D = int(np.prod(dims))
    T = H.reshape(list(dims) + list(dims))
    c = np.trace(H) / D
    tot = c * np.eye(D, dtype=complex)
    for k in range(n):
        rest = [q for q in range(n) if q != k]
        hk = T
        # partial trace over all sites but k
        idx_in = list(range(n))
        idx_out = [n + q if q == k else q for q in range(n)]
        hk = np.einsum(T, idx_in + idx_out, [k, n + k]) / (D / dims[k])
        hk = hk - c * np.eye(dims[k])
        mats = [np.eye(d) for d in dims]
        mats[k] = hk
        m = np.eye(1)
        for x in mats:
            m = np.kron(m, x)
        tot = tot + m
    return float(np.max(np.abs(tot - H))) <= tol


def undo_sort(H, perms, dims):
    """matrix in the sites' own (charge sorted) bases -> conventional bases: OP_conv = OP[ix(inv, inv)]"""
    n = len(dims)
    T = H.reshape(list(dims) + list(dims))
    inv = [np.argsort(np.array(p)) for p in perms]
    T = T[np.ix_(*(inv + inv))]
    D = int(np.prod(dims))
    return T.reshape(D, D)


def load_ops(npz, nu):
    ops = [dict() for _ in range(nu)]
    for key in npz.files:
        if key.startswith('op/'):
            _, u, name = key.split('/', 2)
            ops[int(u)][name] = npz[key]
    return ops
