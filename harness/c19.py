"""C19 - lattice geometry: index maps are bijections and couplings are enumerated exactly.

proof gate (coq/Props/C19.v)  +  correspondence  tenpy.models.lattice <-> Model/Lattice.v (vm_compute)  +
brute-force oracle written from the documentation of Lattice (enumerate all coordinate pairs).
"""
import itertools
import math
import multiprocessing
import os

import common
import c19_audit
from common import coq_lit, Nat, CoqRaw

REMOVED = -123456
NAMES5 = ['nearest_neighbors', 'next_nearest_neighbors', 'next_next_nearest_neighbors',
          'fourth_nearest_neighbors', 'fifth_nearest_neighbors']


# ----------------------------------------------------------------------------------------------------
# orderings from their documentation (independent of the Coq model)
# ----------------------------------------------------------------------------------------------------

def py_get_order(shape, snake, priority=None):
    """get_order docstring: C-style loops, the direction with the highest priority increases fastest;
    a snake direction goes forth and back."""
    d = len(shape)
    dirs = list(range(d)) if priority is None else sorted(range(d), key=lambda a: priority[a])

    def rec(m):        # sequences over directions dirs[m:], as dicts
        if m == d:
            return [{}]
        inner = rec(m + 1)
        back = m + 1 < d and snake[dirs[m + 1]]
        res = []
        for x in range(shape[dirs[m]]):
            blk = inner[::-1] if (back and x % 2 == 1) else inner
            for r in blk:
                r2 = dict(r)
                r2[dirs[m]] = x
                res.append(r2)
        return res
    return [[r[a] for a in range(d)] for r in rec(0)]


def py_grouped(shape, groups, priority=None):
    """get_order_grouped docstring: first within a group, then along the last spatial direction, then the next group,
    finally C-style along the remaining spatial directions.  With a priority (its last entry the largest, so that the
    unit cell index is the grouped direction) the directions are taken in the order of their priority, as in get_order."""
    d = len(shape)
    dirs = list(range(d)) if priority is None else sorted(range(d), key=lambda a: priority[a])
    if dirs[-1] != d - 1:
        return None               # grouping along another direction: "try and plot it" - not documented precisely
    ydir, others = dirs[-2], dirs[:-2]
    res = []
    for xs in itertools.product(*[range(shape[a]) for a in others]):
        for gr in groups:
            for y in range(shape[ydir]):
                for u in gr:
                    row = [None] * d
                    for a, x in zip(others, xs):
                        row[a] = x
                    row[ydir] = y
                    row[-1] = u
                    res.append(row)
    return res


def folded(L, Lu):
    seq = []
    for i in range(L // 2):
        seq += [i, L - 1 - i]
    if L % 2:
        seq.append(L // 2)
    return [[x, u] for x in seq for u in range(Lu)]


def std_params(cls, dim, order):
    """(snake flags, priority) of get_order a named/tuple ordering stands for; None if not of that form."""
    n = dim + 1
    if isinstance(order, str):
        if cls == 'Honeycomb' and order in ('default', 'rings'):
            return [False] * 3, [0, 2, 1]
        if cls == 'Honeycomb' and order in ('snake', 'snake_rings'):
            return [False, False, True], [0, 2, 1]
        if order in ('default', 'Cstyle'):
            return [False] * n, None
        if order in ('snake', 'snakeCstyle'):
            return [True] * n, None
        if order == 'Fstyle':       # Fortran order: first index fastest, unit cell index slowest
            return [False] * n, list(range(dim, -1, -1))
        if order == 'snakeFstyle':
            return [True] * n, list(range(dim, -1, -1))
        return None
    if order[0] == 'standard':
        snake, prio = list(order[1]), order[2]
        if cls in ('Chain', 'Square', 'Triangular') and len(snake) == dim:
            # SimpleLattice constructor: given for the spatial directions only
            snake = snake + [False]
            prio = None if prio is None else list(prio) + [max(prio) + 1.0]
        return snake, (None if prio is None else list(prio))
    return None


def expected_order(cls, shape, order):
    """order array documented for `order` on a regular lattice of class cls."""
    dim = len(shape) - 1
    if isinstance(order, str):
        if order == 'folded' and cls in ('Chain', 'Ladder', 'NLegLadder'):
            return folded(shape[0], shape[1])
        if cls == 'Honeycomb' and order in ('default', 'rings'):      # first the A sublattice, then the B sublattice
            return [[x, y, u] for x in range(shape[0]) for u in (0, 1) for y in range(shape[1])]
        if cls == 'Kagome' and order == 'rings':
            return py_grouped(shape, [(0, 2), (1,)])
    elif order[0] == 'grouped':
        return py_grouped(shape, order[1], order[2] if len(order) > 2 else None)
    sp = std_params(cls, dim, order)
    if sp is None:
        return None
    return py_get_order(shape, sp[0], sp[1])



# ----------------------------------------------------------------------------------------------------
# lattice-transforming methods (enlarge_mps_unit_cell, extract_segment): what their documentation promises
# ----------------------------------------------------------------------------------------------------

def base_counts(spec):
    """(sites per unit cell, sites in the MPS unit cell) of the lattice of `spec` before any transform."""
    Lu = spec['Lu']
    ncells = int(math.prod(spec['Ls']))
    w = spec.get('wrap')
    if w is None:
        return Lu, ncells * Lu
    if w['kind'] == 'multi':
        return Lu * w['n_species'], ncells * Lu * w['n_species']
    if w['kind'] == 'irregular':
        nadd = len(w['add'][0]) if w.get('add') else 0
        return Lu + w.get('n_add_uc', 0), ncells * Lu - len(w.get('remove') or []) + nadd
    if w['kind'] == 'helical':
        return Lu, w['N_unit_cells'] * Lu
    raise ValueError(w)


def effective(spec):
    """Shape, boundary conditions and site counts documented for the lattice of `spec` after spec['transform']:
    enlarge_mps_unit_cell(f): (Lx, ...) -> (Lx*f, ...), N_sites -> f*N_sites, the order repeated f times shifted by Lx
      (HelicalLattice: N_unit_cells -> f*N_unit_cells; the shape only grows if the new MPS unit cell does not fit);
    extract_segment(first, last | enlarge): a copy enlarged by last // N_sites + 1, MPS sites first..last kept,
      bc_MPS 'segment' (a finite lattice becomes periodic along x)."""
    Ls = list(spec['Ls'])
    bc = norm_bc(spec['bc'], len(Ls))
    bc_MPS = spec['bc_MPS']
    Lu, N = base_counts(spec)
    w = spec.get('wrap')
    tr = spec.get('transform')
    nuc = w['N_unit_cells'] if (w and w['kind'] == 'helical') else None
    first, last, f = 0, None, 1
    if tr:
        if tr['op'] == 'enlarge':
            f = tr['factor'] if tr.get('factor') is not None else 2          # documented default factor=2
        elif tr['op'] == 'segment':
            if tr.get('enlarge') is not None:
                f = tr['enlarge']
                last = f * N - 1
            elif tr.get('last') is None:                 # documented default: last = N_sites - 1
                first, last = tr.get('first') or 0, N - 1
            else:
                first, last = tr['first'], tr['last']
                f = last // N + 1
            if bc_MPS == 'finite':
                bc[0] = 'periodic'
            bc_MPS = 'segment'
        else:
            raise ValueError(tr)
    if f > 1:
        if nuc is not None:
            ncells = int(math.prod(Ls))
            if nuc * f > ncells or ncells % (nuc * f) != 0:
                Ls[0] *= f
            nuc *= f
        else:
            Ls[0] *= f
        N *= f
    if last is None:
        last = N - 1
    return {'Ls': Ls, 'bc': bc, 'bc_MPS': bc_MPS, 'Lu': Lu, 'N': last - first + 1, 'first': first, 'last': last,
            'factor': f, 'nuc': nuc, 'removed': first > 0 or last < N - 1, 'inf': bc_MPS != 'finite'}


def transform_text(tr):
    if not tr:
        return ''
    if tr['op'] == 'enlarge':
        return ' .enlarge_mps_unit_cell(%s)' % ('' if tr.get('factor') is None else tr['factor'])
    if tr.get('enlarge') is not None:
        return ' .extract_segment(enlarge=%d)' % tr['enlarge']
    if tr.get('last') is None:
        return ' .extract_segment(%s)' % (tr.get('first') or '')
    return ' .extract_segment(%d, %d)' % (tr['first'], tr['last'])


def norm_bc(bc, d):
    """the boundary conditions as a list with one entry per direction; a shift of 0 is plain 'periodic'"""
    if isinstance(bc, str):
        return [bc] * d
    return ['periodic' if (isinstance(b, int) and b == 0) else b for b in bc]


def order_of(spec):
    """the order option that produced the current order of the lattice (the last one given to the order setter)"""
    return spec['reorder'] if spec.get('reorder') is not None else spec['order']

# ----------------------------------------------------------------------------------------------------
# generators
# ----------------------------------------------------------------------------------------------------

CLS_LU = {'Chain': 1, 'Ladder': 2, 'Square': 1, 'Triangular': 1, 'Honeycomb': 2, 'Kagome': 3}


def named_orders(cls, dim, Lu, rng):
    names = ['default', 'Cstyle', 'snake', 'snakeCstyle', 'Fstyle', 'snakeFstyle']
    if cls in ('Chain', 'Ladder', 'NLegLadder'):
        names.append('folded')
    if cls == 'Honeycomb':
        names += ['rings', 'snake_rings']
    if cls == 'Kagome':
        names.append('rings')
    return names


def random_order_spec(cls, dim, Lu, rng, ctor=True):
    simple = cls in ('Chain', 'Square', 'Triangular') and ctor
    n = dim if simple else dim + 1
    r = rng.random()
    if r < 0.6 or Lu == 1:
        prio = list(range(n))
        rng.shuffle(prio)
        prio = [p + rng.choice([0, 0.25]) for p in prio]      # distinct (argsort must be unambiguous)
        snake = [rng.random() < 0.5 for _ in range(n)]
        return ['standard', snake, prio if (rng.random() < 0.8 or simple) else None]
    us = list(range(Lu))
    rng.shuffle(us)
    cut = sorted(rng.sample(range(1, Lu), rng.randint(0, Lu - 1))) if Lu > 1 else []
    groups = [us[a:b] for a, b in zip([0] + cut, cut + [Lu])]
    if rng.random() < 0.4:
        # with a priority: a random order of the spatial directions, the unit cell index last (= the grouped direction)
        prio = list(range(dim))
        rng.shuffle(prio)
        return ['grouped', groups, prio + [dim + rng.choice([0, 0.5])]]
    return ['grouped', groups]


def bc_combos(dim, thorough):
    """[(bc list, bc_MPS)]: every combination of open/periodic/shift per direction x finite/infinite."""
    firsts = ['open', 'periodic']
    rest_choices = ['open', 'periodic', -1, 1, 2]
    out = []
    for b0 in firsts:
        for rest in itertools.product(rest_choices, repeat=dim - 1):
            out.append(([b0] + list(rest), 'finite'))
            if b0 == 'periodic':
                out.append(([b0] + list(rest), 'infinite'))
    return out


def bc_form(bc, counter):
    """the same boundary conditions in the other documented forms of the argument: one string for all directions;
    the integer shift 0 for a periodic direction"""
    bc = list(bc)
    if all(isinstance(b, str) for b in bc) and len(set(bc)) == 1 and counter % 2 == 0:
        return bc[0]
    if counter % 3 == 0:
        return [0 if (a > 0 and b == 'periodic') else b for a, b in enumerate(bc)]
    return bc


def all_dx(Ls, extra=0):
    return [list(d) for d in itertools.product(*[range(-L - extra, L + extra + 1) for L in Ls])]


def make_queries(rng, Ls, Lu, N, infinite, max_upairs, n_multi, extra_dx=0):
    q = {}
    if infinite:
        q['mps_idx'] = list(range(-N - 2, 2 * N + 3))
        x0s = range(-2 * Ls[0], 3 * Ls[0])
    else:
        q['mps_idx'] = list(range(N))
        x0s = range(Ls[0])
    q['lat_idx'] = [[x0] + list(xr) + [u] for x0 in x0s for xr in itertools.product(*[range(L) for L in Ls[1:]])
                    for u in range(Lu)]
    ups = [(a, b) for a in range(Lu) for b in range(Lu)]
    if len(ups) > max_upairs:
        ups = rng.sample(ups, max_upairs)
    q['couplings'] = [[a, b, dx] for (a, b) in ups for dx in all_dx(Ls, extra_dx)]
    multi = []
    for _ in range(n_multi):
        nops = rng.choice([2, 3, 3, 4])
        ops = []
        lo = [rng.randint(-2, 0) for L in Ls]
        for k in range(nops):
            # all displacements inside a box of at most the lattice size ("up to the lattice size")
            dx = [l + rng.randint(0, min(L, 2)) for l, L in zip(lo, Ls)]
            if k == 0 and rng.random() < 0.7 and all(l <= 0 <= l + min(L, 2) for l, L in zip(lo, Ls)):
                dx = [0] * len(Ls)
            ops.append([dx, rng.randrange(Lu)])
        multi.append(ops)
    if n_multi:
        # a single operator (the box is one point; its dx need not be 0), and two-operator terms that are exactly a
        # possible_couplings query (u1 at the origin, u2 at dx): both enumerations must agree
        multi.append([[[rng.randint(-1, 1) for L in Ls], rng.randrange(Lu)]])
        inside = [k for k, c in enumerate(q['couplings']) if all(abs(x) <= L for x, L in zip(c[2], Ls))]
        pick = rng.sample(inside, min(3, len(inside)))
        q['multi_from_c'] = [[len(multi) + n, k] for n, k in enumerate(pick)]
        for k in pick:
            a, b, dx = q['couplings'][k]
            multi.append([[[0] * len(Ls), a], [list(dx), b]])
    q['multi'] = multi
    if infinite:
        q['masked'] = [sorted(rng.sample(range(-N, 2 * N), min(3 * N, rng.randint(1, 4)))), list(range(N))]
    else:
        q['masked'] = [sorted(rng.sample(range(N), rng.randint(1, N))), list(range(N))]
    q['masked_variant'] = rng.randrange(4)
    q['values2'] = N <= 12
    # options of find_coupling_pairs (used when the geometry is queried): max_dx, cutoff (None = max_dx - eps), all defaults
    md = rng.choice([1, 2, 3, 3])
    q['max_dx'] = md
    q['cutoff'] = rng.choice([None, 2.5 if md == 3 else None, round(rng.uniform(0.6, md - 0.05), 2) + 0.003])
    q['fcp_defaults'] = rng.random() < 0.15
    return q


MAX_N_TRANSFORMED = 40


def with_transform(rng, b, tr):
    """copy of the lattice specification b with the transform tr and queries for the transformed lattice"""
    s = {key: b[key] for key in ('cls', 'Ls', 'Lu', 'order', 'custom_perm', 'bc', 'bc_MPS', 'wrap', 'kind')}
    for key in ('reorder', 'opts', 'geom'):
        if b.get(key) is not None:
            s[key] = b[key]
    s['transform'] = tr
    eff = effective(s)
    s['queries'] = make_queries(rng, eff['Ls'], eff['Lu'], eff['N'], eff['inf'], 4, 2)
    s['queries']['geometry'] = True
    return s


def gen_transformed(ctx, scale, specs):
    """Lattices produced by enlarge_mps_unit_cell / extract_segment from sampled lattices of every kind; the whole
    battery of queries is run on the result."""
    rng = ctx.rng
    out = []
    pools = {}
    for s in specs:
        if s['cls'] == 'Lattice' and len(s['Ls']) > 2:
            continue
        if base_counts(s)[1] * 2 > MAX_N_TRANSFORMED:
            continue
        pools.setdefault(s['kind'], []).append(s)
    kinds = [k for k in ('regular', 'multi', 'irregular', 'regular', 'multi', 'irregular') if pools.get(k)]
    for k in range(ctx.pick(72, 400) * scale):
        pool = pools[kinds[k % len(kinds)]]
        infinite = [x for x in pool if x['bc_MPS'] == 'infinite']
        if infinite and (k % 4 or pool[0]['kind'] == 'irregular'):
            pool = infinite
        b = rng.choice(pool)
        N = base_counts(b)[1]
        fmax = min(3, MAX_N_TRANSFORMED // N)
        ops = []
        if b['bc_MPS'] == 'infinite':
            ops += ['enlarge', 'enlarge', 'segment-enlarge']
        # extract_segment(first, last) removes sites through an IrregularLattice of the copy: defined for regular lattices
        # (any bc_MPS) and for a MultiSpeciesLattice as long as the MPS unit cell need not be enlarged
        if b['kind'] in ('regular', 'multi'):
            ops += ['segment']
        if not ops:
            continue
        op = rng.choice(ops)
        if op == 'enlarge':
            # factor 1 (nothing changes) and the default factor are drawn as well
            tr = {'op': 'enlarge', 'factor': rng.choice([1, None] + [rng.randint(2, fmax)] * 6)}
        elif op == 'segment-enlarge':
            tr = {'op': 'segment', 'enlarge': rng.randint(1, fmax)}
        else:
            top = N * (fmax if (b['bc_MPS'] == 'infinite' and b['kind'] == 'regular') else 1)
            first = rng.randrange(0, N)
            last = rng.randrange(first, top)
            if rng.random() < 0.2:
                first = 0
            r = rng.random()
            if r < 0.1:
                tr = {'op': 'segment'}                          # all defaults: the whole MPS unit cell
            elif r < 0.2:
                tr = {'op': 'segment', 'first': first}          # last defaults to N_sites - 1
            else:
                # boundary values of last: exactly the last site of a unit cell, the first site of the next one
                if r < 0.35:
                    last = max(first, (rng.randint(1, top // N)) * N - 1)
                elif r < 0.5 and top > N:
                    last = rng.randint(1, top // N - 1) * N
                tr = {'op': 'segment', 'first': first, 'last': last}
        out.append(with_transform(rng, b, tr))
        out.append(with_transform(rng, b, tr))
    # helical lattices: both the case that the enlarged MPS unit cell still fits into the regular lattice and the case
    # that the regular lattice has to grow
    for k in range(ctx.pick(30, 150) * scale):
        cls = rng.choice(['Square', 'Triangular', 'Honeycomb', 'Kagome'])
        Lu = CLS_LU[cls]
        while True:
            Ls = [rng.randint(1, 3), rng.randint(1, 3)]
            ncells = Ls[0] * Ls[1]
            nuc = rng.choice([n for n in range(1, ncells + 1) if ncells % n == 0])
            f = rng.choice([2, 2, 3])
            fits = ncells % (nuc * f) == 0
            if fits == (k % 2 == 0) and nuc * f * Lu <= MAX_N_TRANSFORMED and ncells * Lu * (1 if fits else f) <= 2 * MAX_N_TRANSFORMED:
                break
        if Lu > 1 and rng.random() < 0.5:
            us = list(range(Lu))
            rng.shuffle(us)
            order = ['grouped', [us]]
        else:
            order = 'Cstyle'
        b = {'cls': cls, 'Ls': Ls, 'Lu': Lu, 'order': order, 'custom_perm': None, 'bc': ['periodic', -1],
             'bc_MPS': 'infinite', 'wrap': {'kind': 'helical', 'N_unit_cells': nuc}, 'kind': 'helical'}
        tr = {'op': 'enlarge', 'factor': f} if k % 3 else {'op': 'segment', 'enlarge': f}
        out.append(with_transform(rng, b, tr))
    return out


def gen_multi_geometry(ctx, scale):
    """MultiSpeciesLattice over every simple lattice class with 1-3 species on an open finite lattice: the predefined
    pairs are compared with the positions and species of the sites."""
    rng = ctx.rng
    th = ctx.thorough()
    out = []
    fam = [('Chain', [3], 1), ('Ladder', [3], 2), ('NLegLadder', [2], 3), ('Square', [2, 3], 1), ('Triangular', [3, 2], 1),
           ('Honeycomb', [2, 2], 2), ('Kagome', [2, 2], 3)]
    if th:
        fam += [('NLegLadder', [3], 2), ('NLegLadder', [2], 4), ('Honeycomb', [3, 2], 2), ('Kagome', [2, 3], 3), ('Square', [3, 3], 1)]
    for (cls, Ls, Lu) in fam:
        for nsp in (1, 2, 3):
            names = rng.choice([None, ['a', 'b', 'c'][:nsp], ['up', 'down', 'x'][:nsp]])
            s = {'cls': cls, 'Ls': Ls, 'Lu': Lu, 'order': 'default', 'custom_perm': None, 'bc': ['open'] * len(Ls),
                 'bc_MPS': 'finite', 'wrap': {'kind': 'multi', 'n_species': nsp, 'names': names}, 'kind': 'multi'}
            N = int(math.prod(Ls)) * Lu * nsp
            s['queries'] = make_queries(rng, Ls, Lu * nsp, N, False, 3, 1)
            s['queries']['geometry'] = True
            out.append(s)
    return out


def gen_specs(ctx, scale):
    """All lattice specifications of this run."""
    rng = ctx.rng
    th = ctx.thorough()
    specs = []

    def sizes2d():
        m = 4 if th else 3
        return [[a, b] for a in range(1, m + 1) for b in range(1, m + 1)]

    fam = []
    fam += [('Chain', [L], 1) for L in range(1, 7 if th else 5)]
    fam += [('Ladder', [L], 2) for L in range(1, 5 if th else 4)]
    fam += [('NLegLadder', [L], n) for L in range(1, 4) for n in ((2, 3, 4) if th else (3,))]
    for c in ('Square', 'Triangular', 'Honeycomb', 'Kagome'):
        fam += [(c, s, CLS_LU[c]) for s in sizes2d()]
    fam += [('Lattice', [2, 2, 2], 2), ('Lattice', [3, 2, 2], 1), ('Lattice', [2, 1, 3], 1), ('Lattice', [1, 2], 2)]
    fam += [('Trivial', [1], n) for n in range(1, 6 if th else 5)]
    if th:
        fam += [('Lattice', [2, 3, 2], 2), ('Lattice', [2, 2, 2, 2], 1)]
    n_ord = (3 if th else 1) * scale
    counter = 0
    for (cls, Ls, Lu) in fam:
        dim = len(Ls)
        names = named_orders(cls, dim, Lu, rng)
        combos = bc_combos(dim, th)
        if dim >= 3:
            combos = rng.sample(combos, 12 if th else 6)
        big = th and max(Ls) >= 4 and dim == 2
        if big:                     # 4x4 tier: a sample of the combinations
            combos = rng.sample(combos, 6)
        n_here = n_ord * (len(names) + 2 if dim == 1 else 1)
        for (bc, bc_MPS) in combos:
            for k in range(n_here):
                counter += 1
                r = rng.random()
                perm = None
                if r < 0.55:
                    order = names[counter % len(names)]
                elif r < 0.8:
                    order = random_order_spec(cls, dim, Lu, rng)
                else:
                    order = names[counter % len(names)]
                    perm = list(range(int(math.prod(Ls)) * Lu))
                    rng.shuffle(perm)
                if bc_MPS == 'infinite' and rng.random() < 0.15:
                    bc_MPS_ = 'segment'
                else:
                    bc_MPS_ = bc_MPS
                N = int(math.prod(Ls)) * Lu
                spec = {'cls': cls, 'Ls': Ls, 'Lu': Lu, 'order': order, 'custom_perm': perm, 'bc': bc_form(bc, counter),
                        'bc_MPS': bc_MPS_, 'wrap': None, 'kind': 'regular',
                        'opts': {'bc_roundtrip': counter % 4 == 1, 'sites_none': counter % 9 == 4}}
                if counter % 7 == 3:
                    # the order is changed after construction (and after a first use) through ordering() + the order setter
                    spec['reorder'] = names[(counter // 7) % len(names)] if counter % 2 else random_order_spec(cls, dim, Lu, rng, ctor=False)
                spec['queries'] = make_queries(rng, Ls, Lu, N, bc_MPS_ != 'finite', 4 if not th else 6,
                                               3, extra_dx=1 if rng.random() < 0.2 else 0)
                spec['queries']['orderings'] = [names[(counter + 1) % len(names)], random_order_spec(cls, dim, Lu, rng, ctor=False)]
                if dim >= 3 and Lu > 1:
                    # a priority whose argsort is not its own inverse (needs three spatial directions for a grouped order)
                    cyc = list(range(1, dim)) + [0]
                    if counter % 2:
                        cyc = [cyc.index(a) for a in range(dim)]
                    spec['queries']['orderings'].append(['grouped', [[u] for u in range(Lu - 1, -1, -1)], cyc + [dim]])
                specs.append(spec)
    # ---- MultiSpeciesLattice, IrregularLattice, HelicalLattice on top of sampled regular lattices
    base = [s for s in specs if s['cls'] != 'Lattice' or len(s['Ls']) <= 3]
    n_wrap = ctx.pick(150, 900) * scale
    for k in range(n_wrap):
        b = rng.choice(base)
        s = {key: b[key] for key in ('cls', 'Ls', 'Lu', 'order', 'bc', 'bc_MPS')}
        s['custom_perm'] = None
        Nreg = int(math.prod(s['Ls'])) * s['Lu']
        kind = ('multi', 'irregular', 'irregular')[k % 3]
        s['kind'] = kind
        Ls = s['Ls']
        inf = s['bc_MPS'] != 'finite'
        if kind == 'multi':
            if isinstance(s['order'], list) and s['order'][0] == 'grouped':
                s['order'] = 'default'
            if isinstance(s['order'], list) and s['order'][0] == 'standard' and len(s['order'][1]) == len(Ls):
                # SimpleLattice constructor form -> the full form ordering() expects
                s['order'] = ['standard', list(s['order'][1]) + [False], list(s['order'][2]) + [max(s['order'][2]) + 1.0]]
            nsp = rng.choice([2, 2, 3])
            if Nreg * nsp > 40:
                nsp = 2
            s['wrap'] = {'kind': 'multi', 'n_species': nsp}
            Lu2 = s['Lu'] * nsp
            if rng.random() < 0.3:
                s['custom_perm'] = list(range(Nreg * nsp))
                rng.shuffle(s['custom_perm'])
            s['queries'] = make_queries(rng, Ls, Lu2, Nreg * nsp, inf, 4, 2)
        else:
            if rng.random() < 0.3:
                s['custom_perm'] = list(range(Nreg))
                rng.shuffle(s['custom_perm'])
            allsites = [list(x) + [u] for x in itertools.product(*[range(L) for L in Ls]) for u in range(s['Lu'])]
            nrem = rng.randint(0, min(3, Nreg - 1))
            rem = rng.sample(allsites, nrem)
            n_add_uc = rng.choice([0, 1, 1])
            add = None
            if n_add_uc:
                cells = [list(x) for x in itertools.product(*[range(L) for L in Ls])]
                pts = rng.sample(cells, rng.randint(1, min(2, len(cells))))
                add = [[p + [s['Lu']] for p in pts],
                       [rng.choice([None, rng.randrange(Nreg) + 0.5, -0.5]) for _ in pts]]
            if nrem == 0 and not add:
                rem = [rng.choice(allsites)] if Nreg > 1 else []
            s['wrap'] = {'kind': 'irregular', 'remove': rem, 'add': add, 'n_add_uc': n_add_uc}
            Lu2 = s['Lu'] + n_add_uc
            Nirr = Nreg - len(rem) + (len(add[0]) if add else 0)
            s['queries'] = make_queries(rng, Ls, Lu2, Nirr, inf, 4, 2)
        # ordering() of the wrapped lattice (MultiSpeciesLattice.ordering / IrregularLattice.ordering) with the options of the
        # lattice below; for every fifth lattice the result becomes its order (order setter of the wrapped class, after a first use)
        names = named_orders(s['cls'], len(Ls), s['Lu'], rng)
        s['queries']['orderings'] = [names[k % len(names)], random_order_spec(s['cls'], len(Ls), s['Lu'], rng, ctor=False)]
        s['opts'] = {'bc_roundtrip': k % 5 == 2}
        if k % 5 == 1:
            s['reorder'] = rng.choice(s['queries']['orderings'])
            s['custom_perm'] = None
        specs.append(s)
    # helical: regular 2D lattice with bc ['periodic', -1], infinite, C-style order up to a permutation of u
    for k in range(ctx.pick(24, 120) * scale):
        cls = rng.choice(['Square', 'Triangular', 'Honeycomb', 'Kagome'])
        Ls = [rng.randint(1, 3), rng.randint(1, 4 if th else 3)]
        Lu = CLS_LU[cls]
        ncells = Ls[0] * Ls[1]
        nuc = rng.choice([n for n in range(1, ncells + 1) if ncells % n == 0])
        if Lu > 1 and rng.random() < 0.5:
            us = list(range(Lu))
            rng.shuffle(us)
            order = ['grouped', [us]]         # C-style up to a permutation inside the unit cell
        else:
            order = 'Cstyle'
        s = {'cls': cls, 'Ls': Ls, 'Lu': Lu, 'order': order, 'custom_perm': None, 'bc': ['periodic', -1],
             'bc_MPS': 'infinite', 'wrap': {'kind': 'helical', 'N_unit_cells': nuc}, 'kind': 'helical'}
        s['queries'] = make_queries(rng, Ls, Lu, ncells * Lu, True, 4, 2)
        # HelicalLattice.ordering: the only freedom is the order inside the unit cell
        us = list(range(Lu))
        rng.shuffle(us)
        s['queries']['orderings'] = ['Cstyle', ['grouped', [us]]]
        specs.append(s)
    # the predefined pairs of the wrapped lattices are compared with the site positions as well
    for s in specs:
        if s['wrap'] is not None:
            s['queries']['geometry'] = True
    specs += gen_transformed(ctx, scale, specs)
    specs += gen_multi_geometry(ctx, scale)
    # geometry: one open finite lattice per class and size, queries = the predefined pairs (filled in by the runner)
    for (cls, Ls, Lu) in fam:
        if cls == 'Lattice' or min(Ls) < 2:
            continue
        s = {'cls': cls, 'Ls': Ls, 'Lu': Lu, 'order': 'default', 'custom_perm': None, 'bc': ['open'] * len(Ls),
             'bc_MPS': 'finite', 'wrap': None, 'kind': 'geometry'}
        N = int(math.prod(Ls)) * Lu
        s['queries'] = make_queries(rng, Ls, Lu, N, False, 9, 0)
        s['queries']['geometry'] = True
        specs.append(s)
    specs += gen_geometry_options(ctx, scale, fam)
    return specs


def gen_geometry_options(ctx, scale, fam):
    """(a) generic Lattice with its own basis and unit cell positions, whose pairs are the shells found by
    find_coupling_pairs (the documented use); (b) lattices with position_disorder: position() and the distance() arrays
    of every predefined pair against the positions of the coupled sites; open and periodic directions, finite and
    infinite MPS, also under an IrregularLattice with removed sites."""
    rng = ctx.rng
    out = []
    for k in range(ctx.pick(10, 40) * scale):
        Ls = rng.choice([[3], [2, 2], [3, 2], [2, 3]])
        d = len(Ls)
        Lu = rng.choice([1, 2, 2, 3])
        if d == 1:
            basis = [[round(rng.uniform(1.0, 1.3), 3), 0.0]]
        else:
            basis = [[1.0, 0.0], [round(rng.uniform(-0.4, 0.4), 3), round(rng.uniform(1.0, 1.3), 3)]]
        positions = [[round(rng.uniform(0, 0.55), 3), round(rng.uniform(0, 0.55), 3)] for _ in range(Lu)]
        s = {'cls': 'Lattice', 'Ls': Ls, 'Lu': Lu, 'order': rng.choice(['default', 'snake', 'Fstyle']), 'custom_perm': None,
             'bc': ['open'] * d, 'bc_MPS': 'finite', 'wrap': None, 'kind': 'geometry',
             'geom': {'basis': basis, 'positions': positions}}
        s['queries'] = make_queries(rng, Ls, Lu, int(math.prod(Ls)) * Lu, False, 9, 0)
        s['queries']['geometry'] = True
        s['queries']['max_dx'], s['queries']['cutoff'], s['queries']['fcp_defaults'] = 2, rng.choice([None, 1.503]), False
        out.append(s)
    # SimpleLattice: the position of its single site given as one vector (Chain: embedded into the plane by a 2D basis vector)
    for (cls, Ls) in (('Chain', [3]), ('Chain', [4]), ('Square', [2, 3]), ('Triangular', [3, 2]), ('Square', [3, 3]))[: ctx.pick(3, 5)]:
        geom = {'positions': [round(rng.uniform(0, 0.5), 3), round(rng.uniform(0, 0.5), 3)]}
        if cls == 'Chain':
            geom['basis'] = [[1.0, 0.0]]
        s = {'cls': cls, 'Ls': Ls, 'Lu': 1, 'order': 'default', 'custom_perm': None, 'bc': ['open'] * len(Ls), 'bc_MPS': 'finite',
             'wrap': None, 'kind': 'geometry', 'geom': geom}
        s['queries'] = make_queries(rng, Ls, 1, int(math.prod(Ls)), False, 9, 0)
        s['queries']['geometry'] = True
        s['queries']['max_dx'], s['queries']['cutoff'], s['queries']['fcp_defaults'] = 2, None, False
        out.append(s)
    cands = [f for f in fam if f[0] not in ('Lattice', 'Trivial') and int(math.prod(f[1])) * f[2] <= 27]
    for k in range(ctx.pick(24, 120) * scale):
        cls, Ls, Lu = cands[k % len(cands)] if k < len(cands) else rng.choice(cands)
        d = len(Ls)
        inf = k % 3 == 0
        bc = ['periodic' if inf else rng.choice(['open', 'periodic'])] + [rng.choice(['open', 'periodic']) for _ in range(d - 1)]
        s = {'cls': cls, 'Ls': Ls, 'Lu': Lu, 'order': rng.choice(named_orders(cls, d, Lu, rng)), 'custom_perm': None,
             'bc': bc, 'bc_MPS': 'infinite' if inf else 'finite', 'wrap': None, 'kind': 'disorder',
             'opts': {'disorder_seed': rng.randrange(10 ** 6)}}
        N = int(math.prod(Ls)) * Lu
        if k % 4 == 1 and N > 2:
            allsites = [list(x) + [u] for x in itertools.product(*[range(L) for L in Ls]) for u in range(Lu)]
            s['wrap'] = {'kind': 'irregular', 'remove': rng.sample(allsites, rng.randint(1, 2)), 'add': None, 'n_add_uc': 0}
            N -= len(s['wrap']['remove'])
        s['queries'] = make_queries(rng, Ls, Lu, N, inf, 3, 1)
        s['queries']['geometry'] = True
        out.append(s)
    return out


# ----------------------------------------------------------------------------------------------------
# oracle: the documented geometry by brute force
# ----------------------------------------------------------------------------------------------------

class Geo:
    """Sites, MPS indices and neighbours straight from the class documentation of Lattice:
    site i of the MPS is order[i]; (x_0 + Ls[0], ...) has MPS index i + N_sites for infinite MPS;
    periodic directions are taken modulo Ls, an integer bc shifts by -shift along x_0 when going around."""

    def __init__(self, Ls, bc, bc_MPS, order, helical=None):
        self.Ls = list(Ls)
        self.d = len(Ls)
        self.bc = list(bc)
        self.inf = bc_MPS != 'finite'
        self.order = [tuple(r) for r in order]
        self.pos = {r: k for k, r in enumerate(self.order)}
        self.N = len(self.order)
        self.helical = helical          # (Ly, Lu, upos dict, N_helical)

    def idx(self, x, u):
        if self.helical:
            Ly, Lu, upos, _ = self.helical
            if not 0 <= x[1] < Ly:
                return None
            return (x[0] * Ly + x[1]) * Lu + upos[u]
        for a in range(1, self.d):
            if not 0 <= x[a] < self.Ls[a]:
                return None
        if self.inf:
            q, r = divmod(x[0], self.Ls[0])
            k = self.pos.get((r,) + tuple(x[1:]) + (u,))
            return None if k is None else k + q * self.N
        if not 0 <= x[0] < self.Ls[0]:
            return None
        return self.pos.get(tuple(x) + (u,))

    def site(self, i):
        if self.helical:
            Ly, Lu, upos, _ = self.helical
            c, p = divmod(i, Lu)
            x0, x1 = divmod(c, Ly)
            u = [uu for uu, pp in upos.items() if pp == p][0]
            return (x0, x1, u)
        if self.inf:
            q, r = divmod(i, self.N)
            row = self.order[r]
            return (row[0] + q * self.Ls[0],) + row[1:]
        return self.order[i] if 0 <= i < self.N else None

    def neighbor(self, x, dx):
        y = [a + b for a, b in zip(x, dx)]
        for a in range(1, self.d):
            if 0 <= y[a] < self.Ls[a]:
                continue
            if self.bc[a] == 'open':
                return None
            k, r = divmod(y[a], self.Ls[a])
            y[a] = r
            if isinstance(self.bc[a], int):
                y[0] -= k * self.bc[a]
        if not self.inf:
            if not 0 <= y[0] < self.Ls[0]:
                if self.bc[0] == 'open':
                    return None
                y[0] %= self.Ls[0]
        return tuple(y)

    def x0_range(self, dxs):
        if not self.inf:
            return range(self.Ls[0])
        R = self.Ls[0] + 2
        for dx in dxs:
            r = abs(dx[0])
            for a in range(1, self.d):
                if isinstance(self.bc[a], int):
                    r += abs(self.bc[a]) * (abs(dx[a]) // self.Ls[a] + 1)
            R = max(R, self.Ls[0] + r + 2)
        return range(-R, R + 1)

    def norm_N(self):
        return self.helical[3] if self.helical else self.N

    def cshape(self, lo, hi):
        return [L - (h - l) if b == 'open' else L for L, l, h, b in zip(self.Ls, lo, hi, self.bc)]

    def couplings(self, u1, u2, dx):
        """all (i, j, corner) with i=(x,u1), j=(x+dx,u2) existing sites; infinite: 0 <= min(i,j) < N."""
        lo = [min(0, d) for d in dx]
        hi = [max(0, d) for d in dx]
        cs = self.cshape(lo, hi)
        out = []
        rest = [range(L) for L in self.Ls[1:]]
        for x0 in self.x0_range([dx]):
            for xr in itertools.product(*rest):
                x = (x0,) + xr
                i = self.idx(x, u1)
                if i is None:
                    continue
                y = self.neighbor(x, dx)
                if y is None:
                    continue
                j = self.idx(y, u2)
                if j is None:
                    continue
                if self.inf and not 0 <= min(i, j) < self.norm_N():
                    continue
                if any(c <= 0 for c in cs):
                    corner = None
                else:
                    corner = tuple((xa + l) % c for xa, l, c in zip(x, lo, cs))
                out.append((i, j, corner))
        return sorted(out, key=lambda t: (t[0], t[1])), cs

    def multi(self, ops):
        """possible_multi_couplings docstring: the box spanned by the dx is shifted around the lattice without
        hitting an (open) boundary; one row per position c of its lower left corner."""
        D = self.d
        lo = [min(op[0][a] for op in ops) for a in range(D)]
        hi = [max(op[0][a] for op in ops) for a in range(D)]
        cs = self.cshape(lo, hi)
        out = []
        rest = [range(L) for L in self.Ls[1:]]
        for c0 in self.x0_range([[op[0][a] - lo[a] for a in range(D)] for op in ops]):
            for cr in itertools.product(*rest):
                c = (c0,) + cr
                idxs = []
                for dx, u in ops:
                    y = self.neighbor(c, [dx[a] - lo[a] for a in range(D)])
                    i = None if y is None else self.idx(y, u)
                    if i is None:
                        idxs = None
                        break
                    idxs.append(i)
                if idxs is None:
                    continue
                if self.inf and not 0 <= min(idxs) < self.norm_N():
                    continue
                corner = None if any(s <= 0 for s in cs) else tuple(a % s for a, s in zip(c, cs))
                out.append((tuple(idxs), corner))
        return sorted(out), cs


def expected_full_order(spec, res, eff=None):
    """documented order of the lattice of `spec` (None when the documentation does not fix it)."""
    eff = eff or effective(spec)
    Ls, Lu = spec['Ls'], spec['Lu']
    w = spec['wrap']
    if spec.get('reorder') is not None:
        spec = dict(spec, order=spec['reorder'], custom_perm=None, reorder=None, other_order=True)
    if (spec.get('other_order') and w is not None and w['kind'] == 'irregular' and w.get('add')
            and any(mp is None for mp in w['add'][1])):
        return None           # (see ctx.assumptions: position of add=(.., [None]) sites under ordering(another order))
    if w is not None and w['kind'] == 'helical':
        # the helix runs C-style through the (possibly enlarged) regular lattice: its first N_unit_cells cells
        base = expected_order(spec['cls'], list(eff['Ls']) + [Lu], spec['order'])
        return None if base is None else base[:eff['nuc'] * Lu][eff['first']:eff['last'] + 1]
    base = expected_order(spec['cls'], list(Ls) + [Lu], spec['order'])
    if base is None:
        return None
    if w is None or w['kind'] == 'irregular':
        if spec.get('custom_perm') is not None:
            base = [base[p] for p in spec['custom_perm']]
    if w is None:
        o = base
    elif w['kind'] == 'multi':
        n = w['n_species']
        o = [r[:-1] + [r[-1] * n + sp] for r in base for sp in range(n)]
        if spec.get('custom_perm') is not None:
            o = [o[p] for p in spec['custom_perm']]
    elif w['kind'] == 'irregular':
        rem = set(tuple(r) for r in (w.get('remove') or []))
        keyed = [(k, 0, k, r) for k, r in enumerate(base) if tuple(r) not in rem]
        if w.get('add'):
            regpos = {tuple(r): k for k, r in enumerate(base)}
            for n, (li, mp) in enumerate(zip(*w['add'])):
                if mp is None:
                    mp = regpos[tuple(li[:-1]) + (Lu - 1,)]
                keyed.append((mp, 1, n, li))
        keyed.sort(key=lambda t: t[:3])
        o = [list(t[3]) for t in keyed]
    else:
        return None
    # enlarge_mps_unit_cell: the MPS unit cell repeated along x; extract_segment: MPS sites first..last of that
    o = [[r[0] + i * Ls[0]] + list(r[1:]) for i in range(eff['factor']) for r in o]
    return o[eff['first']:eff['last'] + 1]


def check_order_semantics(cls, shape, order, rows):
    """doc-level properties of named orders that do not need a reference implementation."""
    probs = []
    sp = std_params(cls, len(shape) - 1, order)
    if sp is None:
        return probs
    snake, prio = sp
    d = len(shape)
    if all(snake) and rows:
        if any(rows[0]):
            probs.append('snake order does not start at the origin')
        for a, b in zip(rows, rows[1:]):
            diff = [abs(x - y) for x, y in zip(a, b)]
            if sum(diff) != 1:
                probs.append('snake order jumps from %s to %s' % (a, b))
                break
    if not any(snake):
        p = prio if prio is not None else list(range(d))
        dirs = sorted(range(d), key=lambda a: p[a])
        keyf = lambda r: tuple(r[a] for a in dirs)
        if [keyf(r) for r in rows] != sorted(keyf(r) for r in rows):
            probs.append('non-snake order is not lexicographic in priority order')
    return probs


MK_SHIFT_OPEN_MULTI = 'C19:possible_multi_couplings:bc_shift+open-x:rows-missing'
MK_MASKED = 'C19:mps2lat_values_masked:outside-unit-cell:x0!=i*N_rings//N_sites'
MK_GROUPED_1D = 'C19:get_order_grouped:1D-lattice-TypeError'
MK_SHIFT_OPEN = 'C19:possible_couplings:bc_shift+open-x:|dx0|>=L0-dropped'
MK_ORDERING_PERM = 'C19:IrregularLattice.ordering:leaves-_perm-of-regular-order'
MK_SITES_CACHE = 'C19:Irregular/HelicalLattice.order-setter:mps_sites-cache-not-reset'


def grouped_1d(order, d):
    return d == 1 and not isinstance(order, str) and order[0] == 'grouped'


def shift_open_full(eff, spread0):
    """open x-direction, a shifted periodic direction and a displacement box as long as the lattice:
    coupling_shape (which ignores bc_shift) has an entry <= 0 and the code returns no coupling."""
    return (eff['bc'][0] == 'open' and any(isinstance(b, int) and b != 0 for b in eff['bc'])
            and spread0 >= eff['Ls'][0])


def oracle_one(args):
    """Checks one lattice; returns (counts [(stream, key, nontrivial, sample)], failures [(what, match_key)], coq info)."""
    spec, res = args
    counts, fails = [], []

    def fail(what, mk=None):
        if len(fails) < 6:
            fails.append((what, mk))
    w = spec['wrap']
    wk = w['kind'] if w else None
    kind = spec['kind']
    tr = spec.get('transform')
    eff = effective(spec)
    Ls = eff['Ls']                 # the shape documented for the (transformed) lattice
    d = len(Ls)
    label = '%s%s %s%s bc=%r/%s order=%s%s%s%s%s' % (spec['cls'], spec['Ls'], kind,
                                                     ('[%s]' % ','.join('%s=%s' % kv for kv in sorted(w.items()) if kv[0] != 'kind')) if w else '',
                                                     spec['bc'], spec['bc_MPS'], spec['order'],
                                                     ' +perm' if spec.get('custom_perm') else '',
                                                     (' then lat.order = lat.ordering(%s)' % (spec['reorder'],)) if spec.get('reorder') is not None else '',
                                                     ' (bc set again from its getter)' if (spec.get('opts') or {}).get('bc_roundtrip') else '',
                                                     transform_text(tr))
    if 'runner_error' in res:
        return counts, [('RUNNER ' + res['runner_error'][-300:], 'runner')], label
    if 'build_error' in res:
        mk = 'C19:build'
        if grouped_1d(order_of(spec), d) and 'numpy.float64' in res['build_error']:
            mk = MK_GROUPED_1D
        return counts, [('constructing the lattice raised %s' % res['build_error'], mk)], label
    Lu = res['shape'][-1]
    order = res['order']
    N = eff['N']                   # the number of sites documented for the (transformed) lattice
    inf = res['bc_MPS'] != 'finite'
    # ---- shape and counts
    if res['Ls'] != Ls or Lu != eff['Lu']:
        fail('lattice shape %s, documented: %s' % (res['shape'], Ls + [eff['Lu']]), 'C19:shape')
    if res['N_sites'] != N:
        fail('N_sites = %d, but the lattice%s has %d sites in the MPS (unit cell) and len(order) = %d'
             % (res['N_sites'], transform_text(tr), N, len(order)), 'C19:N_sites')
    ncells = eff['nuc'] if wk == 'helical' else int(math.prod(Ls))
    if res['N_cells'] != ncells:
        fail('N_cells = %d, expected %d' % (res['N_cells'], ncells), 'C19:N_cells')
    if res['bc_MPS'] != eff['bc_MPS']:
        fail('bc_MPS = %r, documented: %r' % (res['bc_MPS'], eff['bc_MPS']), 'C19:bc_MPS')
    # the boundary conditions as the lattice reports them: .boundary_conditions (getter), .bc (True = open), .bc_shift
    if res['boundary_conditions'] != eff['bc']:
        fail('boundary_conditions = %r after giving bc=%r, documented: %r' % (res['boundary_conditions'], spec['bc'], eff['bc']), 'C19:boundary_conditions')
    want_shift = [b if isinstance(b, int) else 0 for b in eff['bc'][1:]]
    if res['bc_open'] != [b == 'open' for b in eff['bc']] or (res['bc_shift'] or [0] * (d - 1)) != want_shift:
        fail('bc = %r, bc_shift = %r after giving bc=%r' % (res['bc_open'], res['bc_shift'], spec['bc']), 'C19:bc-attributes')
    if res['bc_shift'] is not None and not any(res['bc_shift']):
        fail('bc_shift = %r: documented as None when no direction is shifted' % (res['bc_shift'],), 'C19:bc-attributes')
    # ---- the order: distinct valid lattice indices; all of them for a regular lattice
    rows = [tuple(r) for r in order]
    box_ok = all(len(r) == d + 1 and all(0 <= r[a] < res['shape'][a] for a in range(d + 1)) for r in rows)
    unusable = False
    if len(rows) != N:
        fail('len(order) = %d, but the lattice%s has %d sites' % (len(rows), transform_text(tr), N))
        unusable = True
    if not box_ok:
        fail('order contains an index outside the lattice shape')
        unusable = True
    if len(set(rows)) != len(rows):
        fail('order lists a site twice (MPS index -> lattice index not injective)')
        unusable = True
    full = int(math.prod(res['shape']))
    full_sites = wk in (None, 'multi') and not eff['removed']
    if full_sites and len(set(rows)) != full:
        fail('order of a regular lattice misses sites: %d of %d' % (len(set(rows)), full))
        unusable = True
    exp = expected_full_order(spec, res, eff)
    if exp is not None and [list(r) for r in exp] != order:
        fail('order differs from the documented one for %r%s: got %s expected %s' % (order_of(spec), transform_text(tr), order[:8], exp[:8]),
             'C19:order:' + (order_of(spec) if isinstance(order_of(spec), str) else order_of(spec)[0]))
        unusable = True
    counts.append(('order', [label], N > 1, None))
    if spec.get('reorder') is not None:
        counts.append(('order-setter', [label], N > 1, None))
    if w is None and (spec.get('custom_perm') is None or spec.get('reorder') is not None) and not tr:
        for p in check_order_semantics(spec['cls'], res['shape'], order_of(spec), order):
            fail(p)
            unusable = True
    # extra orderings evaluated through lat.ordering()
    for o, rws in zip(spec['queries'].get('orderings', []), res.get('orderings') or []):
        if isinstance(rws, dict):
            fail('ordering(%r) raised %s' % (o, rws['error']),
                 MK_GROUPED_1D if (grouped_1d(o, d) and 'numpy.float64' in rws['error']) else None)
            unusable = True
            continue
        if tr:
            continue
        if kind != 'regular':
            # ordering() of a MultiSpecies / Irregular / Helical lattice: the order such a lattice would have been given
            if wk is None:
                continue
            e = expected_full_order(dict(spec, order=o, custom_perm=None, reorder=None, other_order=True), res, eff)
            if e is not None and e != rws:
                fail('%s.ordering(%r) differs from the documented order: got %s expected %s'
                     % ({'multi': 'MultiSpeciesLattice', 'irregular': 'IrregularLattice', 'helical': 'HelicalLattice'}[wk], o, rws[:8], e[:8]),
                     'C19:ordering-wrapped:' + wk)
                unusable = True
            if sorted(map(tuple, rws)) != sorted(map(tuple, order)):
                fail('ordering(%r) of the %s lattice does not list the sites of the lattice' % (o, wk), 'C19:ordering-wrapped:' + wk)
                unusable = True
            counts.append(('ordering-wrapped', [label, o], e is not None, None))
            continue
        nf = len(fails)
        e = expected_order(spec['cls'], res['shape'], o)
        if sorted(map(tuple, rws)) != sorted(itertools.product(*[range(L) for L in res['shape']])):
            fail('ordering(%r) is not a permutation of the lattice indices' % (o,))
        if e is not None and e != rws:
            fail('ordering(%r) differs from the documented order: got %s expected %s' % (o, rws[:8], e[:8]),
                 'C19:ordering:' + (o if isinstance(o, str) else o[0]))
        for p in check_order_semantics(spec['cls'], res['shape'], o, rws):
            fail('ordering(%r): %s' % (o, p))
        unusable = unusable or len(fails) > nf
        counts.append(('ordering', [spec['cls'], res['shape'], o], True, None))
    if res.get('ordering_changed_perm'):
        pb, pa = res['ordering_changed_perm']
        irr = wk == 'irregular' and (w.get('remove') or None) is not None and sorted(pa) == list(range(len(pa)))
        fail('lat.ordering(%s) is a query, but afterwards the table behind lat2mps_idx (lat._perm) is %s instead of %s: lat2mps_idx and '
             'possible_couplings of the lattice are wrong from then on' % (spec['queries'].get('orderings'), pa[:10], pb[:10]),
             MK_ORDERING_PERM if irr else 'C19:ordering-changes-lattice')
    if unusable:
        return counts, fails, label
    # ---- geometry object (built on the documented shape, boundary conditions and site count)
    helical = None
    if wk == 'helical':
        upos = {r[-1]: k for k, r in enumerate(order[:Lu])}
        helical = (Ls[1], Lu, upos, N)
    geo = Geo(Ls, eff['bc'], eff['bc_MPS'], order, helical)
    q = spec['queries']
    # ---- index maps
    m2l = res['mps2lat']
    l2m = res['lat2mps']
    if isinstance(m2l, dict) or isinstance(l2m, dict):
        fail('mps2lat_idx / lat2mps_idx raised: %s %s' % (m2l if isinstance(m2l, dict) else '', l2m if isinstance(l2m, dict) else ''))
        return counts, fails, label
    tab_l2m = {}
    for x, i in zip(q['lat_idx'], l2m):
        tab_l2m[tuple(x)] = i
    tab_m2l = {}
    for i, x in zip(q['mps_idx'], m2l):
        tab_m2l[i] = tuple(x)
        e = geo.site(i)
        if tuple(x) != e:
            fail('mps2lat_idx(%d) = %s, documented site %s' % (i, x, e), 'C19:mps2lat')
        back = tab_l2m.get(tuple(x))
        if back is not None and back != i:
            fail('lat2mps_idx(mps2lat_idx(%d)) = %d' % (i, back), 'C19:roundtrip')
        counts.append(('mps2lat', [label, i], not 0 <= i < N or i > 0, None))
    for x, i in tab_l2m.items():
        e = geo.idx(x[:-1], x[-1])
        if e is None:
            continue                       # removed / not existing site: no documented value
        if i != e:
            fail('lat2mps_idx(%s) = %d, documented index %s' % (list(x), i, e), 'C19:lat2mps')
        if i in tab_m2l and tab_m2l[i] != x:
            fail('mps2lat_idx(lat2mps_idx(%s)) = %s' % (list(x), tab_m2l[i]), 'C19:roundtrip')
        counts.append(('lat2mps', [label, x], True, None))
    vals = sorted(v for x, v in tab_l2m.items() if geo.idx(x[:-1], x[-1]) is not None)
    if len(set(vals)) != len(vals):
        fail('lat2mps_idx is not injective on existing sites')
    for a, b in ((res['mps2lat_single'], [m2l[k] for k in range(0, len(m2l), max(1, len(m2l) // 6))]),
                 (res['lat2mps_single'], [l2m[k] for k in range(0, len(l2m), max(1, len(l2m) // 6))])):
        if a != b:
            fail('scalar and array calls of an index map disagree: %s vs %s' % (a, b))
    # mps_idx_fix_u
    fu = res['fix_u']
    for u in range(Lu):
        e = [k for k, r in enumerate(order) if r[-1] == u]
        if fu[u] != e:
            fail('mps_idx_fix_u(%d) = %s, sites with that u are %s' % (u, fu[u], e), 'C19:fix_u')
        lf = res['lat_fix_u'][u]
        if lf[0] != e or [list(order[k][:-1]) for k in e] != (lf[1] if e else []):
            fail('mps_lat_idx_fix_u(%d) inconsistent with order' % u)
    if sorted(res['fix_u_none']) != list(range(N)):
        fail('mps_idx_fix_u(None) = %s is not the set of all MPS indices' % res['fix_u_none'][:12],
             'C19:%s.mps_idx_fix_u(None):not-all-sites' % ({'helical': 'HelicalLattice', 'irregular': 'IrregularLattice'}.get(kind, 'Lattice')))
    # ---- couplings
    for (u1, u2, dx), r in zip(q['couplings'], res['couplings']):
        if 'error' in r:
            fail('possible_couplings(%d,%d,%s) raised %s' % (u1, u2, dx, r['error']), 'C19:couplings-raise')
            continue
        e, cs = geo.couplings(u1, u2, dx)
        got_shape = list(r['shape'])
        if got_shape != cs or r['cshape'] != cs or r['cshift'] != [min(0, x) for x in dx]:
            fail('coupling_shape(%s) = %s/%s shift %s, documented %s' % (dx, got_shape, r['cshape'], r['cshift'], cs), 'C19:coupling_shape')
        lat_rows = r['lat'] if r['lat'] else [None] * len(r['i'])
        got = sorted(((i, j, (tuple(li) if li is not None else None)) for i, j, li in zip(r['i'], r['j'], lat_rows)),
                     key=lambda t: (t[0], t[1]))
        gp = [(a, b) for a, b, _ in got]
        ep = [(a, b) for a, b, _ in e]
        nontriv = len(e) > 0
        if gp != ep and not gp and shift_open_full(eff, abs(dx[0])):
            fail('possible_couplings(u1=%d,u2=%d,dx=%s) returns nothing, but %s are pairs of existing sites separated by dx under '
                 'the shifted boundary conditions' % (u1, u2, dx, ep[:4]), MK_SHIFT_OPEN)
        elif gp != ep:
            miss = [p for p in ep if p not in gp][:4]
            extra = [p for p in gp if p not in ep][:4]
            dup = len(gp) != len(set(gp))
            fail('possible_couplings(u1=%d,u2=%d,dx=%s): pairs differ from the brute-force enumeration; missing %s, '
                 'unexpected %s%s' % (u1, u2, dx, miss, extra, ', duplicates' if dup else ''), 'C19:couplings')
        elif all(c > 0 for c in cs) and any(g[2] != x[2] for g, x in zip(got, e)):
            fail('possible_couplings(u1=%d,u2=%d,dx=%s): lat_indices %s, lower-left corners are %s'
                 % (u1, u2, dx, [g[2] for g in got][:6], [x[2] for x in e][:6]), 'C19:lat_indices')
        if 's_v' in r and gp == ep and any(c == 0 for c in cs):
            if r['s_i'] or r['s_j'] or r['s_v']:
                fail('possible_couplings(u1=%d,u2=%d,dx=%s, strength=2.5) = %s although the coupling shape %s has no entry'
                     % (u1, u2, dx, (r['s_i'], r['s_j'], r['s_v']), cs), 'C19:strength')
        if 's_v' in r and gp == ep and all(c > 0 for c in cs):
            # strength given as full array / array containing zeros (those couplings are documented to be dropped) / scalar
            sval = STRENGTH_FORMS[r.get('spat', 0)]
            want = sorted((i, j, sval(flat_c(c, cs))) for i, j, c in e if sval(flat_c(c, cs)) != 0)
            gots = sorted(zip(r['s_i'], r['s_j'], r['s_v']))
            if want != gots:
                fail('possible_couplings(u1=%d,u2=%d,dx=%s, strength=%s): (i, j, strength) = %s, expected strength[corner] of the non-zero '
                     'entries: %s' % (u1, u2, dx, STRENGTH_TEXT[r.get('spat', 0)], gots[:6], want[:6]), 'C19:strength')
            counts.append(('strength', [label, u1, u2, dx], len(want) > 0, None))
        counts.append(('couplings', [label, u1, u2, dx], nontriv,
                       {'lattice': label, 'u1': u1, 'u2': u2, 'dx': dx, 'pairs': gp[:6]} if nontriv and any(dx) else None))
    for ops, r in zip(q['multi'], res['multi']):
        if 'error' in r:
            fail('possible_multi_couplings(%s) raised %s' % (ops, r['error']), 'C19:multi-raise')
            continue
        e, cs = geo.multi(ops)
        if list(r['shape']) != cs:
            fail('multi_coupling_shape(%s) = %s, documented %s' % (ops, r['shape'], cs), 'C19:multi_shape')
        got = sorted((tuple(a), tuple(b)) for a, b in zip(r['ijkl'], r['lat']))
        spread0 = max(o[0][0] for o in ops) - min(o[0][0] for o in ops)
        if not got and e and shift_open_full(eff, spread0):
            fail('possible_multi_couplings(%s) returns nothing, but %s exist under the shifted boundary conditions' % (ops, [x[0] for x in e][:4]),
                 MK_SHIFT_OPEN)
        elif (eff['bc'][0] == 'open' and any(isinstance(b, int) and b != 0 for b in eff['bc'])
              and len(got) < len(e) and set(got) <= set(e)):
            fail('possible_multi_couplings(%s) misses rows %s (open x-direction + shifted bc)' % (ops, sorted(set(x[0] for x in e) - set(g[0] for g in got))[:4]),
                 MK_SHIFT_OPEN_MULTI)
        elif [g[0] for g in got] != [x[0] for x in e]:
            fail('possible_multi_couplings(%s): index tuples %s differ from brute force %s' % (ops, [g[0] for g in got][:6], [x[0] for x in e][:6]),
                 'C19:multi')
        elif got != e:
            fail('possible_multi_couplings(%s): lat_indices %s, corners %s' % (ops, [g[1] for g in got][:6], [x[1] for x in e][:6]),
                 'C19:multi-lat_indices')
        lo_ops = [min(o[0][a] for o in ops) for a in range(d)]
        if 'mshape' in r and (r['mshape'] != cs or r['mshift'] != lo_ops):
            fail('multi_coupling_shape(%s) = (%s, %s), documented: shape %s and the lower left corner %s of the box spanned by the dx'
                 % ([o[0] for o in ops], r['mshape'], r['mshift'], cs, lo_ops), 'C19:multi_coupling_shape')
        if 's_v' in r and got == e and any(c == 0 for c in cs) and (r['s_ijkl'] or r['s_v']):
            fail('possible_multi_couplings(%s, strength=2.5) returns rows although the coupling shape %s has no entry' % (ops, cs), 'C19:multi-strength')
        if 's_v' in r and got == e and all(c > 0 for c in cs):
            sval = STRENGTH_FORMS[r.get('spat', 0)]
            want = sorted((i, sval(flat_c(c, cs))) for i, c in e if sval(flat_c(c, cs)) != 0)
            gots = sorted((tuple(a), v) for a, v in zip(r['s_ijkl'], r['s_v']))
            if want != gots:
                fail('possible_multi_couplings(%s, strength=%s): (ijkl, strength) = %s, expected %s'
                     % (ops, STRENGTH_TEXT[r.get('spat', 0)], gots[:4], want[:4]), 'C19:multi-strength')
        counts.append(('multi', [label, ops], len(e) > 0, None))
    for (km, kc) in q.get('multi_from_c', []):
        if km >= len(res['multi']) or kc >= len(res['couplings']):
            continue
        rm, rc = res['multi'][km], res['couplings'][kc]
        if 'error' in rm or 'error' in rc:
            continue
        if eff['bc'][0] == 'open' and any(isinstance(b, int) and b != 0 for b in eff['bc']):
            continue              # known findings F19.2 / F19.4 (reported by the brute-force comparison above)
        pm = sorted(tuple(x) for x in rm['ijkl'])
        pcs = sorted(zip(rc['i'], rc['j']))
        if pm != pcs or list(rm['shape']) != list(rc['shape']):
            fail('possible_couplings(%s) and possible_multi_couplings(%s) enumerate different couplings: %s (shape %s) vs %s (shape %s)'
                 % (q['couplings'][kc], q['multi'][km], pcs[:6], rc['shape'], pm[:6], rm['shape']), 'C19:couplings-vs-multi')
        elif (not any(isinstance(b, int) and b != 0 for b in eff['bc'])
              and sorted((tuple(a), tuple(b)) for a, b in zip(rm['ijkl'], rm['lat'])) != sorted(((i, j), tuple(li)) for i, j, li in zip(rc['i'], rc['j'], rc['lat'] or []))):
            # (with a shifted boundary the two functions label the box differently when the first site itself wraps: not compared)
            fail('possible_couplings(%s) and possible_multi_couplings(%s) give different lat_indices' % (q['couplings'][kc], q['multi'][km]),
                 'C19:couplings-vs-multi')
        counts.append(('couplings-vs-multi', [label, q['couplings'][kc]], len(pm) > 0, None))
    # ---- mps2lat_values
    if full_sites:
        v = res['values']
        if isinstance(v, dict):
            fail('mps2lat_values raised %s' % v['error'], 'C19:values-raise')
        else:
            simple = spec['cls'] in ('Chain', 'Square', 'Triangular') and wk != 'multi'
            for k, r in enumerate(order):
                a = v
                for c in (r[:-1] if simple else r):
                    a = a[c]
                if a != 1000 + k:
                    fail('mps2lat_values: value of MPS site %d is not at its lattice index %s' % (k, r), 'C19:values')
                    break
            vu = res['values_u']
            if isinstance(vu, dict):
                fail('mps2lat_values(u=...) raised %s' % vu['error'], 'C19:values-raise')
            else:
                for k, r in enumerate(order):
                    a = vu[0 if simple else r[-1]]
                    for c in r[:-1]:
                        a = a[c]
                    if a != 1000 + k:
                        fail('mps2lat_values(u=%d): value of MPS site %d is not at %s' % (r[-1], k, r[:-1]), 'C19:values')
                        break
            if 'values2' in res:
                v2 = res['values2']
                if isinstance(v2, dict):
                    fail('mps2lat_values(axes=[-1,0]) raised %s' % v2['error'])
                else:
                    bad = False
                    for k1, r1 in enumerate(order):
                        for k2, r2 in enumerate(order):
                            for m in range(2):
                                a = v2
                                for c in (list(r1[:-1] if simple else r1) + [m] + list(r2[:-1] if simple else r2)):
                                    a = a[c]
                                if a != k1 * 10000 + m * 1000000 + k2:
                                    bad = True
                    if bad:
                        fail('mps2lat_values(axes=[-1,0]) misplaces values', 'C19:values')
            counts.append(('values', [label], N > 1, None))
    vm = res['values_masked']
    # the layout the axis sizing assumes: rings of equal size, one after the other
    x0_slowest = N % Ls[0] == 0 and all(r[0] == k // (N // Ls[0]) for k, r in enumerate(order))
    if isinstance(vm, dict):
        fail('mps2lat_values_masked raised %s' % vm['error'],
             MK_MASKED if (inf and not x0_slowest and 'IndexError' in vm['error']) else 'C19:masked-raise')
    else:
        for r in vm:
            inds = r['inds']
            incl = r['incl'] if r['incl'] is not None else (Lu > 1)
            sites = [geo.site(i) for i in inds]
            keys = [s if incl else s[:-1] for s in sites]
            if len(set(keys)) != len(keys):
                continue                        # several values for one entry: not defined
            nun = 0
            stack = [r['mask']]
            while stack:
                a = stack.pop()
                if isinstance(a, list):
                    stack.extend(a)
                else:
                    nun += (a == 0)
            ok = nun == len(inds)
            for i, key in zip(inds, keys):
                a, m = r['data'], r['mask']
                try:
                    for c in key:
                        a, m = a[c], m[c]
                except IndexError:
                    ok = False
                    break
                if a != 5000 + i or m != 0:
                    ok = False
            if not ok:
                outside = any(not 0 <= i < N for i in inds)
                fail('mps2lat_values_masked(mps_inds=%s, include_u=%s) does not put each value at its lattice index' % (inds, r['incl']),
                     MK_MASKED if (inf and outside and not x0_slowest) else 'C19:masked')
            counts.append(('values_masked', [label, inds, r['incl']], True, None))
    extras_checks(spec, eff, res, geo, fail, counts, label, full_sites)
    # ---- geometry of the predefined pairs
    if q.get('geometry'):
        g = res.get('geometry')
        if g is None or 'error' in g:
            fail('geometry queries raised %s' % (g,))
        else:
            geometry_checks(spec, eff, res, g, geo, fail, counts, label)
    return counts, fails, label


STRENGTH_FORMS = {0: lambda f: float(f + 1), 1: lambda f: float(f % 3), 2: lambda f: 2.5}
STRENGTH_TEXT = {0: 'arange(1, n+1).reshape(coupling_shape)', 1: '(arange(n) % 3).reshape(coupling_shape)', 2: '2.5'}


def nested_get(a, idx):
    for c in idx:
        a = a[c]
    return a


def count_unmasked(mask):
    n = 0
    stack = [mask]
    while stack:
        a = stack.pop()
        if isinstance(a, list):
            stack.extend(a)
        else:
            n += (a == 0)
    return n


def extras_checks(spec, eff, res, geo, fail, counts, label, full_sites):
    """Other documented argument forms of the queries, results used as arguments of the inverse map, repeated queries and the
    state of the lattice object after all queries."""
    ex = res.get('extras') or {}
    q = spec['queries']
    w = spec['wrap']
    wk = w['kind'] if w else None
    N = eff['N']
    order = res['order']
    Lu = res['shape'][-1]
    d = len(eff['Ls'])
    inf = eff['inf']
    m2l, l2m = res['mps2lat'], res['lat2mps']
    mi, li = q['mps_idx'], q['lat_idx']
    step_m, step_l = max(1, len(mi) // 6), max(1, len(li) // 6)

    def err(name, v):
        if isinstance(v, dict) and 'error' in v:
            fail('%s raised %s' % (name, v['error']), 'C19:extras-raise:' + name)
            return True
        return v is None
    # ---- the lattice object is the same after the queries as before (the returned arrays were overwritten by the runner)
    s0, s1 = res.get('snap0'), res.get('snap1')
    if not err('reading the attributes of the lattice', s0) and not err('reading the attributes of the lattice', s1):
        for key in sorted(s0):
            if s0[key] != s1.get(key):
                what = {'order': 'lat.order', 'perm': 'lat._perm (lat2mps_idx table)', 'fix_u': 'the mps_idx_fix_u tables',
                        '_mps2lat_vals_idx': 'the mps2lat_values table', 'reg_order': 'regular_lattice.order'}.get(key, 'lat.' + key)
                fail('%s was changed by the queries (index maps, couplings, values; returned arrays overwritten afterwards): before %s, after %s'
                     % (what, str(s0[key])[:160], str(s1.get(key))[:160]), 'C19:object-changed-by-queries:' + key)
        if s0['order'] != order:
            fail('lat.order read twice gives different values', 'C19:object-changed-by-queries:order')
        counts.append(('object-unchanged', [label], True, None))
    if res.get('l2m_arg_changed'):
        fail('lat2mps_idx changed the index array given as its argument', 'C19:lat2mps-argument-changed')
    rp = ex.get('repeat')
    if not err('repeating the queries', rp):
        for key, first in (('mps2lat', m2l), ('mps2lat_single', res.get('mps2lat_single')), ('lat2mps', l2m)):
            if key in rp and rp[key] != first:
                k = next((n for n, (a, b) in enumerate(zip(rp[key], first)) if a != b), 0)
                arg = (mi[k] if key == 'mps2lat' else mi[::step_m][k] if key == 'mps2lat_single' else li[k])
                fail('%s(%s) = %s in the first call and %s when the same query is repeated on the same lattice'
                     % (key.replace('_single', '').replace('mps2lat', 'mps2lat_idx').replace('lat2mps', 'lat2mps_idx'), arg, first[k] if k < len(first) else None,
                        rp[key][k] if k < len(rp[key]) else None), 'C19:repeated-query-differs:' + key)
        cq = {(u1, u2, tuple(dx)): r for (u1, u2, dx), r in zip(q['couplings'], res['couplings'])}
        for (u1, u2, dx), i2, j2 in rp.get('couplings', []):
            r = cq.get((u1, u2, tuple(dx)))
            if r is not None and 'error' not in r and (r['i'] != i2 or r['j'] != j2):
                fail('possible_couplings(%d, %d, %s) = %s first and %s when repeated' % (u1, u2, dx, list(zip(r['i'], r['j']))[:6], list(zip(i2, j2))[:6]),
                     'C19:repeated-query-differs:couplings')
        for ops, r, again in zip(q['multi'], res['multi'], rp.get('multi', [])):
            if 'error' not in r and r['ijkl'] != again:
                fail('possible_multi_couplings(%s) differs when repeated' % (ops,), 'C19:repeated-query-differs:multi')
        counts.append(('repeated-queries', [label], True, None))
    # ---- argument forms of the index maps
    fm = ex.get('forms_m2l')
    if not err('mps2lat_idx(list / 2D array / numpy integer)', fm):
        if fm['list'] != m2l:
            fail('mps2lat_idx(list of int) differs from mps2lat_idx(array): %s vs %s' % (fm['list'][:5], m2l[:5]), 'C19:mps2lat-forms')
        h = len(mi) // 2
        if h and (fm['2d'] != [m2l[:h], m2l[h:2 * h]]):
            fail('mps2lat_idx of a 2D array of shape (2, %d) is not the array of the lattice indices of its entries' % h, 'C19:mps2lat-forms')
        if fm['npint'] != [m2l[k] for k in range(0, len(m2l), step_m)]:
            fail('mps2lat_idx(numpy integer) differs from mps2lat_idx(array)', 'C19:mps2lat-forms')
        counts.append(('index-forms', [label, 'mps2lat'], True, None))
    fl = ex.get('forms_l2m')
    if not err('lat2mps_idx(tuple / 3D array / nested list)', fl):
        if fl['tuple'] != [l2m[k] for k in range(0, len(l2m), step_l)]:
            fail('lat2mps_idx(tuple) differs from lat2mps_idx(array)', 'C19:lat2mps-forms')
        h = len(li) // 2
        if h and fl['3d'] != [l2m[:h], l2m[h:2 * h]]:
            fail('lat2mps_idx of an index array of shape (2, %d, %d) is not the array of the MPS indices of its rows' % (h, d + 1), 'C19:lat2mps-forms')
        if fl['nested_list'] != l2m[:7]:
            fail('lat2mps_idx(list of lists) differs from lat2mps_idx(array)', 'C19:lat2mps-forms')
        counts.append(('index-forms', [label, 'lat2mps'], True, None))
    rt = ex.get('roundtrip')
    if mi and not err('lat2mps_idx(mps2lat_idx(i))', rt):
        if rt['l2m_of_m2l'] != mi:
            k = next(n for n, (a, b) in enumerate(zip(rt['l2m_of_m2l'], mi)) if a != b)
            fail('lat2mps_idx(mps2lat_idx(i)) = %d for i = %d (the array returned by mps2lat_idx given to lat2mps_idx)' % (rt['l2m_of_m2l'][k], mi[k]),
                 'C19:roundtrip')
        elif rt['m2l_again'] != m2l:
            fail('mps2lat_idx(lat2mps_idx(mps2lat_idx(i))) differs from mps2lat_idx(i)', 'C19:roundtrip')
        counts.append(('roundtrip-direct', [label], N > 1, None))
    fd, lfn = ex.get('fix_u_default'), ex.get('lat_fix_u_none')
    if not err('mps_idx_fix_u()', fd) and fd != res['fix_u_none']:
        fail('mps_idx_fix_u() differs from mps_idx_fix_u(None)', 'C19:fix_u')
    if not err('mps_lat_idx_fix_u()', lfn):
        if sorted(lfn[0]) != list(range(N)) or any(0 <= k < N and list(order[k][:-1]) != row for k, row in zip(lfn[0], lfn[1])) or len(lfn[1]) != len(lfn[0]):
            fail('mps_lat_idx_fix_u(None) = %s: not all MPS indices with the lattice indices (without u) of their sites' % (lfn,), 'C19:fix_u')
    # ---- the sites of the MPS: site(i) is unit_cell[u] of the lattice index of i (also after the order was set again / the unit cell enlarged)
    ucl, ms = res.get('uc_labels'), res.get('mps_sites')
    if not err('unit_cell', ucl) and not err('mps_sites()', ms):
        want = [ucl[r[-1]] if r[-1] < len(ucl) else None for r in order]
        # IrregularLattice / HelicalLattice whose order was set again (ordering() + setter, enlarge_mps_unit_cell) after
        # mps_sites() had been called: known finding when the list is exactly the one from before
        tr = spec.get('transform')
        before = (res.get('base') or {}).get('mps_sites') if tr else (res.get('probes') or {}).get('pre_reorder_sites')
        stale = (wk in ('irregular', 'helical') and (spec.get('reorder') is not None or (tr and eff['factor'] > 1))
                 and before is not None and ms == before)
        mk = MK_SITES_CACHE if stale else 'C19:mps_sites'
        if ms != want:
            fail('mps_sites() = %s (%d sites), but the sites of the unit cell at the lattice indices of order are %s (%d sites)%s'
                 % (ms[:8], len(ms), want[:8], len(want), ' - the list is the one cached before the order of the lattice changed' if stale else ''), mk)
        else:
            si = res.get('site_i')
            if not err('site(i)', si):
                for i, lab in si:
                    if lab != want[i]:
                        fail('site(%d) = %r, the site at mps2lat_idx(%d) = %s is %r' % (i, lab, i, order[i], want[i]), mk)
            if rp and isinstance(rp, dict) and rp.get('mps_sites') not in (None, ms):
                fail('mps_sites() differs when called again', 'C19:mps_sites')
        for u, lst in enumerate(res['fix_u']):
            if ms == want and any(ms[i] != ucl[u] for i in lst):
                fail('mps_idx_fix_u(%d) contains an MPS index whose site(i) is not unit_cell[%d]' % (u, u), 'C19:fix_u')
        us = ex.get('unit_cell_set')
        if not err('assigning lat.unit_cell', us):
            want_v = ['v%d' % r[-1] for r in order]
            if us['new'] != want_v or us['restored'] != want:
                fail('after lat.unit_cell = [...] mps_sites() = %s, the sites of the new unit cell along the order are %s (restored: %s)'
                     % (us['new'][:8], want_v[:8], us['restored'][:8]), 'C19:unit_cell-setter')
        counts.append(('mps_sites', [label], len(set(want)) > 1, None))
    ba = res.get('base_after')
    if ba:
        b0 = res['base']
        for key in ('Ls', 'N_sites', 'order', 'bc_MPS', 'boundary_conditions', 'mps_sites'):
            if b0.get(key) != ba.get(key):
                fail('extract_segment returns a copy, but %s of the lattice it was called on changed from %s to %s'
                     % (key, str(b0.get(key))[:120], str(ba.get(key))[:120]), 'C19:extract_segment-changes-self:' + key)
        counts.append(('extract_segment-self-unchanged', [label], True, None))
    # ---- mps2lat_values: other forms of `axes`, u together with several axes
    vf = ex.get('values_forms')
    simple = spec['cls'] in ('Chain', 'Square', 'Triangular') and wk != 'multi'
    if full_sites and vf is not None and not err('mps2lat_values(A, axes=(0,) / 1 / -1)', vf):
        for name in ('ax0', 'ax1', 'axm1'):
            v = vf[name]
            bad = None
            for k, r in enumerate(order):
                idx = list(r[:-1] if simple else r)
                for j in range(3):
                    try:
                        a = nested_get(v, idx + [j]) if name == 'ax0' else nested_get(v, [j] + idx)
                    except (IndexError, TypeError):
                        a = None
                    if a != k * 10 + j:
                        bad = (k, r, j, a)
            if bad:
                fail('mps2lat_values(A, axes=%s) for a 2D array: the value %d of MPS site %d (column %d) is not at its lattice index %s (found %s)'
                     % ({'ax0': '(0,)', 'ax1': '1', 'axm1': '-1'}[name], bad[0] * 10 + bad[2], bad[0], bad[2], bad[1], bad[3]), 'C19:values')
        if 'u2' in vf:
            u = 0 if simple else vf['u2']['u']
            cells = [r[:-1] for r in order if r[-1] == u]
            bad = False
            for k1, c1 in enumerate(cells):
                for k2, c2 in enumerate(cells):
                    try:
                        bad = bad or nested_get(vf['u2']['val'], list(c1) + list(c2)) != k1 * 100 + k2
                    except (IndexError, TypeError):
                        bad = True
            if bad:
                fail('mps2lat_values(B, axes=[0, 1], u=%d) misplaces values' % u, 'C19:values')
        counts.append(('values-forms', [label], N > 1, None))
    # ---- mps2lat_values_masked: several axes, defaults
    mf = ex.get('masked_forms')
    if not err('mps2lat_values_masked(several axes / defaults)', mf):
        masked_forms_checks(spec, res, geo, mf, Lu, N, inf, fail, counts, label)
    # ---- MultiSpeciesLattice index maps
    sm = ex.get('species_maps')
    if sm is not None and not err('self_u_to_simple_u / self_u_to_species_idx / simple_u_to_species_u', sm):
        n = w['n_species']
        ok = sm['N_species'] == n and sm['simple_Lu'] * n == Lu and len(sm['rows']) == Lu
        seen = set()
        for u, su, sp, back in sm['rows']:
            ok = ok and back == u and 0 <= su < sm['simple_Lu'] and 0 <= sp < n and (su, sp) not in seen
            seen.add((su, sp))
            # the species are told apart by their site (dimension sp + 2), the simple site by its position
            ok = ok and sm['dims'][u] == sp + 2 and max(abs(a - b) for a, b in zip(sm['uc_pos'][u], sm['simple_uc_pos'][su])) < 1e-12
        ok = ok and sm['arr'] == [[r[1] for r in sm['rows']], [r[2] for r in sm['rows']]]
        if not ok:
            fail('MultiSpeciesLattice: self_u_to_simple_u / self_u_to_species_idx / simple_u_to_species_u = %s are not the bijection '
                 'u <-> (site of the simple lattice, species) of the unit cell (sites %s)' % (sm['rows'], sm['dims']), 'C19:species-maps')
        counts.append(('species-maps', [label], True, None))
    # ---- with_grouped_sites: a TrivialLattice over the given sites with the same bc_MPS and width
    gr = ex.get('grouped')
    if not err('with_grouped_sites', gr):
        m = max(1, (N + 1) // 2)
        names = ['g%d' % k for k in range(m)]
        if (gr['cls'] != 'TrivialLattice' or gr['shape'] != [1, m] or gr['N_sites'] != m or gr['bc_MPS'] != res['bc_MPS'] or gr['sites'] != names
                or gr['order'] != [[0, k] for k in range(m)] or gr['m2l'] != gr['order'] or gr['l2m'] != list(range(m)) or gr['width'] != gr['own_width']):
            fail('with_grouped_sites(%d sites) = %s: not the trivial lattice of these sites with bc_MPS %r and mps_unit_cell_width %r'
                 % (m, gr, res['bc_MPS'], gr['own_width']), 'C19:with_grouped_sites')
        counts.append(('with_grouped_sites', [label], m > 1, None))


def masked_forms_checks(spec, res, geo, mf, Lu, N, inf, fail, counts, label):
    """mps2lat_values_masked docstring: res_A[..., x0, x1, (u), ...] = A[..., j, ...] for the j-th entry of mps_inds of that
    axis, all other entries masked; include_u defaults to len(unit_cell) > 1, mps_inds to arange(A.shape[ax]), axes to -1."""
    q = spec['queries']

    def key(i, incl):
        s = geo.site(i)
        return None if s is None else tuple(s if incl else s[:-1])
    dflt = Lu > 1
    m = mf.get('multi')
    if m:
        i1, i2 = q['masked'][0], q['masked'][1]
        if m['var'] == 3:
            i1 = i2 = list(range(min(N, 3)))
        incl1, incl2 = {0: (True, False), 1: (True, False), 2: (dflt, dflt), 3: (dflt, dflt)}[m['var']]
        k1 = [key(i, incl1) for i in i1]
        k2 = [key(i, incl2) for i in i2]
        if None not in k1 and None not in k2 and len(set(k1)) == len(k1) and len(set(k2)) == len(k2):
            ok = count_unmasked(m['mask']) == len(i1) * 2 * len(i2)
            bad = None
            for a, ka in zip(i1, k1):
                for mm in range(2):
                    for b, kb in zip(i2, k2):
                        idx = list(ka) + [mm] + list(kb)
                        try:
                            val, msk = nested_get(m['data'], idx), nested_get(m['mask'], idx)
                        except (IndexError, TypeError):
                            val, msk = None, 1
                        if val != a * 1000 + mm * 500000 + b + 100 or msk != 0:
                            bad = (a, mm, b, idx, val)
            if bad or not ok:
                fail('mps2lat_values_masked(A[%d,2,%d], axes=%s, mps_inds=%s, include_u=%s): %s'
                     % (len(i1), len(i2), {0: '[0, 2]', 1: '[-1, 0]', 2: '(0, 2)', 3: '[0, 2]'}[m['var']],
                        {0: '[i1, i2]', 1: '[i2, i1]', 2: '[i1, i2]', 3: 'default'}[m['var']],
                        {0: '[True, False]', 1: '[False, True]', 2: 'default', 3: 'default'}[m['var']],
                        ('A[i1=%d, %d, i2=%d] is not at %s (found %s)' % bad) if bad else 'wrong number of unmasked entries'),
                     'C19:masked-multi-axes')
            counts.append(('values_masked-axes', [label, m['var']], True, None))
    for name, with_first in (('default', False), ('default_ax1', True)):
        r = mf.get(name)
        if not r:
            continue
        incl = True if with_first else dflt
        ks = [key(i, incl) for i in range(r['k'])]
        if None in ks or len(set(ks)) != len(ks):
            continue
        ok = count_unmasked(r['mask']) == r['k'] * (2 if with_first else 1)
        for rowi in range(2 if with_first else 1):
            for i, kk in enumerate(ks):
                idx = ([rowi] if with_first else []) + list(kk)
                try:
                    val, msk = nested_get(r['data'], idx), nested_get(r['mask'], idx)
                except (IndexError, TypeError):
                    val, msk = None, 1
                want = (8000 + rowi * r['k'] + i) if with_first else 7000 + i
                ok = ok and val == want and msk == 0
        if not ok:
            fail('mps2lat_values_masked(A%s) with default mps_inds%s does not put A[%sj] at the lattice index of MPS site j'
                 % (', axes=1, include_u=True' if with_first else '', '' if with_first else ', axes and include_u', ':, ' if with_first else ''),
                 'C19:masked-defaults')
        counts.append(('values_masked-defaults', [label, name], True, None))


def flat_c(c, cs):
    f = 0
    for a, s in zip(c, cs):
        f = f * s + a
    return f


def distance_shells(Lu_range, d, pos, dist, W=5):
    """[(distance, {(u1, u2, dx)})] sorted by distance: all ordered pairs of distinct positions with |dx_a| <= W"""
    allp = []
    for u1 in Lu_range:
        for u2 in Lu_range:
            for dx in itertools.product(range(-W, W + 1), repeat=d):
                dd = dist(pos([0] * d, u1), pos(dx, u2))
                if dd > 1e-9:
                    allp.append((dd, u1, u2, dx))
    allp.sort()
    shells = []
    for dd, u1, u2, dx in allp:
        if shells and abs(shells[-1][0] - dd) < 1e-9:
            shells[-1][1].add((u1, u2, dx))
        else:
            shells.append((dd, {(u1, u2, dx)}))
    return shells


def geometry_checks(spec, eff, res, g, geo, fail, counts, label):
    Ls = eff['Ls']
    d = len(Ls)
    Lu = res['shape'][-1]
    order = res['order']
    basis, ucp = g['basis'], g['uc_pos']
    Dim = len(basis[0])
    w = spec['wrap']
    wk = w['kind'] if w else None
    # the predefined pairs of an IrregularLattice are those of its regular lattice: they relate the regular sites
    Lu_pairs = spec['Lu'] if wk == 'irregular' else Lu

    def pos(x, u):
        return [ucp[u][c] + sum(x[a] * basis[a][c] for a in range(d)) for c in range(Dim)]

    def dist(p, q):
        return math.sqrt(sum((a - b) ** 2 for a, b in zip(p, q)))
    for k, r in enumerate(order):
        if dist(pos(r[:-1], r[-1]), g['pos_order'][k]) > 1e-12:
            fail('position(%s) = %s, documented sum_l x_l*basis[l] + unit_cell_positions[u] = %s' % (r, g['pos_order'][k], pos(r[:-1], r[-1])))
    # distance shells of the infinite lattice (all ordered (u1, u2, dx) with dx in a window)
    shells = distance_shells(range(Lu), d, pos, dist)
    shells_p = shells if Lu_pairs == Lu else distance_shells(range(Lu_pairs), d, pos, dist)

    def rank(key):
        """n if pairs[key] is documented as 'all pairs of sites at the (n+1). smallest distance', else None"""
        if spec['cls'] == 'NLegLadder':
            return None
        if wk == 'multi':
            key = key[:-len('_all-all')] if key.endswith('_all-all') else None
        return NAMES5.index(key) if key in NAMES5 else None
    if wk == 'multi':
        multi_species_checks(spec, g, d, fail, counts, label)
    for key, plist in g['pairs'].items():
        tup = [(u1, u2, tuple(dx)) for u1, u2, dx in plist]
        if any(not (0 <= u1 < Lu and 0 <= u2 < Lu and len(dx) == d) for u1, u2, dx in tup):
            fail('pairs[%r] = %s contains an index outside the unit cell of %d sites' % (key, plist[:6], Lu), 'C19:pairs-range:' + key)
            continue
        rev = [(u2, u1, tuple(-x for x in dx)) for u1, u2, dx in tup]
        ds = [dist(pos([0] * d, u1), pos(dx, u2)) for u1, u2, dx in tup]
        for a, b in zip(ds, g['dist'][key]):
            if b is None or abs(a - b) > 1e-12:
                fail('distance() of a pair of %r = %r, positions give %r' % (key, b, a), 'C19:distance')
        if len(set(tup)) != len(tup) or set(tup) & set(rev):
            fail('pairs[%r] lists a coupling twice (or together with its reverse)' % key, 'C19:pairs-dup:' + key)
        rk = rank(key)
        if rk is not None:
            sh = shells_p[rk]
            if set(tup) | set(rev) != sh[1]:
                fail('pairs[%r] are not the displacements at the %d. smallest Euclidean distance %.6f: differ by %s'
                     % (key, rk + 1, sh[0], sorted((set(tup) | set(rev)) ^ sh[1])[:6]), 'C19:pairs:' + key)
            for u in range(Lu_pairs):
                nb = sum(1 for (a, b, dx) in sh[1] if a == u)
                if g['count'][key][u] != nb:
                    fail('count_neighbors(%d, %r) = %d, sites at that distance: %d' % (u, key, g['count'][key][u], nb), 'C19:count')
        elif ds and max(ds) - min(ds) > 1e-9 and not (spec['cls'] == 'NLegLadder' and key.startswith('nearest_neighbors')):
            fail('pairs[%r] mixes different distances %s' % (key, sorted(set(round(x, 9) for x in ds))), 'C19:pairs-mixed:' + key)
        counts.append(('pairs', [label, key], True, None))
    # on the finite open lattice: couplings over pairs[key] = all site pairs at that Euclidean distance
    open_finite = (not eff['inf'] and all(b == 'open' for b in eff['bc']) and wk in (None, 'multi') and not eff['removed'])
    cq = {(u1, u2, tuple(dx)): r for (u1, u2, dx), r in zip(spec['queries']['couplings'], res['couplings'])}
    pc = g.get('pair_couplings') or {}
    P = g['pos_order']
    for key, plist in g['pairs'].items():
        rk = rank(key)
        if rk is None or not open_finite:
            continue
        dd = shells_p[rk][0]
        want = sorted((a, b) for a in range(len(P)) for b in range(a + 1, len(P)) if abs(dist(P[a], P[b]) - dd) < 1e-9)
        got = []
        complete = True
        for n, (u1, u2, dx) in enumerate(plist):
            r = pc[key][n] if key in pc else cq.get((u1, u2, tuple(dx)))
            if r is None or 'error' in r:
                complete = False
                break
            got += [tuple(sorted(p)) for p in zip(r['i'], r['j'])]
        if complete and sorted(got) != want:
            fail('couplings over pairs[%r] on the open %s lattice are not the site pairs at distance %.6f of position(): %s vs %s'
                 % (key, Ls, dd, sorted(got)[:8], want[:8]), 'C19:pairs-couplings:' + key)
        if complete:
            counts.append(('pairs-couplings', [label, key], len(want) > 0, None))
    fp = res.get('find_pairs')
    q = spec['queries']
    if q.get('fcp_defaults'):
        max_dx, cutoff = 3, None
    else:
        max_dx, cutoff = q.get('max_dx', 3), q.get('cutoff', 2.5)
    cutoff_eff = (max_dx - 1e-10) if cutoff is None else cutoff
    if isinstance(fp, list):
        # documented: all couplings with |dx_a| <= max_dx up to the distance cutoff (default max_dx - eps), grouped by distance,
        # keys ascending, each coupling in one direction only
        want = [sh for sh in (shells if max_dx >= 5 else distance_shells(range(Lu), d, pos, dist, W=max_dx)) if sh[0] <= cutoff_eff]
        if len(fp) != len(want):
            fail('find_coupling_pairs(max_dx=%s, cutoff=%s) returns %d distances %s, brute force within that window and cutoff: %d %s'
                 % (max_dx, cutoff, len(fp), [round(x[0], 6) for x in fp][:8], len(want), [round(x[0], 6) for x in want][:8]), 'C19:find_coupling_pairs')
        for (dd, plist), sh in zip(fp, want):
            tup = set((u1, u2, tuple(dx)) for u1, u2, dx in plist)
            rev = set((u2, u1, tuple(-x for x in dx)) for u1, u2, dx in tup)
            if abs(dd - sh[0]) > 1e-9 or (tup | rev) != sh[1] or (tup & rev) or len(tup) != len(plist):
                fail('find_coupling_pairs(max_dx=%s, cutoff=%s): shell at distance %.6f differs from brute force' % (max_dx, cutoff, dd), 'C19:find_coupling_pairs')
            counts.append(('find_pairs', [label, max_dx, cutoff, round(dd, 6)], True, None))
    elif isinstance(fp, dict):
        fail('find_coupling_pairs raised %s' % fp['error'])
    # ---- other argument forms of position() / distance() / count_neighbors()
    pf = g.get('pos_forms')
    if pf:
        def close(a, b):
            return len(a) == len(b) and all(abs(x - y) < 1e-12 for x, y in zip(a, b))
        one_idx, one_pos = pf['one']
        if not close(one_pos, pos(one_idx[:-1], one_idx[-1])):
            fail('position(%s) = %s (one lattice index), documented %s' % (one_idx, one_pos, pos(one_idx[:-1], one_idx[-1])), 'C19:position')
        far_idx, far_pos = pf['far']
        for r, pp in zip(far_idx, far_pos):
            if not close(pp, pos(r[:-1], r[-1])):
                fail('position(%s) = %s (x_0 outside of the unit cell), documented %s' % (r, pp, pos(r[:-1], r[-1])), 'C19:position')
        if any(not close(pp, pos(r[:-1], r[-1])) for r, pp in zip(order, pf['list'])):
            fail('position(list of lattice indices) differs from position(array)', 'C19:position')
        if len(pf['3d']) != 2 or any(not close(a, b) for blk in pf['3d'] for a, b in zip(blk, far_pos)) or any(len(blk) != len(far_pos) for blk in pf['3d']):
            fail('position of a 3D index array differs from the positions of its rows', 'C19:position')
        counts.append(('position-forms', [label], True, None))
    for key, plist in g['pairs'].items():
        for (u1, u2, dx), got in zip(plist, (g.get('dist_batch') or {}).get(key, [])):
            want = [dist(pos([0] * d, u1), pos([f * x for x in dx], u2)) for f in (1, -1, 2)]
            if len(got) != 3 or any(abs(a - b) > 1e-12 for a, b in zip(got, want)):
                fail('distance(%d, %d, [dx, -dx, 2dx]) for dx=%s = %s, positions give %s' % (u1, u2, dx, got, want), 'C19:distance')
    if 'count_default' in g and 'nearest_neighbors' in g['count'] and g['count_default'] != g['count']['nearest_neighbors'][0]:
        fail('count_neighbors() = %d, count_neighbors(0, "nearest_neighbors") = %d' % (g['count_default'], g['count']['nearest_neighbors'][0]), 'C19:count')
    wd = g.get('with_disorder')
    if wd:
        disorder_checks(spec, eff, res, g, wd, geo, pos, dist, fail, counts, label)


def disorder_checks(spec, eff, res, g, wd, geo, pos, dist, fail, counts, label):
    """position_disorder (documented attribute): position() of a site is shifted by position_disorder[lattice index];
    distance(u1, u2, dx) becomes an array indexed like the strength of add_coupling (the lat_indices of possible_couplings)
    holding the distance between the two (shifted) sites of each coupling, ignoring the wrap around periodic boundaries."""
    Ls = eff['Ls']
    d = len(Ls)
    order = res['order']
    dis = wd['disorder']

    def dis_at(x, u):
        a = dis
        for c, L in zip(x, Ls):
            a = a[c % L]
        return a[u]

    def shifted(x, u):
        return [a + b for a, b in zip(pos(x, u), dis_at(x, u))]
    for k, r in enumerate(order):
        if dist(shifted(r[:-1], r[-1]), wd['pos_order'][k]) > 1e-12:
            fail('position(%s) = %s with position_disorder, documented: regular position + position_disorder[%s] = %s'
                 % (r, wd['pos_order'][k], r, shifted(r[:-1], r[-1])), 'C19:position-disorder')
            break
    for r, pp in zip(g['pos_forms']['far'][0], wd['pos_far']):
        if dist(shifted(r[:-1], r[-1]), pp) > 1e-12:
            fail('position(%s) = %s with position_disorder (x_0 outside of the unit cell)' % (r, pp), 'C19:position-disorder')
            break
    pc = g.get('pair_couplings') or {}
    for key, plist in g['pairs'].items():
        for n, (u1, u2, dx) in enumerate(plist):
            r = pc[key][n]
            da = wd['dist_arr'][key][n]
            if 'error' in r or not all(c > 0 for c in r['shape']):
                continue
            if 'error' in da:
                fail('distance(%d, %d, %s) with position_disorder raised %s' % (u1, u2, dx, da['error']), 'C19:distance-disorder')
                continue
            if list(da['shape']) != list(r['shape']):
                fail('distance(%d, %d, %s) with position_disorder has shape %s, the coupling shape is %s' % (u1, u2, dx, da['shape'], r['shape']),
                     'C19:distance-disorder')
                continue
            for i, j, corner in zip(r['i'], r['j'], r['lat'] or []):
                si = geo.site(i)
                if si is None:
                    continue
                x = list(si[:-1])
                y = [a + b for a, b in zip(x, dx)]
                want = dist(shifted(x, u1), [a + b for a, b in zip(pos(y, u2), dis_at(y, u2))])
                a = da['val']
                for c in corner:
                    a = a[c]
                if abs(a - want) > 1e-12:
                    fail('distance(%d, %d, %s)[%s] = %r with position_disorder; the coupling with that lat_index joins the sites %s and %s '
                         'at distance %r' % (u1, u2, dx, list(corner), a, list(si), y + [u2], want), 'C19:distance-disorder')
                    break
            counts.append(('distance-disorder', [label, key, n], True, None))


def multi_species_checks(spec, g, d, fail, counts, label):
    """MultiSpeciesLattice docstring: every site of the simple lattice is replaced by the species sites; for every pairs
    key of the simple lattice there are '<key>_<a>-<b>' (species a at the first, b at the second site of each simple
    pair), '<key>_all-all' (all combinations), '<key>_diag' (a == b), and 'onsite_<a>-<b>' (a before b) for two species
    on the same simple site.  Which unit cell index carries which species / sits on which simple site is taken from the
    observed site objects and positions, not from an index formula."""
    w = spec['wrap']
    n = w['n_species']
    names = w.get('names') or [str(k) for k in range(n)]
    simple = g.get('simple')
    dims = g.get('uc_dims')
    if simple is None or dims is None:
        fail('runner did not report the simple lattice / the unit cell sites')
        return
    ucp = g['uc_pos']
    sLu = len(simple['uc_pos'])
    if len(ucp) != sLu * n:
        fail('unit cell has %d sites, documented: %d simple sites x %d species' % (len(ucp), sLu, n), 'C19:multi-unit-cell')
        return
    sp_pos = simple['uc_pos']
    if any(max(abs(x - y) for x, y in zip(sp_pos[i], sp_pos[j])) < 1e-12 for i in range(sLu) for j in range(i)):
        return                         # simple sites without distinct positions (generic Lattice): nothing documented by position
    # U[(su, a)] = the unit cell index of species a on the simple site su
    U = {}
    for u, (p, dm) in enumerate(zip(ucp, dims)):
        a = dm - 2                     # the runner gives species k a site of dimension k + 2
        su = [k for k, sp in enumerate(simple['uc_pos']) if max(abs(x - y) for x, y in zip(p, sp)) < 1e-12]
        if len(su) != 1 or not 0 <= a < n or (su[0], a) in U:
            fail('unit cell site %d (dim %d, position %s) is not exactly one species on one site of the simple lattice' % (u, dm, p),
                 'C19:multi-unit-cell')
            return
        U[(su[0], a)] = u
    if len(U) != sLu * n:
        fail('not every species is present on every simple site: %s' % sorted(U), 'C19:multi-unit-cell')
        return
    norm = lambda plist: sorted((int(u1), int(u2), tuple(int(x) for x in dx)) for u1, u2, dx in plist)
    want = {}
    for key, plist in simple['pairs'].items():
        al, dg = [], []
        for a in range(n):
            for b in range(n):
                v = [(U[(u1, a)], U[(u2, b)], tuple(dx)) for u1, u2, dx in plist]
                want['%s_%s-%s' % (key, names[a], names[b])] = v
                al += v
                if a == b:
                    dg += v
        want[key + '_all-all'] = al
        want[key + '_diag'] = dg
    for a in range(n):
        for b in range(a + 1, n):
            want['onsite_%s-%s' % (names[a], names[b])] = [(U[(su, a)], U[(su, b)], (0,) * d) for su in range(sLu)]
    got = g['pairs']
    if set(got) != set(want):
        fail('pairs keys of the MultiSpeciesLattice: unexpected %s, missing %s' % (sorted(set(got) - set(want))[:6], sorted(set(want) - set(got))[:6]),
             'C19:multi-pairs-keys')
    for key in sorted(set(got) & set(want)):
        if norm(got[key]) != norm(want[key]):
            fail('pairs[%r] = %s, but the pairs %s of the simple lattice carried over to these species (by site position and site '
                 'type) are %s' % (key, norm(got[key])[:6], key.rsplit('_', 1)[0], norm(want[key])[:6]), 'C19:multi-pairs')
        counts.append(('multi-pairs', [label, key], True, None))


# ----------------------------------------------------------------------------------------------------
# Coq literals
# ----------------------------------------------------------------------------------------------------

def site_lit(r):
    return (r[0], list(r[1:-1]), r[-1])


def lat_lit(spec, res):
    Ls = res['Ls']
    bo = res['bc_open']
    sh = res['bc_shift'] if res['bc_shift'] is not None else [0] * (len(Ls) - 1)
    return CoqRaw('(mkLat %s %s %s %s %s %s %s %s)' % (
        coq_lit(Ls[0]), coq_lit(list(Ls[1:])), coq_lit(res['shape'][-1]), coq_lit(bool(bo[0])),
        coq_lit([bool(b) for b in bo[1:]]), coq_lit([int(s) for s in sh]), coq_lit(res['bc_MPS'] != 'finite'),
        coq_lit([site_lit(r) for r in res['order']])))


def coq_case(spec, res, rng, n_cq):
    if spec['kind'] == 'helical' or 'order' not in res:
        return None
    if isinstance(res['mps2lat'], dict) or isinstance(res['lat2mps'], dict):
        return None
    q = spec['queries']
    existing = set(tuple(r) for r in res['order'])
    L0 = res['Ls'][0]
    inf = res['bc_MPS'] != 'finite'
    m2l = [(i, common.Some(site_lit(x))) for i, x in zip(q['mps_idx'], res['mps2lat'])]
    l2m = []
    for x, i in zip(q['lat_idx'], res['lat2mps']):
        base = tuple([x[0] % L0] + list(x[1:])) if inf else tuple(x)
        if base in existing:
            l2m.append((site_lit(x), common.Some(i)))
        else:
            l2m.append((site_lit(x), None))      # _REMOVED
    if len(m2l) > 40:
        m2l = rng.sample(m2l, 40)
    if len(l2m) > 50:
        l2m = rng.sample(l2m, 50)
    cqs = []
    idxs = [k for k, r in enumerate(res['couplings']) if 'error' not in r]
    nz = [k for k in idxs if res['couplings'][k]['i']]
    pick = set(rng.sample(nz, min(len(nz), n_cq)) + rng.sample(idxs, min(len(idxs), max(2, n_cq // 4))))
    for k in sorted(pick):
        u1, u2, dx = q['couplings'][k]
        r = res['couplings'][k]
        rows = [(i, j, list(li)) for i, j, li in zip(r['i'], r['j'], r['lat'])] if r['i'] else []
        cqs.append((u1, u2, dx[0], list(dx[1:]), list(r['shape']), rows))
    mqs = []
    for ops, r in zip(q['multi'], res['multi']):
        if 'error' in r:
            continue
        rows = [(list(a), list(b)) for a, b in zip(r['ijkl'], r['lat'])]
        mqs.append(([(dx[0], list(dx[1:]), u) for dx, u in ops], list(r['shape']), rows))
    fix = res['fix_u']
    return CoqRaw('(mkCase %s %s %s %s %s %s)' % (lat_lit(spec, res), lit_list(m2l, '(Z * option site)'),
                                                 lit_list(l2m, '(site * option Z)'), lit_list(fix, '(list Z)'),
                                                 lit_list(cqs, 'cquery'), lit_list(mqs, 'mquery')))


def lit_list(xs, ty):
    if not xs:
        return '(@nil %s)' % ty
    return coq_lit(xs)


def coq_order_cases(specs, results):
    """(shape, flags, argsort(priority), reported rows) for every ordering of get_order form."""
    cases, info = [], []

    def add(cls, shape, order, rows):
        sp = std_params(cls, len(shape) - 1, order)
        if sp is None or not rows or isinstance(rows, dict):
            return
        snake, prio = sp
        d = len(shape)
        perm = list(range(d)) if prio is None else sorted(range(d), key=lambda a: prio[a])
        cases.append(coq_lit((list(shape), [bool(b) for b in snake], [Nat(p) for p in perm], [list(r) for r in rows])))
        info.append({'cls': cls, 'shape': shape, 'order': order})
    for spec, res in zip(specs, results):
        if res is None or 'order' not in res or spec['kind'] != 'regular' or spec.get('transform'):
            continue
        if spec.get('custom_perm') is None or spec.get('reorder') is not None:
            add(spec['cls'], res['shape'], order_of(spec), res['order'])
        for o, rws in zip(spec['queries'].get('orderings', []), res.get('orderings') or []):
            add(spec['cls'], res['shape'], o, rws)
    return cases, info


def coq_transform_cases(specs, results):
    """(factor, Ls[0] before, first, len, order before, helical data, reported (Ls[0], N_sites, order) after) per lattice made
    by enlarge_mps_unit_cell / extract_segment: Model/LatticeTransform.v recomputes shape, N_sites and order."""
    cases, info = [], []
    for k, (spec, res) in enumerate(zip(specs, results)):
        if res is None or 'order' not in res or not spec.get('transform') or 'base' not in res:
            continue
        eff = effective(spec)
        b = res['base']
        w = spec['wrap']
        if w and w['kind'] == 'helical':
            hel = common.Some((Nat(b['reg_N_cells']), Nat(w['N_unit_cells']), Nat(spec['Lu']), [site_lit(r) for r in b['reg_order']]))
        else:
            hel = None
        base_order = lit_list([site_lit(r) for r in b['order']], 'site')
        new_order = lit_list([site_lit(r) for r in res['order']], 'site')
        cases.append('(%s, %s, %s, %s, %s, %s, (%s, %s, %s))' % (
            coq_lit(Nat(eff['factor'])), coq_lit(b['Ls'][0]), coq_lit(Nat(eff['first'])), coq_lit(Nat(eff['N'])), base_order,
            coq_lit(hel) if hel is not None else '(@None (nat * nat * nat * list site))',
            coq_lit(res['Ls'][0]), coq_lit(res['N_sites']), new_order))
        info.append(k)
    return cases, info


def coq_species_cases(specs, results):
    """(N_species, simple_Lu, dim, per pairs key of the simple lattice: its pairs and the reported '<key>_<a>-<b>', '_all-all',
    '_diag' lists, reported 'onsite_<a>-<b>' lists) per MultiSpeciesLattice: Model/LatticeTransform.v recomputes the lists."""
    cases, info = [], []
    up = lambda plist: lit_list([(int(u1), int(u2), [int(x) for x in dx]) for u1, u2, dx in plist], 'upair')
    for k, (spec, res) in enumerate(zip(specs, results)):
        w = spec['wrap']
        if res is None or not w or w['kind'] != 'multi':
            continue
        g = res.get('geometry')
        if not isinstance(g, dict) or 'simple' not in g or 'pairs' not in g:
            continue
        n = w['n_species']
        names = w.get('names') or [str(a) for a in range(n)]
        got = g['pairs']
        keys = []
        ok = True
        for key, plist in g['simple']['pairs'].items():
            want_keys = ['%s_%s-%s' % (key, names[a], names[b]) for a in range(n) for b in range(n)] + [key + '_all-all', key + '_diag']
            if any(x not in got for x in want_keys):
                ok = False         # reported by the oracle (pairs keys)
                break
            sp = '[%s]' % '; '.join('[%s]' % '; '.join(up(got['%s_%s-%s' % (key, names[a], names[b])]) for b in range(n)) for a in range(n))
            keys.append('(%s, %s, %s, %s)' % (up(plist), sp, up(got[key + '_all-all']), up(got[key + '_diag'])))
        if not ok or any('onsite_%s-%s' % (names[a], names[b]) not in got for a in range(n) for b in range(a + 1, n)):
            continue
        ons = '[%s]' % '; '.join(('[%s]' % '; '.join(up(got['onsite_%s-%s' % (names[a], names[b])]) for b in range(a + 1, n)))
                                 if a + 1 < n else '(@nil (list upair))' for a in range(n))
        keys_lit = ('[%s]' % '; '.join(keys)) if keys else '(@nil (list upair * list (list (list upair)) * list upair * list upair))'
        cases.append('(%s, %s, %s, %s, %s)' % (coq_lit(n), coq_lit(len(g['simple']['uc_pos'])), coq_lit(Nat(len(spec['Ls']))), keys_lit, ons))
        info.append(k)
    return cases, info


def flatten_nested(x):
    if isinstance(x, list):
        out = []
        for y in x:
            out += flatten_nested(y)
        return out
    return [x]


def coq_value_cases(specs, results):
    """(lattice, A, mps2lat_values(A) flattened, [mps2lat_values(A[mps_idx_fix_u(u)], u=u) flattened]) per lattice whose
    order lists every lattice index (regular / MultiSpecies)."""
    cases, info = [], []
    for k, (spec, res) in enumerate(zip(specs, results)):
        if res is None or 'order' not in res or spec['kind'] not in ('regular', 'multi'):
            continue
        if len(res['order']) != int(math.prod(res['shape'])):
            continue          # extract_segment removed sites
        v, vu = res.get('values'), res.get('values_u')
        if v is None or vu is None or isinstance(v, dict) or isinstance(vu, dict):
            continue          # a raise is reported by the oracle stream
        N = len(res['order'])
        flat = flatten_nested(v)
        flats = [flatten_nested(x) for x in vu]
        if not flat or not flats or any(not f for f in flats):
            continue
        cases.append('(%s, %s, %s, %s)' % (lat_lit(spec, res), coq_lit([1000 + i for i in range(N)]), coq_lit(flat), coq_lit(flats)))
        info.append(k)
    return cases, info


# ----------------------------------------------------------------------------------------------------

def main(ctx):
    rng = ctx.rng
    import time
    t0 = time.time()
    ctx.proof = common.check_proofs('C19')
    tim = {'proofs': round(time.time() - t0, 1)}
    scale = 1 if ctx.proof.ok else 2          # intensified search when an obligation is broken
    specs = [c['case'] for c in common.corpus_cases('C19')]
    if ctx.replay_in:
        import json
        doc = json.load(open(ctx.replay_in))
        if doc.get('input') and doc['input'].get('spec'):
            specs = [doc['input']['spec']] + specs
    if not (ctx.replay_in and specs):       # a replay runs the recorded lattice only
        specs += gen_specs(ctx, scale)
    # ---- implementation
    nchunk = common.NPROC * 2
    order_ix = sorted(range(len(specs)), key=lambda k: -len(specs[k]['queries']['couplings']))
    chunks = [[] for _ in range(nchunk)]
    for n, k in enumerate(order_ix):
        chunks[n % nchunk].append(k)
    chunks = [c for c in chunks if c]
    out = common.run_impl_parallel('c19_impl.py', [{'specs': [specs[k] for k in ch]} for ch in chunks],
                                   maxpar=max(2, common.NPROC // 2))
    results = [None] * len(specs)
    hit_lines, trace_how = set(), set()
    for ch, (r, err) in zip(chunks, out):
        if err:
            ctx.fail('correspondence', 'implementation runner failed: ' + err[-500:], None)
            return ctx.finish(RULE)
        hit_lines.update(r['lines'])
        trace_how.add(r['trace'])
        for k, x in zip(ch, r['results']):
            results[k] = x
    # ---- coverage audit: functions / statements of lattice.py reached by the runner processes, options drawn
    try:
        tab, order_names, cov_problems = c19_audit.table(common.REPO, hit_lines)
        opt_tab, opt_problems = c19_audit.option_table(specs, order_names, lambda c: named_orders(c, None, None, None))
        ctx.cov['lattice_py_coverage'] = {'how': sorted(trace_how), 'summary': c19_audit.summary(tab), 'functions': tab}
        ctx.cov['options_drawn'] = opt_tab
        if not ctx.replay_in:
            for pr in cov_problems + opt_problems:
                ctx.fail('correspondence', 'coverage audit: ' + pr, None)
    except SyntaxError as e:
        ctx.fail('correspondence', 'coverage audit: tenpy/models/lattice.py does not parse: %s' % e, None)
    tim['impl'] = round(time.time() - t0, 1)
    # ---- oracle (parallel, pure python)
    with multiprocessing.get_context('fork').Pool(max(2, common.NPROC // 2)) as pool:
        orc = pool.map(oracle_one, list(zip(specs, results)), chunksize=8)
    hist = {}
    for spec, res, (counts, fails, label) in zip(specs, results, orc):
        hk = spec['kind'] + ('+' + spec['transform']['op'] if spec.get('transform') else '') + ':' + spec['cls']
        hist[hk] = hist.get(hk, 0) + 1
        for (stream, key, nontriv, sample) in counts:
            ctx.count(stream, key, nontrivial=nontriv, sample=sample)
        for what, mk in fails:
            small = {k: v for k, v in spec.items() if k != 'queries'}
            if mk == 'runner':
                ctx.fail('correspondence', what, {'spec': small})
            else:
                ctx.fail('oracle', label + ': ' + what, {'spec': spec, 'label': label}, match_key=mk)
    tim['oracle'] = round(time.time() - t0, 1)
    # ---- model <-> implementation inside Coq
    n_cq = ctx.pick(8, 24)
    coq_cases, coq_idx = [], []
    for k, (spec, res) in enumerate(zip(specs, results)):
        if spec['kind'] == 'geometry':
            continue
        c = coq_case(spec, res, rng, n_cq)
        if c is not None:
            coq_cases.append(str(c))
            coq_idx.append(k)
    bad, err = common.coq_failing_indices('cases_c19', ['Base.Prelude', 'Model.Lattice'], 'check_case', coq_cases, shard=60)
    if err:
        ctx.fail('correspondence', 'model evaluation failed: ' + err[-600:], None)
    for b in bad[:5]:
        spec = specs[coq_idx[b]]
        ctx.fail('correspondence', 'Model/Lattice.v and tenpy.models.lattice disagree (index maps / possible_couplings / '
                 'possible_multi_couplings) on %s%s %s bc=%s/%s' % (spec['cls'], spec['Ls'], spec['kind'], spec['bc'], spec['bc_MPS']),
                 {'spec': {k: v for k, v in spec.items() if k != 'queries'}})
    for k in coq_idx:
        ctx.count('model-lattice', [k, specs[k]['cls'], specs[k]['Ls'], specs[k]['bc'], str(specs[k]['order'])], nontrivial=True)
    ocases, oinfo = coq_order_cases(specs, results)
    bad, err = common.coq_failing_indices('orders_c19', ['Base.Prelude', 'Model.Lattice'], 'check_order_case', ocases, shard=150)
    if err:
        ctx.fail('correspondence', 'model evaluation (orderings) failed: ' + err[-600:], None)
    for b in bad[:5]:
        ctx.fail('correspondence', 'Model/Lattice.v get_order and Lattice.ordering disagree on %s' % (oinfo[b],), oinfo[b])
    for i in oinfo:
        ctx.count('model-order', i, nontrivial=True)
    vcases, vinfo = coq_value_cases(specs, results)
    bad, err = common.coq_failing_indices('values_c19', ['Base.Prelude', 'Model.Lattice', 'Model.LatticeVals'], 'check_values',
                                          vcases, shard=100)
    if err:
        ctx.fail('correspondence', 'model evaluation (mps2lat_values) failed: ' + err[-600:], None)
    for b in bad[:5]:
        spec = specs[vinfo[b]]
        ctx.fail('correspondence', 'Model/LatticeVals.v and Lattice.mps2lat_values disagree on %s%s %s bc_MPS=%s order=%s'
                 % (spec['cls'], spec['Ls'], spec['kind'], spec['bc_MPS'], spec['order']),
                 {'spec': {k: v for k, v in spec.items() if k != 'queries'}})
    for k in vinfo:
        ctx.count('model-values', [k, specs[k]['cls'], specs[k]['Ls'], str(specs[k]['order'])], nontrivial=len(results[k]['order']) > 1)
    tcases, tinfo = coq_transform_cases(specs, results)
    bad, err = common.coq_failing_indices('transform_c19', ['Base.Prelude', 'Model.Lattice', 'Model.LatticeTransform'],
                                          'check_transform_case', tcases, shard=100)
    if err:
        ctx.fail('correspondence', 'model evaluation (enlarge_mps_unit_cell / extract_segment) failed: ' + err[-600:], None)
    for b in bad[:5]:
        spec = specs[tinfo[b]]
        ctx.fail('correspondence', 'Model/LatticeTransform.v and lattice.py disagree on Ls[0] / N_sites / order of %s%s %s%s'
                 % (spec['cls'], spec['Ls'], spec['kind'], transform_text(spec['transform'])),
                 {'spec': {k: v for k, v in spec.items() if k != 'queries'}})
    for k in tinfo:
        ctx.count('model-transform', [k, specs[k]['cls'], specs[k]['Ls'], specs[k]['kind'], transform_text(specs[k]['transform'])], nontrivial=True)
    scases, sinfo = coq_species_cases(specs, results)
    bad, err = common.coq_failing_indices('species_c19', ['Base.Prelude', 'Model.Lattice', 'Model.LatticeTransform'],
                                          'check_species_case', scases, shard=100)
    if err:
        ctx.fail('correspondence', 'model evaluation (MultiSpeciesLattice pairs) failed: ' + err[-600:], None)
    for b in bad[:5]:
        spec = specs[sinfo[b]]
        ctx.fail('correspondence', 'Model/LatticeTransform.v and MultiSpeciesLattice._generate_new_pairs disagree on %s%s x %d species'
                 % (spec['cls'], spec['Ls'], spec['wrap']['n_species']), {'spec': {k: v for k, v in spec.items() if k != 'queries'}})
    for k in sinfo:
        ctx.count('model-species', [k, specs[k]['cls'], specs[k]['Ls'], specs[k]['wrap']['n_species']], nontrivial=specs[k]['Lu'] > 1 or specs[k]['wrap']['n_species'] > 1)
    tim['coq'] = round(time.time() - t0, 1)
    ctx.cov['phase_end_seconds'] = tim
    ctx.cov['traces_validated_against_impl'] = len(coq_cases) + len(ocases) + len(vcases)
    ctx.cov['input_distribution'] = hist
    ctx.assumptions += [
        'C19 model: Lattice.order is an input of the model (its construction by get_order is modelled and proved separately; '
        'get_order_grouped, folded orders, MultiSpecies/Irregular/Helical order construction are oracle-checked only)',
        'C19 not modelled in Coq: HelicalLattice index maps / couplings (oracle only; order and N_sites after enlarge_mps_unit_cell are '
        'modelled in Model/LatticeTransform.v), mps2lat_values_masked and multi-axis mps2lat_values (oracle only; the 1D '
        'mps2lat_values(A) and mps2lat_values(A, u=u) are modelled in Model/LatticeVals.v), positions/distances (float, oracle only)',
        'C19 oracle exclusions (outside the quantifier "displacement vectors up to the lattice size"): possible_multi_couplings with a box '
        'longer than an open direction (raises ValueError: negative dimensions, where possible_couplings returns no coupling) is not queried; '
        'the lat_indices of possible_couplings and of the equivalent two-operator possible_multi_couplings are compared only without bc shift '
        '(with a shift the two functions label the box from different sites; each is compared with its own documentation)',
        'C19 oracle exclusion: IrregularLattice.ordering(o) for an order o other than the one the lattice was built with places sites added '
        'with MPS index None after the index their reference site has in the order of regular_lattice, not in o; the position is not '
        'compared in that case (the order is still checked to be a bijection onto the sites and all maps are checked on it)',
        'C19 coverage audit: statements of lattice.py reached are recorded with sys.monitoring in every runner process; unreached statements '
        'of covered functions are listed in coverage.lattice_py_coverage (charge-shift symmetric sites / DipolarChargeInfo branches of '
        'mps_sites and test_sanity belong to the charge properties, duplicate-key errors of MultiSpeciesLattice are invalid arguments)',
    ]
    return ctx.finish(RULE, 'theorems of coq/Props/C19.v (all dimensions, sizes, orders) about Model/Lattice.v; the model is run against '
                      'lattice.py by vm_compute on every generated lattice; all classes are compared with a brute-force enumeration '
                      'written from the documentation')


RULE = ('lattices: Chain/Ladder/NLegLadder/Square/Triangular/Honeycomb/Kagome/generic 3D-4D x sizes (<=3x3 quick, <=4x4 thorough) x every '
        'combination of open/periodic/shifted bc x finite/infinite(/segment) x named, standard-tuple, grouped and randomly permuted orders; '
        'MultiSpecies, Irregular (random removed/added sites), Helical on top; enlarge_mps_unit_cell(2..3) / extract_segment(first, last | '
        'enlarge) applied to sampled lattices of each of these kinds (helical: both with and without growth of the regular lattice); '
        'MultiSpeciesLattice over every simple class x 1..3 species with the pairs checked by position and site type; '
        'per lattice all MPS indices (two extra unit cells for infinite), '
        'all lattice indices, all displacement vectors |dx_a| <= L_a (+1) for up to 4 (u1,u2) pairs, random multi-couplings; '
        'a coupling case is non-trivial when at least one pair exists; distinct = distinct (lattice, query).  '
        'Per lattice also: other argument forms (list, tuple, numpy integer, 2D/3D index arrays), results of one index map given to the other, '
        'all queries repeated and the state of the object compared before/after (returned arrays overwritten), strength in three forms, '
        'two-operator multi couplings against possible_couplings, values/masked values on other axes and with defaults, mps_sites/site, '
        'with_grouped_sites; options drawn by stratification: bc as one string / list / shift 0, order set again after use (every 7th regular, '
        'every 5th wrapped lattice), grouped orders with priority, TrivialLattice, generic Lattice with basis/positions, position_disorder, '
        'find_coupling_pairs(max_dx 1..3, cutoff None/given/defaults), extract_segment defaults and unit-cell-boundary values of last, '
        'enlarge factor 1/default; coverage of lattice.py statements recorded in every runner process (coverage.lattice_py_coverage).')
