"""Stratified generator of check C09: for every transformation method of c09_cover.OPTION_SPACE, every boundary
condition it documents and every value class of every parameter, at least `reps` histories

      [0-1 random earlier operations]  ->  THE CALL (one parameter forced to the class, the others drawn from their
      option spaces)  ->  [0-2 later operations that use the result as operand]

on a random state of C07 (finite, infinite, segment of a finite or an infinite state; mixed site types with different
dimensions; random stored forms).  Whether a class was really reached is decided by the runner's log, not here."""
import numpy as np

import mps_gen as G
import c09_cover as CV

JW_FAMS = ('N', 'pN', 'N2Sz')


def mat_json(m):
    m = np.asarray(m, dtype=complex)
    return [m.real.tolist(), m.imag.tolist()]


def is_unitary(m):
    return np.linalg.norm(m @ m.conj().T - np.eye(len(m))) < 1e-10


def named(S, i, want_jw=None):
    names = [n for n in S.SI[S.kinds[i]]['ops'] if n not in ('Id', 'JW', 'JWu', 'JWd')]
    if want_jw is not None:
        names = [n for n in names if S.needs_JW(i, n) == want_jw]
    return sorted(names)


# ------------------------------------------------------------------------------------------------ states

def finite_spec(rng, SI, Lmin=2, Lmax=6, fermi=False, charged=None, uniform=None, maxdim=400):
    for _ in range(50):
        L = rng.randint(Lmin, Lmax)
        if fermi:
            fam = rng.choice(JW_FAMS)
            kinds = G.gen_sites(rng, L, maxdim=maxdim, family=fam, fermionic=True, hetero=False if uniform else None)
        else:
            fam = None
            if charged is True:
                fam = rng.choice(['2Sz', 'pSz', 'N', 'pN', 'N2Sz'])
            elif charged is False:
                fam = 'none'
            kinds = G.gen_sites(rng, L, maxdim=maxdim, family=fam, hetero=False if uniform else None)
        if len(kinds) < Lmin:
            continue
        meth = rng.choice(['full', 'full', 'full_sparse', 'bflat', 'circuit'])
        spec = {'bc': 'finite', 'sites': kinds, 'build': G.gen_finite_build(rng, kinds, allow=[meth])}
        b = spec['build']
        if b['method'] == 'bflat' and max(b['chi']) == 1:
            continue
        if b['method'] in ('full', 'full_sparse'):
            b['normalize'] = True
            if fermi or rng.random() < 0.5:
                b['Q'] = G.largest_sector(G.Sites(kinds, SI), list(range(len(kinds)))) if b['method'] == 'full' else b.get('Q')
        return spec
    raise RuntimeError('no finite state')


def infinite_spec(rng, SI, Lmin=2, Lmax=4, charged=None, uniform=None, maxcell=20):
    for _ in range(200):
        L = rng.randint(Lmin, Lmax)
        fam = None
        if charged is True:
            fam = rng.choice(['2Sz', 'pSz', 'N', 'pN'])
        elif charged is False:
            fam = 'none'
        kinds = G.gen_sites(rng, L, maxdim=maxcell, family=fam, hetero=False if uniform else None)
        if not Lmin <= len(kinds) <= Lmax:
            continue
        spec = {'bc': 'infinite', 'sites': kinds, 'build': G.gen_infinite_build(rng, kinds)}
        if spec['build']['method'] == 'singlets' or (spec['build']['method'] == 'product' and rng.random() < 0.8):
            continue            # (mostly entangled states without translation symmetry inside the unit cell)
        D = G.build_data_infinite(spec, SI)
        if spec['build']['method'] == 'bflat' and not D['ok']:
            continue
        return spec, D
    raise RuntimeError('no infinite state')


def segment_spec(rng, SI, parent_bc=None, nmin=2):
    """segment with non-trivial outer bonds of a finite or an infinite state"""
    parent_bc = parent_bc or rng.choice(['finite', 'finite', 'infinite'])
    for _ in range(100):
        if parent_bc == 'finite':
            par = finite_spec(rng, SI, Lmin=max(4, nmin + 2), Lmax=6, maxdim=500)
            if par['build']['method'] == 'bflat':
                par['build']['chi'] = [1] + [max(c, 2) for c in par['build']['chi'][1:-1]] + [1]
            Lp = len(par['sites'])
            if Lp < nmin + 1:
                continue
            if rng.random() < 0.25:           # touches an end of the chain (trivial outer leg)
                first = rng.randrange(0, Lp - nmin + 1)
                last = rng.randrange(first + nmin - 1, Lp)
                if first > 0 and last < Lp - 1:
                    last = Lp - 1
            else:
                if Lp - nmin - 1 < 1:
                    continue
                first = rng.randrange(1, Lp - nmin)
                last = rng.randrange(first + nmin - 1, Lp - 1)
        else:
            par, _ = infinite_spec(rng, SI, 2, 3, maxcell=12)
            Lp = len(par['sites'])
            first = rng.randint(-Lp, Lp - 1)
            last = first + rng.randint(nmin, max(nmin, 4)) - 1
        kinds = [par['sites'][i % Lp] for i in range(first, last + 1)]
        if int(np.prod([G.std_table(k)[0] for k in kinds])) > 300:
            continue
        b = par['build']
        if b['method'] == 'bflat':       # outer bonds with more than one Schmidt state (where the constructor fixes them)
            cuts = [first % Lp, (last + 1) % Lp] if parent_bc == 'infinite' else [c for c in (first, last + 1) if 0 < c < Lp]
            if any(b['chi'][c] < 2 for c in cuts) and rng.random() < 0.9:
                continue
        elif parent_bc == 'infinite':
            continue
        return {'bc': 'segment', 'sites': kinds, 'parent': par, 'segment': [first, last]}
    raise RuntimeError('no segment state')


# ------------------------------------------------------------------------------------------------ the calls

class Infeasible(Exception):
    pass


class Maker:
    """builds one call of `method` with the classes of `force` on a state with the sites S (Sites), boundary condition bc"""

    def __init__(self, rng, nrng, SI):
        self.rng, self.nrng, self.SI = rng, nrng, SI

    def pick(self, method, param, force, exclude=()):
        if param in force:
            if force[param] in exclude:
                raise Infeasible()
            return force[param]
        return self.rng.choice([c.lstrip('?') for c in CV.OPTION_SPACE[method][param] if c.lstrip('?') not in exclude])

    def site_index(self, cls, L, n, bc):
        rng = self.rng
        if cls == '0':
            return 0
        if cls == 'last':
            return L - n
        if cls == 'inner':
            if L - n < 2:
                raise Infeasible()
            return rng.randrange(1, L - n)
        if cls == 'negative':
            if bc == 'infinite':
                return rng.randint(-2 * L, -1)
            return rng.randrange(-L, -n + 1) if n > 1 else rng.randrange(-L, 0)
        if cls in ('beyond-cell', 'cell-boundary'):
            if bc != 'infinite':
                raise Infeasible()
            if cls == 'cell-boundary':
                return L - 1 + L * rng.choice([0, 0, 1, -1])
            return rng.choice([rng.randint(L - n + 1, 2 * L), rng.randint(-2 * L, -1)])
        raise ValueError(cls)

    def trunc(self, cls, chis=None):
        """trunc_par record for swap / permute / split"""
        if cls == 'default':
            return {}
        if cls == 'None':
            return {'trunc_par': None}
        if cls == 'loose':
            return {'trunc_par': {'chi_max': 1000, 'svd_min': 1e-14}, 'trunc_class': 'loose'}
        return {'trunc_par': {'chi_max': self.rng.choice([1, 2, 2, 3]), 'svd_min': 1e-12}, 'trunc_class': 'truncating'}

    # -- operators
    def apply_local_op(self, S, L, bc, force, real=False):
        rng = self.rng
        m = 'apply_local_op'
        ocls = self.pick(m, 'op', force, exclude=() if bc == 'finite' else ('name-JW',) + (('Array:3',) if bc == 'infinite' else ()))
        ucls = self.pick(m, 'unitary', force)
        icls = self.pick(m, 'i', force, exclude=('beyond-cell',) if bc != 'infinite' else ('negative',))
        if bc == 'infinite' and icls == 'negative':
            icls = 'beyond-cell'
        op = {'op': m}
        if ocls in ('name', 'name-JW'):
            if ucls in ('True', 'False-on-unitary'):
                raise Infeasible()
            i = self.site_index(icls, L, 1, bc)
            cand = named(S, i % L, want_jw=(ocls == 'name-JW'))
            if real:
                cand = [x for x in cand if np.abs(S.op(i % L, x).imag).max() == 0]
            if not cand:
                raise Infeasible()
            if ocls == 'name-JW' and (G.KINDS[S.kinds[0]][2] not in JW_FAMS or not all(p.any() for p in S.par)):
                raise Infeasible()
            op.update(i=i, name=rng.choice(cand))
        else:
            n = 2 if ocls == 'Array:legs-permuted' else int(ocls[-1])
            if n > L or (bc == 'infinite' and n > 2):
                raise Infeasible()
            i = self.site_index(icls, L, n, bc)
            uni = ucls in ('True', 'False-on-unitary') or (ucls in ('default', 'None') and rng.random() < 0.5)
            mat = G.random_gate(self.nrng, S, [(i + k) % L for k in range(n)], not real, unitary=uni)
            op.update(i=i, n=n, mat=mat_json(mat))
            if ocls == 'Array:legs-permuted':
                perm = list(range(2 * n))
                while perm == list(range(2 * n)):
                    rng.shuffle(perm)
                op['legperm'] = perm
        if ucls != 'default':
            op['unitary'] = {'None': None, 'True': True, 'False': False, 'False-on-unitary': False}[ucls]
        for key in ('renormalize', 'cutoff', 'understood_infinite'):
            c = self.pick(m, key, force)
            if c != 'default':
                op[key] = {'True': True, 'False': False, '1e-10': 1e-10, '1e-15': 1e-15}[c]
            elif key == 'understood_infinite':
                op['ui_default'] = True
        return [op]

    def apply_product_op(self, S, L, bc, force, real=False):
        rng = self.rng
        m = 'apply_product_op'
        ocls = self.pick(m, 'ops', force)
        ucls = self.pick(m, 'unitary', force)
        all_uni = ucls == 'True'

        def one(i):
            k = rng.random()
            cand = [x for x in named(S, i, want_jw=False) if not real or np.abs(S.op(i, x).imag).max() == 0]
            if all_uni:
                cand = [x for x in cand if is_unitary(S.op(i, x))]
            if k < 0.25:
                return 'Id'
            if k < 0.55 and cand:
                return rng.choice(cand)
            return mat_json(G.random_gate(self.nrng, S, [i], not real, unitary=all_uni or rng.random() < 0.5))
        op = {'op': m}
        if ocls.startswith('single'):
            if len(set(S.kinds)) != 1:
                raise Infeasible()
            if ocls == 'single:name':
                cand = [x for x in named(S, 0, want_jw=False) if (not real or np.abs(S.op(0, x).imag).max() == 0) and
                        (not all_uni or is_unitary(S.op(0, x)))]
                if not cand:
                    raise Infeasible()
                op['single'] = rng.choice(cand)
            else:
                op['single'] = mat_json(G.random_gate(self.nrng, S, [0], not real, unitary=all_uni or rng.random() < 0.5))
        elif ocls == 'list:divisor':
            divs = [d for d in range(1, L) if L % d == 0 and all(S.kinds[i] == S.kinds[i % d] for i in range(L))]
            if not divs:
                raise Infeasible()
            d = rng.choice([x for x in divs if x > 1] or divs)
            op['ops'] = [one(i) for i in range(d)]
            if d > 1 and all(o == op['ops'][0] for o in op['ops']):
                op['ops'][-1] = mat_json(G.random_gate(self.nrng, S, [d - 1], not real, unitary=all_uni or rng.random() < 0.5))
        else:
            op['ops'] = [one(i) for i in range(L)]
        if ucls != 'default':
            op['unitary'] = {'None': None, 'True': True, 'False': False}[ucls]
        c = self.pick(m, 'renormalize', force)
        if c != 'default':
            op['renormalize'] = c == 'True'
        return [op]

    def apply_local_term(self, S, L, bc, force, real=False):
        rng = self.rng
        m = 'apply_local_term'
        tcls = self.pick(m, 'term', force, exclude=() if bc == 'finite' else ('odd-JW',))
        ocls = self.pick(m, 'i_offset', force)
        off = {'default': 0, '0': 0, 'positive': rng.choice([1, 2, L]), 'negative': rng.choice([-1, -2, -L])}[ocls]
        n = {'len1': 1, 'len2': 2, 'len3+': rng.randint(3, 4)}.get(tcls, rng.randint(1, 3))
        fermi_ok = G.KINDS[S.kinds[0]][2] in JW_FAMS and all(p.any() for p in S.par)
        any_jw = any(named(S, i, want_jw=True) for i in range(L))
        if tcls in ('odd-JW',) and not (fermi_ok and bc == 'finite'):
            raise Infeasible()
        if tcls == 'same-site':
            n = max(n, 2)
        i0 = rng.randint(-L, 2 * L) if bc == 'infinite' else 0
        sites_ = [i0 + rng.randrange(L) for _ in range(n)]
        if tcls == 'same-site':
            sites_[1] = sites_[0]
        term = []
        for i in sites_:
            cand = named(S, i % L)
            if real:
                cand = [x for x in cand if np.abs(S.op(i % L, x).imag).max() == 0]
            if not any_jw or not fermi_ok:
                cand = [x for x in cand if not S.needs_JW(i % L, x)] if not fermi_ok and bc != 'infinite' else cand
            if not cand:
                raise Infeasible()
            term.append([rng.choice(cand), i - off])
        njw = sum(1 for nm, i in term if S.needs_JW((i + off) % L, nm))
        want_odd = tcls == 'odd-JW'
        if tcls not in ('odd-JW', 'even-JW'):
            want_odd = fermi_ok and bc == 'finite' and rng.random() < 0.4 and njw % 2 == 1
        if (njw % 2 == 1) != want_odd:
            i = i0 + rng.randrange(L)
            jw = named(S, i % L, want_jw=True)
            if not jw:
                # drop one fermionic operator instead
                ks = [k_ for k_, (nm, i_) in enumerate(term) if S.needs_JW((i_ + off) % L, nm)]
                if not ks or len(term) == 1:
                    raise Infeasible()
                term.pop(ks[0])
            else:
                term.insert(rng.randint(0, len(term)), [rng.choice(jw), i - off])
        if tcls in ('len1', 'len2') and len(term) != int(tcls[-1]):
            raise Infeasible()
        op = {'op': m, 'term': term}
        if ocls != 'default':
            op['i_offset'] = off
        for key in ('autoJW', 'canonicalize', 'renormalize'):
            c = self.pick(m, key, force)
            if c != 'default':
                op[key] = c == 'True'
        if op.get('autoJW', True) is False and bc != 'finite':
            pass
        ops = [op]
        if op.get('canonicalize', True) is False:
            op['observe'] = bc != 'infinite'
            ops.append({'op': 'canonical_form', 'renormalize': rng.random() < 0.5})
        return ops

    # -- permutations
    def swap_op_value(self, cls, S, mixed_ok=False):
        if cls == 'default':
            return {}
        fermionic = [bool(p.any()) for p in S.par]
        if cls in ('autoInv',) and any(fermionic) and not all(fermionic):
            raise Infeasible()          # (see assumptions: neither a permutation nor consistently documented on mixed chains)
        if cls == 'None':
            if any(fermionic):
                raise Infeasible()      # plain transposition is documented for bosons
            return {'swap_op': None}
        if cls == 'Array':
            how = self.rng.choice(['auto', 'auto', 'autoInv', 'plain'])
            if how == 'plain' and any(fermionic):
                how = 'auto'
            return {'swap_op': {'array': how}}
        return {'swap_op': cls}

    def swap_sites(self, S, L, bc, force, real=False):
        m = 'swap_sites'
        icls = self.pick(m, 'i', force, exclude=('cell-boundary', 'beyond-cell') if bc != 'infinite' else ())
        i = self.site_index(icls, L, 2, bc)
        op = {'op': m, 'i': i}
        op.update(self.swap_op_value(self.pick(m, 'swap_op', force), S))
        op.update(self.trunc(self.pick(m, 'trunc_par', force, exclude=('truncating',) if bc != 'finite' else ())))
        return [op]

    def permute_sites(self, S, L, bc, force, real=False):
        rng = self.rng
        m = 'permute_sites'
        pcls = self.pick(m, 'perm', force)
        if pcls == 'identity':
            perm = list(range(L))
        elif pcls == 'transposition':
            a, b = rng.sample(range(L), 2)
            perm = list(range(L))
            perm[a], perm[b] = b, a
        elif pcls == 'cyclic':
            k = rng.randrange(1, L)
            perm = [(a + k) % L for a in range(L)]
        elif pcls == 'reversal':
            if L < 3:
                raise Infeasible()
            perm = list(range(L))[::-1]
        else:
            perm = list(range(L))
            rng.shuffle(perm)
        op = {'op': m, 'perm': perm}
        if pcls == 'ndarray' or rng.random() < 0.2:
            op['as_ndarray'] = True
        op.update(self.swap_op_value(self.pick(m, 'swap_op', force), S))
        op.update(self.trunc(self.pick(m, 'trunc_par', force, exclude=('truncating',) if bc != 'finite' else ())))
        return [op]

    def compute_K(self, S, L, bc, force, real=False):
        """random permutations of the sites of the unit cell (the state need not be invariant: ov is then compared with the
        mixed transfer matrix), the identity (every state is invariant: W, U and ov are fixed by the documentation) and the
        translation of a lattice ring"""
        rng = self.rng
        m = 'compute_K'
        pcls = self.pick(m, 'perm', force)
        op = {'op': m, 'perm': list(range(L)), 'invariant': True}
        if pcls == 'Lattice':
            if len(set(S.kinds)) != 1 or S.mod:
                raise Infeasible()
            op['lattice'] = [1, L]          # one ring of L sites: translation by one site
            op['invariant'] = False
            op['perm'] = None
        elif rng.random() < 0.6 and not S.mod:
            # (the permuted state has to live on the same sites: only sites of the same kind are exchanged; with charges the
            #  overlap with the permuted state may vanish identically in the charge sector compute_K looks at)
            perm = list(range(L))
            for kind in set(S.kinds):
                idx = [i for i in range(L) if S.kinds[i] == kind]
                img = list(idx)
                rng.shuffle(img)
                for a_, b_ in zip(idx, img):
                    perm[a_] = b_
            if perm == list(range(L)):
                if len(set(S.kinds)) == L:
                    raise Infeasible()
                continue_ = True
            op['perm'] = perm
            op['invariant'] = perm == list(range(L))
        if pcls == 'ndarray':
            op['as_ndarray'] = True
        c = self.pick(m, 'swap_op', force)
        if c == 'auto':
            op['swap_op'] = 'auto'
        elif c == 'None':
            if any(p.any() for p in S.par):
                raise Infeasible()
            op['swap_op'] = None
        if self.pick(m, 'trunc_par', force) == 'loose':
            op['trunc_par'] = {'chi_max': 1000, 'svd_min': 1e-14}
        if self.pick(m, 'canonicalize', force) == 'tiny':
            op['canonicalize'] = 1e-30
        if self.pick(m, 'expected_mean_k', force) == 'nonzero':
            op['expected_mean_k'] = rng.choice([0.5, -1.25, 2.0])
        return [op]

    # -- sums, compression
    def add(self, S, L, bc, force, real=False, spec=None, Q=None):
        rng = self.rng
        m = 'add'
        ocls = self.pick(m, 'other', force, exclude=('MPS', 'other-charge-gauge') if bc == 'segment' else ())
        op = {'op': m}
        if ocls == 'self':
            op['other_x'] = 'self'
        elif bc == 'segment' or rng.random() < 0.3:
            # a copy of the state with its own short history of local operators (same outer legs)
            fo = []
            for _ in range(rng.randint(1, 2)):
                try:
                    fo += self.apply_local_op(S, L, bc, {'op': rng.choice(['Array:1', 'Array:2'])}, real)
                except Infeasible:
                    pass
            if not fo:
                raise Infeasible()
            for o in fo:
                o.pop('legperm', None)
            op['other_x'] = {'fork_ops': fo}
        else:
            other = {'bc': 'finite', 'sites': list(S.kinds), 'build': G.gen_finite_build(rng, S.kinds, allow=['full', 'full_sparse'])}
            other['build']['normalize'] = True
            other['build']['Q'] = Q
            op['other'] = other
            op['other_norm'] = rng.choice([1.0, 1.0, 2.5, 0.5])
        if ocls == 'other-form':
            if op.get('other_x') == 'self':
                raise Infeasible()
            op['other_form'] = G.gen_forms(rng, L)
        if ocls == 'other-charge-gauge':
            if op.get('other_x') == 'self' or not S.mod:
                raise Infeasible()
            op['other_gauge'] = rng.randrange(L - 1)

        def coef(cls):
            if cls == '0':
                return [0.0, 0.0]
            if cls == '1':
                return [1.0, 0.0]
            if cls == 'complex':
                return [rng.choice([0.5, -2.0, 1.0]), rng.choice([1.0, -0.5])]
            return [rng.choice([0.5, -2.0, 3.0, -0.7]), 0.0]
        a, b = self.pick(m, 'alpha', force), self.pick(m, 'beta', force)
        if a == '0' and b == '0':
            b = 'real'
        op['alpha'], op['beta'] = coef(a), coef(b)
        c = self.pick(m, 'cutoff', force)
        if c != 'default':
            op['cutoff'] = {'1e-15': 1e-15, '1e-10': 1e-10, 'None': None}[c]
        return [op]

    def compress_svd(self, S, L, bc, force, real=False):
        rng = self.rng
        c = self.pick('compress_svd', 'trunc_par', force)
        tp = {'chi_max': {'chi_max': rng.choice([1, 1, 2, 3]), 'svd_min': 1e-14}, 'svd_min': {'chi_max': 100, 'svd_min': rng.choice([1e-3, 0.05, 0.2])},
              'trunc_cut': {'chi_max': 100, 'svd_min': 1e-14, 'trunc_cut': rng.choice([1e-2, 0.1])},
              'no-truncation': {'chi_max': 1000, 'svd_min': 1e-14}}[c]
        return [{'op': 'compress_svd', 'trunc': tp, 'trunc_class': c}]

    def compress(self, S, L, bc, force, real=False):
        rng = self.rng
        c = self.pick('compress', 'options', force, exclude=('variational',) if bc != 'finite' else ())
        tp = {'chi_max': rng.choice([1, 2, 3, 100]), 'svd_min': rng.choice([1e-12, 1e-3])}
        op = {'op': 'compress', 'method': c, 'trunc': tp}
        if c == 'variational':
            tp['chi_max'] = rng.choice([1, 2, 2])
            if L < 3:
                raise Infeasible()
            op['options'] = {'max_sweeps': 2, 'min_sweeps': 1, 'max_trunc_err': None}
        return [op]

    def enlarge_chi(self, S, L, bc, force, real=False):
        rng = self.rng
        m = 'enlarge_chi'
        c = self.pick(m, 'extra_legs', force)
        nb = L + 1 if bc != 'infinite' else L
        inner = range(1, L) if bc != 'infinite' else range(nb)

        def entry(cls):
            if cls == 'int':
                return rng.choice([1, 1, 2])
            if cls == 'None':
                return None
            return {'blocks': [[rng.randrange(4), rng.choice([1, 1, 2])] for _ in range(rng.randint(1, 2))]}
        extra = [0] * nb
        if c == 'int:0-only':
            pass
        else:
            hit = False
            for b in inner:
                if rng.random() < 0.6:
                    extra[b] = entry(c if rng.random() < 0.7 else rng.choice(['int', 'None', 'LegCharge']))
                    hit = hit or True
            b = rng.choice(list(inner))
            extra[b] = entry(c)
        if bc != 'infinite':          # (the outer legs of a finite chain are trivial, those of a segment belong to its environment)
            extra[0] = extra[-1] = rng.choice([0, None]) if c in ('None',) else 0
        op = {'op': m, 'extra': extra}
        if self.pick(m, 'random_fct', force) == 'default':
            op['np_seed'] = rng.randrange(1 << 30)
        else:
            op['seed'] = rng.randrange(1 << 30)
        return [op]

    def subspace_expansion(self, S, L, bc, force, real=False, Q=None):
        rng = self.rng
        m = 'subspace_expansion'
        e = self.pick(m, 'expand_into', force)
        op = {'op': m, 'np_seed': rng.randrange(1 << 30)}
        if e != 'default':
            others = []
            for _ in range({'empty': 0, 'MPS:1': 1, 'MPS:2': 2}[e]):
                fo = self.apply_local_op(S, L, bc, {'op': 'Array:2' if L > 2 else 'Array:1', 'unitary': 'False'}, real)
                fo[0].pop('legperm', None)
                others.append({'fork_ops': fo})
            op['expand_into'] = others
        t = self.pick(m, 'trunc_par', force)
        if t == 'chi_max':
            op['trunc_par'] = {'chi_max': rng.choice([2, 3, 4, 8]), 'svd_min': 1e-10}
        elif t == 'svd_min':
            op['trunc_par'] = {'svd_min': rng.choice([1e-8, 1e-3])}
        return [op]

    def perturb(self, S, L, bc, force, real=False):
        rng = self.rng
        m = 'perturb'
        op = {'op': m, 'np_seed': rng.randrange(1 << 30)}
        c = self.pick(m, 'randomize_params', force)
        if c == 'None':
            op['randomize_params'] = None
        elif c == 'dict':
            op['randomize_params'] = {'N_steps': rng.choice([1, 2]), 'trunc_params': {'chi_max': 64, 'svd_min': 1e-12}}
        for key in ('close_1', 'canonicalize'):
            c = self.pick(m, key, force)
            if c != 'default':
                op[key] = {'True': True, 'False': False, 'None': None}[c]
        return [op]

    # -- structure
    def group_sites(self, S, L, bc, force, real=False):
        rng = self.rng
        m = 'group_sites'
        ncls = self.pick(m, 'n', force, exclude=('not-dividing-L',) if bc == 'infinite' else ())
        op = {'op': m}
        if ncls == 'default':
            n = 2
        elif ncls == 'L':
            n = L
            op['n'] = n
        elif ncls == 'not-dividing-L':
            cand = [x for x in (2, 3) if L % x]
            if not cand:
                raise Infeasible()
            n = op['n'] = rng.choice(cand)
        else:
            n = op['n'] = int(ncls)
        if n > L or (bc == 'infinite' and L % n) or n < 2:
            raise Infeasible()
        if int(np.max([np.prod(S.dims[j:j + n]) for j in range(0, L, n)])) > 150:
            raise Infeasible()
        g = self.pick(m, 'grouped_sites', force)
        if g != 'default':
            op['grouped_sites'] = g == 'list'
        op['observe'] = bc == 'finite'
        ops = [op]
        if bc == 'finite' and rng.random() < 0.4:
            ops.append({'op': 'convert_form', 'forms': rng.choice(G.FORMS)})
        ops += self.group_split(S, L, bc, {k[6:]: v for k, v in force.items() if k.startswith('split:')})
        return ops

    def group_split(self, S, L, bc, force, real=False):
        m = 'group_split'
        c = self.pick(m, 'trunc_par', force, exclude=('truncating',) if bc != 'finite' else ())
        if c == 'default':
            return [{'op': m}]
        if c == 'None':
            return [{'op': m, 'trunc': None}]
        if c == 'loose':
            return [{'op': m, 'trunc': {'chi_max': 1000, 'svd_min': 1e-14}, 'trunc_class': 'loose'}]
        return [{'op': m, 'trunc': {'chi_max': self.rng.choice([1, 2, 3]), 'svd_min': 1e-12}, 'trunc_class': 'truncating'}]

    def get_grouped_mps(self, S, L, bc, force, real=False):
        n = int(self.pick('get_grouped_mps', 'blocklen', force))
        if n > L or (bc == 'infinite' and L % n) or int(np.max([np.prod(S.dims[j:j + n]) for j in range(0, L, n)])) > 150:
            raise Infeasible()
        return [{'op': 'get_grouped_mps', 'n': n, 'observe': bc == 'finite'}] + self.group_split(S, L, bc, {})

    def spatial_inversion(self, S, L, bc, force, real=False):
        BK = '<recorded boundaries of a segment>'
        b = self.pick('spatial_inversion', BK, force, exclude=('recorded',) if bc != 'segment' else ())
        pre = []
        if b == 'recorded':         # a canonical_form on the segment records the change of its outer bases
            pre = self.apply_local_op(S, L, bc, {'op': self.rng.choice(['Array:1', 'Array:2']), 'unitary': 'False'}, real)
        return pre + [{'op': 'spatial_inversion'}]

    def enlarge_mps_unit_cell(self, S, L, bc, force, real=False):
        c = self.pick('enlarge_mps_unit_cell', 'factor', force)
        f = 2 if c == 'default' else int(c)
        if int(np.prod(S.dims)) ** f > 300 or L * f > 8:
            raise Infeasible()
        return [{'op': 'enlarge_mps_unit_cell'} if c == 'default' else {'op': 'enlarge_mps_unit_cell', 'factor': f}]

    def roll_mps_unit_cell(self, S, L, bc, force, real=False):
        c = self.pick('roll_mps_unit_cell', 'shift', force)
        if c == 'default':
            return [{'op': 'roll_mps_unit_cell'}]
        k = {'0': 0, '1': 1, '-1': -1, 'L': L}.get(c)
        if k is None:
            k = self.rng.choice([x for x in (2, -2, L - 1, L + 1, -L, -L - 1, 2 * L, 3) if x not in (0, 1, -1, L)])
        return [{'op': 'roll_mps_unit_cell', 'shift': k}]

    def extract_segment(self, S, L, bc, force, real=False):
        rng = self.rng
        m = 'extract_segment'
        BK = '<recorded boundaries of a segment>'
        pre = []
        if bc == 'segment':
            if L < 3:
                raise Infeasible()
            b = self.pick(m, BK, force)
            want = {'kept-left': ('0', 'inner'), 'kept-right': ('inner', 'L-1'), 'dropped': ('inner', 'inner')}.get(b)
            if want is not None:
                if any(force.get(k_, w_) != w_ for k_, w_ in zip(('first', 'last'), want)):
                    raise Infeasible()
                force = dict(force, first=want[0], last=want[1])
                # a canonical_form on the segment records the change of its outer bases
                pre = self.apply_local_op(S, L, bc, {'op': rng.choice(['Array:1', 'Array:2']), 'unitary': 'False'}, real)
        elif BK in force and force[BK] != 'none':
            raise Infeasible()
        f = self.pick(m, 'first', force, exclude=('negative',) if bc != 'infinite' else ())
        l = self.pick(m, 'last', force, exclude=('beyond-cell',) if bc != 'infinite' else ())
        if bc == 'segment' and f == '0' and l == 'L-1':
            raise Infeasible()
        for _ in range(30):
            first = {'0': 0, 'inner': rng.randrange(1, max(2, L - 1)), 'negative': rng.randint(-L, -1)}[f]
            if l == 'L-1':
                last = L - 1
            elif l == 'inner':
                last = rng.randrange(max(first + 1, 1), max(first + 2, L - 1)) if L > 2 else None
            else:
                last = rng.randint(L, 2 * L)
            if last is None or last <= first or (bc != 'infinite' and last > L - 1) or (l == 'inner' and last >= L - 1):
                continue
            if int(np.prod([S.dims[i % L] for i in range(first, last + 1)])) > 300:
                continue
            return pre + [{'op': m, 'first': first, 'last': last}]
        raise Infeasible()

    def gauge_total_charge(self, S, L, bc, force, real=False):
        """consistent requests only: a finite / segment chain fixes its right leg by the left leg and the tensor charges, an
        infinite one keeps the charge of its unit cell (qtotal_rel: resolved by the runner relative to the present total)"""
        rng = self.rng
        m = 'gauge_total_charge'
        if not S.mod:
            if any(k_ != '<bc>' for k_ in force):
                raise Infeasible()
            return [{'op': m}]              # documented: nothing to do without charges
        nq = len(S.mod)

        def q():
            return [rng.randint(-2, 2) for _ in range(nq)]
        op = {'op': m}
        c = self.pick(m, 'qtotal', force)
        a, b = self.pick(m, 'vL_leg', force), self.pick(m, 'vR_leg', force)
        if b == 'LegCharge' or (bc == 'infinite' and a == 'LegCharge'):
            if ('vL_leg' in force and a != 'LegCharge') or ('qtotal' in force and c not in ('default', 'None')):
                raise Infeasible()
            a = b = 'LegCharge'
            if c not in ('default', 'None'):
                c = rng.choice(['default', 'None'])
        elif bc == 'infinite' and c in ('default', 'None'):
            if 'qtotal' in force:
                raise Infeasible()
            c = rng.choice(['charge', 'list'])
        if c == 'None':
            op['qtotal'] = None
        elif c == 'charge':
            if bc == 'infinite':
                op['qtotal_rel'] = 'total'
            else:
                op['qtotal'] = q()
        elif c == 'list':
            if bc == 'infinite':
                op['qtotal_rel'] = [q() for _ in range(L - 1)]
            else:
                op['qtotal'] = [q() for _ in range(L)]
        if a != 'default':
            op['vL_leg'] = None if a == 'None' else q()
        if b != 'default':
            op['vR_leg'] = None if b == 'None' else q()
        if bc == 'infinite' and op.get('vL_leg') is not None:
            op['vR_leg'] = [-x for x in op['vL_leg']]       # documented: vL_leg has to be the conjugate of vR_leg
        return [op]

    def copy(self, S, L, bc, force, real=False):
        return [{'op': 'copy'}]


# ------------------------------------------------------------------------------------------------ followers

def follow_ups(mk, S_kinds, bc, SI, zero_S=False, real=False, n=1):
    """operations that take the current state as operand (safe after zero singular values were appended when zero_S)"""
    rng = mk.rng
    S = G.Sites(S_kinds, SI)
    L = len(S_kinds)
    out = []
    for _ in range(n):
        r = rng.random()
        try:
            if r < 0.35:
                out += mk.apply_local_op(S, L, bc, {'op': rng.choice(['Array:1'] if zero_S else ['Array:1', 'Array:2']), 'unitary': rng.choice(['None', 'default']),
                                                    'understood_infinite': 'True'}, real)
            elif r < 0.5 and not any(p.any() for p in S.par) or r < 0.5 and all(p.any() for p in S.par):
                o = mk.swap_sites(S, L, bc, {'swap_op': 'default', 'trunc_par': 'default', 'i': rng.choice(['0', 'last'])}, real)
                out += o
                i = o[0]['i'] % L
                S_kinds = list(S_kinds)
                S_kinds[i], S_kinds[(i + 1) % L] = S_kinds[(i + 1) % L], S_kinds[i]
                S = G.Sites(S_kinds, SI)
            elif r < 0.65 and bc != 'segment' and not zero_S:
                out.append({'op': 'spatial_inversion'})
                S_kinds = S_kinds[::-1]
                S = G.Sites(S_kinds, SI)
            elif r < 0.8 and not zero_S:
                out.append({'op': 'convert_form', 'forms': G.gen_forms(rng, L)})
            elif bc == 'finite':
                out.append({'op': 'compress_svd', 'trunc': {'chi_max': 1000, 'svd_min': 1e-14}, 'trunc_class': 'no-truncation'})
            else:
                out.append({'op': 'copy'})
        except Infeasible:
            out.append({'op': 'copy'})
    return out, S_kinds


def kinds_after(kinds, ops):
    """site kinds after a list of operations"""
    kinds = list(kinds)
    for o in ops:
        L = len(kinds)
        t = o['op']
        if t == 'swap_sites':
            i = o['i'] % L
            j = (i + 1) % L
            kinds[i], kinds[j] = kinds[j], kinds[i]
        elif t == 'permute_sites':
            new = [None] * L
            for a, p in enumerate(o['perm']):
                new[p] = kinds[a]
            kinds = new
        elif t == 'spatial_inversion':
            kinds = kinds[::-1]
        elif t == 'roll_mps_unit_cell':
            k = o.get('shift', 1)
            kinds = [kinds[(j - k) % L] for j in range(L)]
        elif t == 'enlarge_mps_unit_cell':
            kinds = kinds * o.get('factor', 2)
        elif t == 'extract_segment':
            kinds = [kinds[i % L] for i in range(o['first'], o['last'] + 1)]
    return kinds


BCS = {'finite': 'finite', 'infinite': 'infinite', 'segment': 'segment'}


def goals():
    """(method, bc, parameter, class) for every class of every parameter on every documented boundary condition"""
    out = []
    for m, space in CV.OPTION_SPACE.items():
        if isinstance(space, str) or m == 'extract_enlarged_segment':
            continue
        for bc in space['<bc>']:
            params = [p for p in space if p != '<bc>' and not isinstance(space[p], str)]
            if not params:
                out.append((m, bc, None, None))
            for p in params:
                for c in space[p]:
                    out.append((m, bc, p, c.lstrip('?')))
    return out


def inf_segs(rng, L, dims):
    segs = [[i] for i in range(L)] + [[i, i + 1] for i in range(L)]
    for k in sorted(set([L, L + 1, 2 * L - 1, 2 * L + 1])):
        i = rng.randrange(L)
        if k >= 2:
            segs.append([i, i + k])
    return segs


def nonzero_history(spec, ops, D, SI):
    """dense / unit-cell reference of the history: False when an operator application gives (almost) the zero vector or, for an
    infinite state, a superposition without canonical form"""
    import c09
    bc = spec['bc']
    if bc == 'segment' or D is None:
        return True
    try:
        if bc == 'finite':
            ref = c09.FRef(D['vec'], spec['sites'], SI)
            for o in ops:
                if ref.reseed or ref.trunc:
                    return True
                ref.apply(o, G.build_data(o['other'], SI) if o['op'] == 'add' and 'other' in o else None)
                if (o['op'].startswith('apply_') and ref.raw_ratio < 1e-4) or np.linalg.norm(ref.vec) < 1e-6:
                    return False
            return True
        ref = c09.IRef(D['Ms'], spec['sites'], SI)
        for o in ops:
            if o['op'] == 'extract_segment':
                return True
            ref.apply(o)
            if ref.reseed:
                return True
            if not (ref.raw_ratio > 1e-4):
                return False
            if o['op'].startswith('apply_') and ref.tm().gap > 1 - 1e-4:
                return False
        return True
    except Exception:
        return True


def gen_goal_case(rng, nrng, SI, goal):
    """one history realising `goal`; returns (case, data for the reference) or None"""
    m, bc, param, cls = goal
    mk = Maker(rng, nrng, SI)
    force = {param: cls} if param else {}
    for attempt in range(40):
        try:
            need_fermi = (m == 'apply_local_op' and cls == 'name-JW') or (m == 'apply_local_term' and cls == 'odd-JW')
            swapcls = force.get('swap_op')
            uniform = (m == 'apply_product_op' and cls in ('single:name', 'single:Array', 'list:divisor')) or (m == 'compute_K' and cls == 'Lattice')
            charged = True if (m == 'gauge_total_charge' and rng.random() < 0.85) or cls == 'other-charge-gauge' else None
            if m == 'enlarge_chi' and cls == 'LegCharge' and bc == 'finite':
                charged = False          # (with charges an extra block may be refused as overcomplete)
            if m == 'compute_K' and (cls == 'Lattice' or rng.random() < 0.5):
                charged = False
            nonfermi = swapcls == 'None'
            D = None
            if bc == 'finite':
                spec = finite_spec(rng, SI, Lmin=4 if cls == 'list:divisor' else (
                    3 if m in ('compress', 'extract_segment', 'subspace_expansion') or cls in ('Array:3', 'inner', 'reversal') else 2),
                    Lmax=6, fermi=need_fermi, charged=charged, uniform=uniform)
                D = G.build_data(spec, SI)
                real = False
            elif bc == 'infinite':
                if m == 'compute_K':
                    spec, D = infinite_spec(rng, SI, 2, 4, charged=charged, uniform=uniform or rng.random() < 0.6, maxcell=16)
                else:
                    spec, D = infinite_spec(rng, SI, 4 if cls == 'list:divisor' else (3 if cls in ('inner',) else 2), 4, charged=charged, uniform=uniform)
                real = ((not spec['build'].get('cplx')) or spec['build']['method'] == 'product') and rng.random() < 0.5
            else:
                spec = segment_spec(rng, SI, nmin=3 if cls in ('Array:3', 'inner', 'reversal') or m == 'extract_segment' else 2)
                real = False
            kinds = list(spec['sites'])
            if nonfermi and any(sum(G.std_table(k)[2]) for k in kinds):
                continue
            ops = []
            # earlier operations
            if bc == 'infinite':
                if rng.random() < 0.7:
                    ops.append({'op': 'convert_form', 'forms': G.gen_forms(rng, len(kinds))})
            elif bc == 'segment' and m in ('extract_segment', 'spatial_inversion'):
                pass            # (the maker decides whether the segment has recorded boundaries)
            elif bc == 'segment' and m in ('add', 'group_sites', 'swap_sites', 'permute_sites') and rng.random() < 0.6:
                # a segment whose outer bases were changed by a canonical_form (recorded in segment_boundaries)
                S_ = G.Sites(kinds, SI)
                ops += mk.apply_local_op(S_, len(kinds), bc, {'op': rng.choice(['Array:1', 'Array:2']), 'unitary': 'False'}, real)
            elif rng.random() < 0.5:
                pre, kinds2 = follow_ups(mk, kinds, bc, SI, real=real)
                ops += pre
            kinds_now = kinds_after(kinds, ops)
            S = G.Sites(kinds_now, SI)
            L = len(kinds_now)
            kw = {}
            if m in ('add', 'subspace_expansion') and bc == 'finite':
                vec = D['vec']
                nzi = np.unravel_index(int(np.argmax(np.abs(vec))), vec.shape)
                S0 = G.Sites(spec['sites'], SI)
                kw['Q'] = S0.valid(np.sum([S0.q[i][nzi[i]] for i in range(len(S0.kinds))], axis=0)) if S0.mod else []
            if m == 'group_split':
                call = mk.group_sites(S, L, bc, {'split:' + k_: v_ for k_, v_ in force.items()}, real=real)
            else:
                call = getattr(mk, m)(S, L, bc, force, real=real, **kw)
            ops += call
            if any(o_.get('trunc_class') == 'truncating' or (o_['op'] == 'group_split' and o_.get('trunc') is None) or
                   (bc == 'infinite' and o_['op'] in ('compress', 'compress_svd') and o_.get('trunc_class') != 'no-truncation') for o_ in call):
                ops.append({'op': 'canonical_form', 'renormalize': False})     # truncation leaves the canonical form only approximately
            kinds_now = kinds_after(kinds_now, call)
            # later operations on the result
            last = call[-1]
            ends = (last['op'] == 'apply_local_term' and last.get('canonicalize', True) is False) or \
                (m == 'extract_segment' and bc == 'infinite')
            if m == 'enlarge_mps_unit_cell':
                # the enlarged state as operand of an operation that updates tensors in place (canonical_form of ONE changed site)
                S2 = G.Sites(kinds_now, SI)
                ops += mk.apply_local_op(S2, len(kinds_now), bc, {'op': 'Array:1', 'unitary': 'False', 'renormalize': rng.choice(['default', 'False']),
                                                                  'understood_infinite': 'True'}, real)
            if not ends:
                now_bc = 'segment' if m == 'extract_segment' else bc
                zero_S = m in ('enlarge_chi', 'subspace_expansion') or (m == 'add' and 'cutoff' in call[-1] and call[-1]['cutoff'] is None)
                post, _ = follow_ups(mk, kinds_now, now_bc, SI, zero_S=zero_S, real=real, n=rng.randint(1, 2))
                ops += post
            if not nonzero_history(spec, ops, D, SI):
                continue            # (an operator of the history annihilates the state: covered by the random streams)
            case = {'state': spec, 'ops': ops, 'want': {}, 'stream': 'options-' + bc, 'goal': list(goal)}
            if bc == 'infinite':
                Lc = len(spec['sites'])
                dims = [G.std_table(k)[0] for k in spec['sites']]
                case['want'] = {'rdm': inf_segs(rng, Lc, dims)}
                kk = list(spec['sites'])
                for op in ops:
                    kk = kinds_after(kk, [op]) if op['op'] != 'extract_segment' else kk
                    op['rdm_after'] = inf_segs(rng, len(kk), None)
                    # keep the compared density matrices small
                    dd = [G.std_table(k)[0] for k in kk]
                    op['rdm_after'] = [sg for sg in op['rdm_after'] if int(np.prod([dd[i % len(kk)] for i in sg])) <= 256 and max(sg) - min(sg) <= 12]
            return case, D
        except Infeasible:
            continue
    return None


def gen_enlarged_segment_cases(rng, nrng, SI, reps):
    """extract_enlarged_segment over its option classes: a segment of a finite / infinite background state, modified by
    local operators, enlarged by whole unit cells or to an explicit range"""
    mk = Maker(rng, nrng, SI)
    out = []
    classes = [('add_unitcells', 'int'), ('add_unitcells', 'pair'), ('new_first_last', 'pair'), ('new_first_last', 'both-sides'), ('new_first_last', 'whole-finite-chain'),
               ('new_first_last', 'left-only'), ('new_first_last', 'right-only'),
               ('new_first_last', 'unchanged'), ('cutoff', '1e-12'), ('cutoff', 'default')]
    for p, c in classes * reps:
        for attempt in range(30):
            parent_bc = 'infinite' if p == 'add_unitcells' or (rng.random() < 0.4 and c != 'whole-finite-chain') else 'finite'
            spec = segment_spec(rng, SI, parent_bc=parent_bc)
            first, last = spec['segment']
            par = spec['parent']
            Lp = len(par['sites'])
            S = G.Sites(spec['sites'], SI)
            n = len(spec['sites'])
            ops = []
            try:
                for _ in range(rng.randint(0, 2)):
                    o = mk.apply_local_op(S, n, 'segment', {'op': rng.choice(['Array:1', 'Array:2']), 'renormalize': 'default',
                                                            'unitary': rng.choice(['False', 'None', 'default'])})
                    ops += o
            except Infeasible:
                continue
            op = {'op': 'extract_enlarged_segment', 'parent': par, 'first': first, 'last': last}
            if p == 'add_unitcells':
                op['add_unitcells'] = rng.choice([0, 1]) if c == 'int' else [rng.choice([0, 1]), rng.choice([0, 1])]
                a = op['add_unitcells']
                aL, aR = (a, a) if isinstance(a, int) else a
                nf = -aL * Lp
                nl = max(Lp - 1, last)
                nl = nl - (nl % Lp) + Lp - 1 + aR * Lp
                if first < nf:
                    continue
            else:
                if c == 'unchanged':
                    nf, nl = first, last
                elif c == 'whole-finite-chain':
                    nf, nl = 0, Lp - 1
                elif c == 'both-sides':
                    nf, nl = first - 1, last + 1
                    if parent_bc == 'finite' and (nf < 0 or nl > Lp - 1):
                        continue
                elif c in ('left-only', 'right-only'):
                    nf, nl = (first - 1, last) if c == 'left-only' else (first, last + 1)
                    if parent_bc == 'finite' and (nf < 0 or nl > Lp - 1):
                        continue
                    if not any(o_.get('unitary') is False for o_ in ops):     # recorded boundaries wanted
                        continue
                elif parent_bc == 'finite':
                    nf, nl = rng.randint(0, first), rng.randint(last, Lp - 1)
                else:
                    nf, nl = first - rng.randint(0, 2), last + rng.randint(0, 2)
                if p == 'new_first_last' and c != 'unchanged' and (nf, nl) == (first, last):
                    continue
                op['new_first_last'] = [nf, nl]
            if p == 'cutoff' and c == '1e-12':
                op['cutoff'] = 1e-12
            kinds = [par['sites'][i % Lp] for i in range(nf, nl + 1)]
            if int(np.prod([G.std_table(k)[0] for k in kinds])) > 1200:
                continue
            ops.append(op)
            post, _ = follow_ups(mk, kinds, 'finite' if (parent_bc == 'finite' and nf == 0 and nl == Lp - 1) else 'segment', SI, n=1)
            if (nf, nl) != (first, last) or True:
                ops += post
            out.append(({'state': spec, 'ops': ops, 'want': {}, 'stream': 'options-segment', 'goal': ['extract_enlarged_segment', 'segment', p, c]}, None))
            break
    return out


REFUSALS = [
    # (boundary condition of the state, call, documented reason)
    ('finite', {'op': 'roll_mps_unit_cell', 'shift': 1}, 'roll_mps_unit_cell: "Shift the section we define as unit cell of an infinite MPS"'),
    ('finite', {'op': 'call', 'method': 'compute_K', 'args': [[1, 0]]}, 'compute_K: "Works for an infinite MPS"'),
    ('infinite', {'op': 'call', 'method': 'enlarge_mps_unit_cell', 'args': [1]}, 'enlarge_mps_unit_cell(factor): the number of sites is INCREASED to factor*L'),
    ('infinite', {'op': 'call', 'method': 'enlarge_mps_unit_cell', 'args': [1.5]}, 'enlarge_mps_unit_cell(factor : int)'),
    ('segment', {'op': 'call', 'method': 'enlarge_mps_unit_cell', 'args': [2]}, 'enlarge_mps_unit_cell: "Repeat the unit cell for infinite MPS boundary conditions"'),
    ('finite', {'op': 'compress', 'method': 'exact', 'trunc': {'chi_max': 10}}, "compress: compression_method 'SVD' | 'variational'"),
    ('finite', {'op': 'call', 'method': 'enlarge_chi', 'args': [[0, 1]]}, 'enlarge_chi(extra_legs): length L+1 for finite'),
    ('finite', {'op': 'call', 'method': 'apply_product_op', 'args': [['Id', 'Id', 'Id', 'Id', 'Id', 'Id', 'Id']]}, 'apply_product_op: len(ops) has to divide L'),
    ('segment', {'op': 'call', 'method': 'extract_enlarged_segment', 'args': ['self', 'self', 0, 1]}, 'extract_enlarged_segment: either add_unitcells or new_first_last'),
    ('infinite-fermi', {'op': 'apply_local_op', 'i': 0, 'name': 'Cd', 'understood_infinite': True}, 'apply_local_op: an open Jordan-Wigner string in every unit cell of an infinite MPS'),
    ('infinite-fermi', {'op': 'apply_local_term', 'term': [['Cd', 0], ['N', 1]]}, 'apply_local_term: an open Jordan-Wigner string in every unit cell of an infinite MPS'),
    ('finite-fermi', {'op': 'swap_sites', 'i': 0, 'swap_op': 'fermionic'}, 'swap_sites(swap_op): None | auto | autoInv | Array'),
    ('finite', {'op': 'call', 'method': 'swap_sites', 'args': [0], 'kwargs': {'swap_op': 5}}, 'swap_sites(swap_op): None | auto | autoInv | Array'),
    ('segment', {'op': 'call', 'method': 'extract_enlarged_segment', 'args': ['self', 'self', 0, 1], 'kwargs': {'add_unitcells': 1, 'new_first_last': [0, 1]}},
     'extract_enlarged_segment: either add_unitcells or new_first_last'),
    ('segment', {'op': 'call', 'method': 'extract_enlarged_segment', 'args': ['self', 'self', 0, 1], 'kwargs': {'add_unitcells': [0, 1, 1]}},
     'extract_enlarged_segment(add_unitcells : int | (int, int))'),
    ('segment', {'op': 'call', 'method': 'extract_enlarged_segment', 'args': ['parent', 'parent', 'first', 'last'], 'kwargs': {'new_first_last': ['first+1', 'last']}},
     'extract_enlarged_segment: the new range has to contain the segment'),
    ('segment-finite', {'op': 'call', 'method': 'extract_enlarged_segment', 'args': ['parent', 'parent', 'first', 'last'], 'kwargs': {'new_first_last': [-1, 'last']}},
     'extract_enlarged_segment: outside of the finite background state'),
    ('finite', {'op': 'call', 'method': 'extract_enlarged_segment', 'args': ['self', 'self', 1, 2], 'kwargs': {'new_first_last': [0, 2]}},
     'extract_enlarged_segment: "Extract an enlarged segment from an initially smaller segment MPS"'),
    ('finite-charged', {'op': 'call', 'method': 'gauge_total_charge', 'args': [[[0], [0]]]}, 'gauge_total_charge(qtotal): one set of charges or one per site'),
    ('segment', {'op': 'compress_svd', 'trunc': {'chi_max': 2}}, 'compress_svd: finite and infinite boundary conditions'),
    ('finite', {'op': 'call', 'method': 'apply_local_op', 'args': [0, {'badop': 'unpaired'}]}, 'apply_local_op: the labels of op come in pairs l, l*'),
    ('finite', {'op': 'call', 'method': 'apply_local_op', 'args': [0, {'badop': 'mixed'}]}, 'apply_local_op: labels either all end in numbers or none of them'),
    ('finite', {'op': 'call', 'method': 'apply_local_op', 'args': [0, {'badop': 'mixed2'}]}, 'apply_local_op: labels either all end in numbers or none of them'),
    ('finite', {'op': 'call', 'method': 'apply_local_op', 'args': [0, {'badop': 'p0only'}]}, 'apply_local_op: single-site operators have the labels p, p*'),
]


def gen_refusal_cases(rng, nrng, SI):
    out = []
    for bc, call, why in REFUSALS:
        D = None
        if bc.startswith('finite'):
            for _ in range(100):
                spec = finite_spec(rng, SI, Lmin=3, Lmax=5, fermi=bc == 'finite-fermi', charged=True if bc == 'finite-charged' else None)
                if len(spec['sites']) not in (1, 2, 7) and (bc != 'finite-charged' or len(G.FAMILY_MOD[G.KINDS[spec['sites'][0]][2]]) == 1):
                    break
            D = G.build_data(spec, SI)
        elif bc == 'infinite-fermi':
            for _ in range(200):
                spec, D = infinite_spec(rng, SI, 2, 3, charged=True)
                if all(k.split(':')[0] == 'F' for k in spec['sites']):
                    break
            else:
                continue
        elif bc == 'infinite':
            spec, D = infinite_spec(rng, SI, 2, 3)
        else:
            spec = segment_spec(rng, SI, parent_bc='finite' if bc == 'segment-finite' else None)
        call = json_subst(call, spec)
        op = dict(call, must_raise=why)
        if 'parent' in str(call.get('args', '')):
            op['parent'] = spec['parent']
        case = {'state': spec, 'ops': [op], 'want': {}, 'stream': 'refusals', 'goal': ['refusal', bc, call.get('method', call['op']), why]}
        if spec['bc'] == 'infinite':
            dims = [G.std_table(k)[0] for k in spec['sites']]
            case['want'] = {'rdm': inf_segs(rng, len(spec['sites']), dims)[:4]}
        out.append((case, D))
    return out


def json_subst(x, spec):
    """resolve 'first' / 'last' / 'first+1' tokens of a refusal template with the segment range of the state"""
    if isinstance(x, dict):
        return {k: json_subst(v, spec) for k, v in x.items()}
    if isinstance(x, list):
        return [json_subst(v, spec) for v in x]
    if isinstance(x, str) and 'segment' in spec and x in ('first', 'last', 'first+1'):
        return {'first': spec['segment'][0], 'last': spec['segment'][1], 'first+1': spec['segment'][0] + 1}[x]
    return x


def gen_topup_cases(rng, nrng, SI, missing, reps=3):
    """further histories for value classes the first pass did not reach (its calls were refused / gave the zero vector)"""
    out = []
    for m, p, c in missing:
        if m == 'extract_enlarged_segment':
            out += [x for x in gen_enlarged_segment_cases(rng, nrng, SI, 1) if x[0]['goal'][2:] == [p, c] or p.startswith('<') or p in ('first', 'last', 'psi_left', 'psi_right')]
            continue
        for g in goals():
            if g[0] == m and ((p == '<bc>' and g[1] == c) or (g[2] == p and g[3] == c)):
                for _ in range(reps):
                    x = gen_goal_case(rng, nrng, SI, g)
                    if x is not None:
                        out.append(x)
    return out


def gen_cases(rng, nrng, SI, reps=1):
    out = gen_refusal_cases(rng, nrng, SI)
    for goal in goals():
        for _ in range(reps):
            x = gen_goal_case(rng, nrng, SI, goal)
            if x is not None:
                out.append(x)
    out += gen_enlarged_segment_cases(rng, nrng, SI, reps)
    return out
