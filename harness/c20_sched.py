"""C20, concurrent part: ThreadedStorage + Worker under worker schedules enforced from the harness.

The runner (harness/impl/c20_impl.py, kind 'sched') wraps load/save/delete of the disk storage in
gates and uses a queue.Queue subclass that reports when the caller sits in put()/join().  A schedule
is a string over {C, W}: C = let the caller start its next operation and run until it returns or
blocks, W = open the gate of the task the worker holds.  After the string is used up the runner
lets everything finish.  Streams:
  sched-storage   storage-level programs (load/preload/save/delete on the ThreadedStorage)
                  <-> Model/CacheThread.v replayed with the same tokens: outputs, which step blocks
                  where (put / join), which task the worker runs, _loaded/_waiting_for_load at the end,
                  liveness of the worker; oracle: key-value store, 5 s deadline, WorkerDied after a failure
  sched-cache     DictCache-level programs with sub-caches <-> Model/Cache.v (its outputs do not depend on
                  the schedule); oracle: dict per cache, 5 s deadline
"""
import itertools

import common
from common import coq_lit, CoqRaw, Nat, opt

import c20

NK = 3


def gen_storage_prog(rng, n, wellformed=True):
    m = {}
    ops = []
    v = [10]
    for _ in range(n):
        k = rng.randrange(NK)
        r = rng.random()
        have = sorted(m)
        if r < 0.35 or not have:
            v[0] += 1
            ops.append(['s_save', 0, k, v[0]])
            m[k] = v[0]
        elif r < 0.6:
            k = rng.choice(have) if wellformed or rng.random() < 0.7 else k
            ops.append(['s_load', 0, k])
        elif r < 0.85:
            k = rng.choice(have) if wellformed or rng.random() < 0.7 else k
            ops.append(['s_preload', 0, k])
        else:
            k = rng.choice(have) if wellformed or rng.random() < 0.7 else k
            ops.append(['s_delete', 0, k])
            m.pop(k, None)
    return ops


def is_wellformed(ops):
    m = set()
    for op in ops:
        if op[0] == 's_save':
            m.add(op[2])
        elif op[2] not in m:
            return False
        elif op[0] == 's_delete':
            m.discard(op[2])
    return True


def gen_schedule(rng, n):
    style = rng.random()
    L = rng.randint(n, 3 * n + 2)
    if style < 0.2:
        return ['C'] * L                        # lazy worker: it only runs when the caller is stuck
    if style < 0.4:
        return [x for _ in range(L) for x in 'CW'][:2 * L]   # eager worker
    p = rng.choice([0.3, 0.5, 0.7])
    return ['C' if rng.random() < p else 'W' for _ in range(L)]


FIXED_PROGS = [
    [['s_save', 0, 0, 1], ['s_preload', 0, 0], ['s_save', 0, 0, 2], ['s_load', 0, 0]],
    [['s_save', 0, 0, 1], ['s_save', 0, 1, 2], ['s_load', 0, 0], ['s_load', 0, 1]],
    [['s_save', 0, 0, 1], ['s_preload', 0, 0], ['s_delete', 0, 0], ['s_save', 0, 0, 3], ['s_load', 0, 0]],
    [['s_save', 0, 0, 1], ['s_save', 0, 0, 2], ['s_preload', 0, 0], ['s_load', 0, 0], ['s_load', 0, 0]],
]


def storage_oracle(case, r):
    """key-value store semantics for well-formed programs; after an injected failure only WorkerDied /
    AssertionError or the right value.  Returns a problem text or None."""
    ops, out = case['ops'], r['out']
    if len(out) != len(ops):
        return '%d outputs for %d operations' % (len(out), len(ops))
    m = {}
    wf = is_wellformed(ops)
    failing = case.get('fail_task') is not None
    if not wf and not failing:
        return None
    died = False
    written = {}
    for t, (op, o) in enumerate(zip(ops, out)):
        k = op[2]
        want = ['val', m[k]] if op[0] == 's_load' and k in m else ['none']
        if op[0] == 's_save':
            written.setdefault(k, set()).add(op[3])
        if o[0] == 'exc':
            if not failing:
                return 'step %d %r raised %s without any failure of the disk' % (t, op, o[1:])
            if o[1] not in c20.DEATH:
                return 'step %d %r raised %s after a disk failure (expected WorkerDied)' % (t, op, o[1:])
            died = True         # from here on an operation that raised may or may not have taken effect
            continue
        if op[0] == 's_save':
            m[k] = op[3]
        elif op[0] == 's_delete':
            m.pop(k, None)
        if died:
            if o[0] == 'val' and o[1] not in written.get(k, set()):
                return 'step %d %r returned %s, which was never saved under that key' % (t, op, o)
        elif wf and o != want and not (op[0] == 's_load' and want == ['none']):
            return 'step %d %r returned %s, a key-value store gives %s' % (t, op, o, want)
    return None


def coq_storage_case(case, r):
    ops = []
    for op in case['ops']:
        ops.append(CoqRaw({'s_load': '(SLoad %s)', 's_preload': '(SPreload %s)', 's_delete': '(SDelete %s)'}[op[0]] % coq_lit(op[2])
                          if op[0] != 's_save' else '(SSave %s %s)' % (coq_lit(op[2]), coq_lit(op[3]))))
    toks, events = [], []

    def outc(o):
        if o[0] == 'val':
            return [1, o[1]] if isinstance(o[1], int) else [99]
        if o[0] == 'none':
            return [0]
        return [2] if o[1] == 'WorkerDied' else ([3] if o[1] == 'AssertionError' else [98])
    for e in r['trace']:
        toks.append(e[0] == 'C')
        if e[0] == 'C':
            if e[1] == 'done':
                ev = [10] + outc(e[2])
            elif e[1] == 'blocked':
                ev = [11] if e[2] == 'put' else [12]
            elif e[1] == 'still-blocked':
                ev = [13]
            elif e[1] == 'finished':
                ev = [14]
            else:
                ev = [97]
        else:
            if e[1] == 'idle':
                ev = [20]
            elif e[1] == 'ran':
                ev = [21, {'load': 0, 'save': 1, 'delete': 2}[e[2]], e[3]]
                if len(e) > 4:
                    ev += ([30] + outc(e[5])) if e[4] == 'unblocked' else ([31] if e[5] == 'put' else [32])
            else:
                ev = [97]
        events.append(ev)
    ft = case.get('fail_task')
    return coq_lit((Nat(case['max_queue_size']), CoqRaw('(@None nat)') if ft is None else opt(Nat(ft)), ops, toks, events,
                    c20.zlist(r.get('loaded_end', [])), c20.zlist(r.get('waiting_end', [])), bool(r.get('worker_alive_end'))))


def check_storage_cases(ctx, cases):
    results = c20.run_cache_cases(ctx, cases, 6, 'sched-storage', deadline=30)
    coq_cases, meta = [], []
    distinct_traces = set()
    for case, r in zip(cases, results):
        if r is None:
            continue
        replay = {'stream': 'sched-storage', 'case': case, 'impl': r.get('out'), 'trace': r.get('trace')}
        if 'runner_error' in r:
            ctx.fail('correspondence', 'sched runner: ' + r['runner_error'][-500:], replay)
            continue
        blocked = sum(1 for e in r.get('trace', []) if 'blocked' in e or 'unblocked' in e)
        ctx.count('sched-storage', [case['max_queue_size'], case.get('fail_task'), case['ops'], [e[:2] for e in r.get('trace', [])]],
                  nontrivial=blocked > 0, sample={'case': case, 'trace': r.get('trace')})
        distinct_traces.add(repr(r.get('trace')))
        if r.get('hang') or not r.get('done'):
            ctx.fail('oracle', 'sched-storage: deadlock detector: %s' % r.get('hang', 'case did not finish'), replay)
            continue
        bad = storage_oracle(case, r)
        if bad:
            ctx.fail('oracle', 'sched-storage (queue size %d): %s' % (case['max_queue_size'], bad), replay)
        if r.get('final_close') != 'ok' or r.get('worker_alive_after_close') or r.get('leftover'):
            ctx.fail('oracle', 'sched-storage: close() not clean: %s' % {k: r.get(k) for k in ('final_close', 'worker_alive_after_close', 'leftover')}, replay)
        coq_cases.append(coq_storage_case(case, r))
        meta.append(replay)
    bad, err = common.coq_failing_indices('cases_c20_sched', ['Base.Prelude', 'Model.Cache', 'Model.CacheThread'], 'check_sched', coq_cases, shard=800)
    if err:
        ctx.fail('correspondence', 'Model/CacheThread.v evaluation failed: ' + err[-600:], None)
    for b in bad[:5]:
        ctx.fail('correspondence', 'Model/CacheThread.v and ThreadedStorage/Worker disagree under an enforced schedule', meta[b])
    ctx.cov['sched_traces_validated_against_model'] = len(coq_cases)
    ctx.cov['sched_distinct_traces'] = len(distinct_traces)


def stream_sched(ctx, boost):
    import time
    t0 = time.time()
    rng = ctx.rng
    # ------------------------------------------------------------------ storage level, with the model
    cases = []
    for prog in FIXED_PROGS[:ctx.pick(3, 4)]:
        L = ctx.pick(7, 9)
        for q in (1, 2):
            for toks in itertools.product('CW', repeat=L):
                if q == 2 and toks[0] == 'W':
                    continue                    # a leading W is a no-op: seen with q = 1 already
                cases.append({'storage': 'PickleStorage', 'max_queue_size': q, 'schedule': list(toks), 'ops': prog})
    for i in range(ctx.pick(500, 4000) * boost):
        n = rng.randint(2, ctx.pick(8, 16))
        prog = gen_storage_prog(rng, n, wellformed=rng.random() < 0.8)
        c = {'storage': 'PickleStorage', 'max_queue_size': rng.choice([1, 1, 2, 2, 3, 0]), 'schedule': gen_schedule(rng, n), 'ops': prog}
        if rng.random() < 0.2:
            c['fail_task'] = rng.randint(0, max(0, n // 2))
        cases.append(c)
    check_storage_cases(ctx, cases)
    t1 = time.time()
    # ------------------------------------------------------------------ DictCache level, oracle only
    cases = []
    for i in range(ctx.pick(300, 2000) * boost):
        n = rng.randint(3, ctx.pick(10, 25))
        ops = c20.gen_cache_ops(rng, n, threaded=True, close=False)
        ops = [o for o in ops if o[0] != 'bool']
        c = {'storage': 'PickleStorage', 'threading': True, 'max_queue_size': rng.choice([1, 2, 2, 3]),
             'schedule': gen_schedule(rng, len(ops)), 'ops': ops}
        if rng.random() < 0.15:
            c['fail_task'] = rng.randint(0, 3)
            c['fail'] = True
        cases.append(c)
    results = c20.run_cache_cases(ctx, cases, 6, 'sched-cache', deadline=30)
    coq_cases, coq_meta = [], []
    c20.judge_cache_cases(ctx, cases, results, 'sched-cache', coq_cases, coq_meta)
    c20.model_on_cache_cases(ctx, coq_cases, coq_meta, name='cases_c20_schedcache')   # Model/Cache.v: outputs do not depend on the schedule
    ctx.cov.setdefault('wall_breakdown_s', {}).update({'sched-storage': round(t1 - t0), 'sched-cache': round(time.time() - t1)})
