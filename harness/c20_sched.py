"""C20, concurrent part: ThreadedStorage + Worker under worker schedules enforced from the harness.

The runner (harness/impl/c20_impl.py, kind 'sched') wraps load/save/delete of the disk storage in
gates and uses a queue.Queue subclass that reports when the caller sits in put()/join().  A schedule
is a string over {C, W}: C = let the caller start its next operation and run until it returns or
blocks, W = open the gate of the task the worker holds.  After the string is used up the runner
lets everything finish.  Streams:
  sched-storage   storage-level programs (load/preload/save/delete on the ThreadedStorage)
                  <-> Model/CacheThread.v replayed with the same tokens: outputs, which step blocks
                  where (put / join), which task the worker runs, _loaded/_waiting_for_load at the end,
                  liveness of the worker; oracle: key-value store, 5 s deadline, WorkerDied after a failure
  sched-cache     DictCache-level programs with sub-caches <-> Model/Cache.v (its outputs do not depend on
                  the schedule); oracle: dict per cache, 5 s deadline
  sched-close     storage-level programs that contain close() / __exit__ calls (operations after close, a second
                  close, close while the worker holds a task and more tasks are queued) <-> `cl_run` of
                  Model/CacheClose.v through Model/CacheCloseCheck.v `check_cl_run`: every event of the enforced
                  schedule (what each operation / close returned or where it blocks - put / join / the thread join of
                  close -, which task the worker ran, i.e. which queued tasks were dropped), and at the end
                  _loaded / _waiting_for_load, worker liveness, Worker.exit, _opened of both storages, the files on disk.
                  oracle: no hang, first close fine, later ones ValueError, nothing returns a value after close, worker
                  gone and directory removed after close, key-value store before it
"""
import itertools

import common
from common import coq_lit, CoqRaw, Nat, opt

import c20

NK = 3


def gen_storage_prog(rng, n, wellformed=True):
    m = {}
    ops = []
    v = [10]
    for _ in range(n):
        k = rng.randrange(NK)
        r = rng.random()
        have = sorted(m)
        if r < 0.35 or not have:
            v[0] += 1
            val = 6000 if rng.random() < 0.1 else v[0]      # code 6000: the integer 0 (false in a boolean context)
            ops.append(['s_save', 0, k, val])
            m[k] = val
        elif r < 0.6:
            k = rng.choice(have) if wellformed or rng.random() < 0.7 else k
            ops.append(['s_load', 0, k])
        elif r < 0.85:
            k = rng.choice(have) if wellformed or rng.random() < 0.7 else k
            ops.append(['s_preload', 0, k])
        else:
            k = rng.choice(have) if wellformed or rng.random() < 0.7 else k
            ops.append(['s_delete', 0, k])
            m.pop(k, None)
    return ops


def is_wellformed(ops):
    m = set()
    for op in ops:
        if op[0] == 's_save':
            m.add(op[2])
        elif op[2] not in m:
            return False
        elif op[0] == 's_delete':
            m.discard(op[2])
    return True


def gen_schedule(rng, n):
    style = rng.random()
    L = rng.randint(n, 3 * n + 2)
    if style < 0.2:
        return ['C'] * L                        # lazy worker: it only runs when the caller is stuck
    if style < 0.4:
        return [x for _ in range(L) for x in 'CW'][:2 * L]   # eager worker
    p = rng.choice([0.3, 0.5, 0.7])
    return ['C' if rng.random() < p else 'W' for _ in range(L)]


FIXED_PROGS = [
    [['s_save', 0, 0, 1], ['s_preload', 0, 0], ['s_save', 0, 0, 2], ['s_load', 0, 0]],
    [['s_save', 0, 0, 1], ['s_save', 0, 1, 2], ['s_load', 0, 0], ['s_load', 0, 1]],
    [['s_save', 0, 0, 1], ['s_preload', 0, 0], ['s_delete', 0, 0], ['s_save', 0, 0, 3], ['s_load', 0, 0]],
    [['s_save', 0, 0, 1], ['s_save', 0, 0, 2], ['s_preload', 0, 0], ['s_load', 0, 0], ['s_load', 0, 0]],
]


def storage_oracle(case, r):
    """key-value store semantics for well-formed programs; after an injected failure only WorkerDied /
    AssertionError or the right value.  Returns a problem text or None."""
    ops, out = case['ops'], r['out']
    if len(out) != len(ops):
        return '%d outputs for %d operations' % (len(out), len(ops))
    m = {}
    wf = is_wellformed(ops)
    failing = case.get('fail_task') is not None
    if not wf and not failing:
        return None
    died = False
    written = {}
    for t, (op, o) in enumerate(zip(ops, out)):
        k = op[2]
        want = ['val', m[k]] if op[0] == 's_load' and k in m else ['none']
        if op[0] == 's_save':
            written.setdefault(k, set()).add(op[3])
        if o[0] == 'exc':
            if not failing:
                return 'step %d %r raised %s without any failure of the disk' % (t, op, o[1:])
            if o[1] not in c20.DEATH:
                return 'step %d %r raised %s after a disk failure (expected WorkerDied)' % (t, op, o[1:])
            died = True         # from here on an operation that raised may or may not have taken effect
            continue
        if op[0] == 's_save':
            m[k] = op[3]
        elif op[0] == 's_delete':
            m.pop(k, None)
        if died:
            if o[0] == 'val' and o[1] not in written.get(k, set()):
                return 'step %d %r returned %s, which was never saved under that key' % (t, op, o)
        elif wf and o != want and not (op[0] == 's_load' and want == ['none']):
            return 'step %d %r returned %s, a key-value store gives %s' % (t, op, o, want)
    return None


def coq_storage_case(case, r):
    ops = []
    for op in case['ops']:
        ops.append(CoqRaw({'s_load': '(SLoad %s)', 's_preload': '(SPreload %s)', 's_delete': '(SDelete %s)'}[op[0]] % coq_lit(op[2])
                          if op[0] != 's_save' else '(SSave %s %s)' % (coq_lit(op[2]), coq_lit(op[3]))))
    toks, events = [], []

    def outc(o):
        if o[0] == 'val':
            return [1, o[1]] if isinstance(o[1], int) else [99]
        if o[0] == 'none':
            return [0]
        return [2] if o[1] == 'WorkerDied' else ([3] if o[1] == 'AssertionError' else [98])
    for e in r['trace']:
        toks.append(e[0] == 'C')
        if e[0] == 'C':
            if e[1] == 'done':
                ev = [10] + outc(e[2])
            elif e[1] == 'blocked':
                ev = [11] if e[2] == 'put' else [12]
            elif e[1] == 'still-blocked':
                ev = [13]
            elif e[1] == 'finished':
                ev = [14]
            else:
                ev = [97]
        else:
            if e[1] == 'idle':
                ev = [20]
            elif e[1] == 'ran':
                ev = [21, {'load': 0, 'save': 1, 'delete': 2}[e[2]], e[3]]
                if len(e) > 4:
                    ev += ([30] + outc(e[5])) if e[4] == 'unblocked' else ([31] if e[5] == 'put' else [32])
            else:
                ev = [97]
        events.append(ev)
    ft = case.get('fail_task')
    return coq_lit((Nat(case['max_queue_size']), CoqRaw('(@None nat)') if ft is None else opt(Nat(ft)), ops, toks, events,
                    c20.zlist(r.get('loaded_end', [])), c20.zlist(r.get('waiting_end', [])), bool(r.get('worker_alive_end'))))


def check_storage_cases(ctx, cases):
    results = c20.run_cache_cases(ctx, cases, 6, 'sched-storage', deadline=30)
    coq_cases, meta = [], []
    distinct_traces = set()
    for case, r in zip(cases, results):
        if r is None:
            continue
        replay = {'stream': 'sched-storage', 'case': case, 'impl': r.get('out'), 'trace': r.get('trace')}
        if 'runner_error' in r:
            ctx.fail('correspondence', 'sched runner: ' + r['runner_error'][-500:], replay)
            continue
        blocked = sum(1 for e in r.get('trace', []) if 'blocked' in e or 'unblocked' in e)
        ctx.count('sched-storage', [case['max_queue_size'], case.get('fail_task'), case['ops'], [e[:2] for e in r.get('trace', [])]],
                  nontrivial=blocked > 0, sample={'case': case, 'trace': r.get('trace')})
        distinct_traces.add(repr(r.get('trace')))
        if r.get('hang') or not r.get('done'):
            ctx.fail('oracle', 'sched-storage: deadlock detector: %s' % r.get('hang', 'case did not finish'), replay)
            continue
        bad = storage_oracle(case, r)
        if bad:
            ctx.fail('oracle', 'sched-storage (queue size %d): %s' % (case['max_queue_size'], bad), replay)
        if r.get('final_close') != 'ok' or r.get('worker_alive_after_close') or r.get('leftover'):
            ctx.fail('oracle', 'sched-storage: close() not clean: %s' % {k: r.get(k) for k in ('final_close', 'worker_alive_after_close', 'leftover')}, replay)
        coq_cases.append(coq_storage_case(case, r))
        meta.append(replay)
    bad, err = common.coq_failing_indices('cases_c20_sched', ['Base.Prelude', 'Model.Cache', 'Model.CacheThread'], 'check_sched', coq_cases, shard=800)
    if err:
        ctx.fail('correspondence', 'Model/CacheThread.v evaluation failed: ' + err[-600:], None)
    for b in bad[:5]:
        ctx.fail('correspondence', 'Model/CacheThread.v and ThreadedStorage/Worker disagree under an enforced schedule', meta[b])
    ctx.cov['sched_traces_validated_against_model'] = len(coq_cases)
    ctx.cov['sched_distinct_traces'] = len(distinct_traces)


def stream_sched(ctx, boost):
    import time
    t0 = time.time()
    rng = ctx.rng
    # ------------------------------------------------------------------ storage level, with the model
    cases = []
    for prog in FIXED_PROGS[:ctx.pick(3, 4)]:
        L = ctx.pick(7, 9)
        for q in (1, 2):
            for toks in itertools.product('CW', repeat=L):
                if q == 2 and toks[0] == 'W':
                    continue                    # a leading W is a no-op: seen with q = 1 already
                cases.append({'storage': 'PickleStorage', 'max_queue_size': q, 'schedule': list(toks), 'ops': prog})
    for i in range(ctx.pick(500, 4000) * boost):
        n = rng.randint(2, ctx.pick(8, 16))
        prog = gen_storage_prog(rng, n, wellformed=rng.random() < 0.8)
        c = {'storage': 'PickleStorage', 'max_queue_size': rng.choice([1, 1, 2, 2, 3, 0]), 'schedule': gen_schedule(rng, n), 'ops': prog}
        if rng.random() < 0.2:
            c['fail_task'] = rng.randint(0, max(0, n // 2))
        cases.append(c)
    check_storage_cases(ctx, cases)
    t1 = time.time()
    # ------------------------------------------------------------------ DictCache level, oracle only
    cases = []
    for i in range(ctx.pick(300, 2000) * boost):
        n = rng.randint(3, ctx.pick(10, 25))
        ops = c20.gen_cache_ops(rng, n, threaded=True, close=False)
        ops = [o for o in ops if o[0] != 'bool']
        c = {'storage': 'PickleStorage', 'threading': True, 'max_queue_size': rng.choice([1, 2, 2, 3]),
             'schedule': gen_schedule(rng, len(ops)), 'ops': ops}
        if rng.random() < 0.15:
            c['fail_task'] = rng.randint(0, 3)
            c['fail'] = True
        cases.append(c)
    results = c20.run_cache_cases(ctx, cases, 6, 'sched-cache', deadline=30)
    coq_cases, coq_meta = [], []
    c20.judge_cache_cases(ctx, cases, results, 'sched-cache', coq_cases, coq_meta)
    c20.model_on_cache_cases(ctx, coq_cases, coq_meta, name='cases_c20_schedcache')   # Model/Cache.v: outputs do not depend on the schedule
    ctx.cov.setdefault('wall_breakdown_s', {}).update({'sched-storage': round(t1 - t0), 'sched-cache': round(time.time() - t1)})


# ==========================================================================================
# close() under enforced schedules  <->  Model/CacheClose.v (cl_run)
# ==========================================================================================

CLOSE_KINDS = ('close', 's_close', 'exit')


def zpairs(l):
    return CoqRaw('(@nil (Z * Z))') if not l else CoqRaw(coq_lit([tuple(x) for x in l]))


CLOSE_FIXED = [
    # close with one task at the gate and one queued, operations after close, second close
    ([['s_save', 0, 0, 1], ['s_save', 0, 1, 2], ['close', 0], ['s_load', 0, 0], ['s_preload', 0, 0], ['close', 0]], 2, 6),
    # preloaded value in _loaded / _waiting_for_load at close; save of a waiting key after close
    ([['s_save', 0, 0, 1], ['s_preload', 0, 0], ['s_close', 0], ['s_load', 0, 0], ['s_save', 0, 0, 5], ['s_delete', 0, 0]], 1, 6),
]


def gen_close_prog(rng):
    """a storage program with close() calls: well-formed prefix, close, anything afterwards"""
    n1 = rng.randint(0, 5)
    pre = gen_storage_prog(rng, n1, wellformed=rng.random() < 0.85) if n1 else []
    ops = list(pre)
    r = rng.random()
    nclose = 0 if r < 0.06 else (1 if r < 0.45 else (2 if r < 0.9 else 3))
    v = 50
    for c in range(nclose):
        ops.append([rng.choice(CLOSE_KINDS), 0])
        for _ in range(rng.randint(0, 3)):
            k = rng.randrange(NK)
            kind = rng.choice(['s_load', 's_load', 's_preload', 's_preload', 's_save', 's_delete'])
            v += 1
            ops.append([kind, 0, k] + ([v] if kind == 's_save' else []))
    return ops


def close_oracle(case, r):
    """written from the documentation: close() returns, a later close() raises ValueError, after close() nothing
    returns data, the worker is gone and the temporary directory removed; before close(): key-value store."""
    ops, out = case['ops'], r['out']
    if len(out) != len(ops):
        return '%d outputs for %d operations' % (len(out), len(ops))
    first = next((i for i, op in enumerate(ops) if op[0] in CLOSE_KINDS), None)
    if first is None:
        return storage_oracle(case, r)
    bad = storage_oracle(dict(case, ops=ops[:first]), dict(r, out=out[:first]))
    if bad:
        return bad
    for t in range(first, len(ops)):
        op, o = ops[t], out[t]
        if op[0] in CLOSE_KINDS:
            if t == first and o != ['none']:
                return 'step %d: the first close() gave %s' % (t, o)
            if t > first and not (o[0] == 'exc' and o[1] == 'ValueError'):
                return 'step %d: close() of a closed storage gave %s instead of ValueError' % (t, o)
        elif o[0] == 'val':
            return 'step %d %r returned %s after close()' % (t, op, o)
        elif o[0] == 'exc' and o[1] not in ('WorkerDied', 'ValueError'):
            return 'step %d %r raised %s after close()' % (t, op, o[1:])
    if r.get('worker_alive_end'):
        return 'worker thread alive after close()'
    if r.get('dir_exists_end') or r.get('disk_end'):
        return 'close() left the directory / files behind: %s' % r.get('disk_end')
    if r.get('opened_end') or r.get('disk_opened_end'):
        return 'storage still open after close(): %s' % {k: r.get(k) for k in ('opened_end', 'disk_opened_end')}
    if r.get('loaded_end'):
        return '_loaded not empty after close(): %s' % r.get('loaded_end')
    return None


def coq_close_case(case, r):
    ops = []
    for op in case['ops']:
        if op[0] in CLOSE_KINDS:
            ops.append(CoqRaw('CClose'))
        elif op[0] == 's_save':
            ops.append(CoqRaw('(COp (SSave %s %s))' % (coq_lit(op[2]), coq_lit(op[3]))))
        else:
            ops.append(CoqRaw('(COp (%s %s))' % ({'s_load': 'SLoad', 's_preload': 'SPreload', 's_delete': 'SDelete'}[op[0]], coq_lit(op[2]))))

    def outc(o):
        if o[0] == 'val':
            return [1, o[1]] if isinstance(o[1], int) else [99]
        if o[0] == 'none':
            return [0]
        return [2] if o[1] == 'WorkerDied' else ([3] if o[1] == 'AssertionError' else [98])

    def closec(o):
        return 0 if o == ['none'] else (1 if o[0] == 'exc' and o[1] == 'ValueError' else 98)
    toks, events = [], []
    nout = [0]      # outputs seen so far = index of the operation the caller is in

    def finished(o):
        op = case['ops'][nout[0]] if nout[0] < len(case['ops']) else ['?']
        nout[0] += 1
        return op[0] in CLOSE_KINDS
    for e in r['trace']:
        toks.append(e[0] == 'C')
        if e[0] == 'C':
            if e[1] == 'done':
                ev = [15, closec(e[2])] if finished(e[2]) else [10] + outc(e[2])
            elif e[1] == 'blocked':
                ev = {'put': [11], 'join': [12], 'close': [16]}.get(e[2], [96])
            elif e[1] == 'still-blocked':
                ev = [13]
            elif e[1] == 'finished':
                ev = [14]
            else:
                ev = [97]
        else:
            if e[1] == 'idle':
                ev = [20]
            elif e[1] == 'ran':
                ev = [21, {'load': 0, 'save': 1, 'delete': 2}[e[2]], e[3]]
                if len(e) > 4:
                    if e[4] == 'unblocked':
                        ev += [35, closec(e[5])] if finished(e[5]) else [30] + outc(e[5])
                    else:
                        ev += {'put': [31], 'join': [32], 'close': [36]}.get(e[5], [96])
            else:
                ev = [97]
        events.append(ev)
    ft = case.get('fail_task')
    op_outs = [outc(o) for op, o in zip(case['ops'], r['out']) if op[0] not in CLOSE_KINDS]
    close_outs = [closec(o) for op, o in zip(case['ops'], r['out']) if op[0] in CLOSE_KINDS]
    disk = [(a, b) if isinstance(a, int) and isinstance(b, int) else (-1, -1) for a, b in r.get('disk_end', [])]
    return coq_lit((Nat(case['max_queue_size']), CoqRaw('(@None nat)') if ft is None else opt(Nat(ft)), ops, toks, events,
                    c20.zlist(r.get('loaded_end', [])), c20.zlist(r.get('waiting_end', [])), bool(r.get('worker_alive_end')),
                    zpairs(disk), bool(r.get('opened_end')), bool(r.get('disk_opened_end')), bool(r.get('exit_set_end')),
                    CoqRaw(coq_lit(op_outs) if op_outs else '(@nil (list Z))'),
                    c20.zlist(close_outs)))


def check_close_cases(ctx, cases):
    results = c20.run_cache_cases(ctx, cases, 6, 'sched-close', deadline=30)
    coq_cases, meta = [], []
    for case, r in zip(cases, results):
        if r is None:
            continue
        replay = {'stream': 'sched-close', 'case': case, 'impl': r.get('out'), 'trace': r.get('trace')}
        if 'runner_error' in r:
            ctx.fail('correspondence', 'sched-close runner: ' + r['runner_error'][-500:], replay)
            continue
        ops = case['ops']
        nclose = sum(1 for o in ops if o[0] in CLOSE_KINDS)
        blocked_close = any('close' in e[2:] for e in r.get('trace', []))
        ctx.count('sched-close', [case['max_queue_size'], case.get('fail_task'), ops, [e[:2] for e in r.get('trace', [])]],
                  nontrivial=nclose > 0 and len(ops) > nclose, sample={'case': case, 'trace': r.get('trace')})
        ctx.cov['sched_close_blocked_in_close'] = ctx.cov.get('sched_close_blocked_in_close', 0) + int(blocked_close)
        if r.get('hang') or not r.get('done'):
            ctx.fail('oracle', 'sched-close: deadlock detector: %s' % r.get('hang', 'case did not finish'), replay)
            continue
        bad = close_oracle(case, r)
        if bad:
            ctx.fail('oracle', 'sched-close (queue size %d): %s' % (case['max_queue_size'], bad), replay)
        want_final = 'ValueError' if nclose else 'ok'
        if r.get('final_close') != want_final or r.get('worker_alive_after_close') or r.get('leftover'):
            ctx.fail('oracle', 'sched-close: final close() not as documented (expected %s): %s' % (
                want_final, {k: r.get(k) for k in ('final_close', 'worker_alive_after_close', 'leftover')}), replay)
        coq_cases.append(coq_close_case(case, r))
        meta.append(replay)
    bad, err = common.coq_failing_indices('cases_c20_close', ['Base.Prelude', 'Model.Cache', 'Model.CacheThread', 'Model.CacheClose',
                                                              'Model.CacheCloseCheck'], 'check_cl_run', coq_cases, shard=400)
    if err:
        ctx.fail('correspondence', 'Model/CacheCloseCheck.v evaluation failed: ' + err[-600:], None)
    for b in bad[:5]:
        ctx.fail('correspondence', 'Model/CacheClose.v (cl_run) and ThreadedStorage.close / Worker.__exit__ disagree under an enforced schedule', meta[b])
    ctx.cov['sched_close_traces_validated_against_model'] = ctx.cov.get('sched_close_traces_validated_against_model', 0) + len(coq_cases)
    return coq_cases


def stream_sched_close(ctx, boost):
    import time
    t0 = time.time()
    rng = ctx.rng
    cases = []
    for prog, q, L in CLOSE_FIXED:
        for toks in itertools.product('CW', repeat=L):
            if toks[0] == 'W' and toks[1] == 'W':
                continue                        # leading W's are no-ops
            cases.append({'storage': 'PickleStorage', 'max_queue_size': q, 'schedule': list(toks), 'ops': prog})
    nrand = (300 - len(cases)) if boost == 1 and ctx.tier == 'quick' else ctx.pick(200, 1500) * boost
    for i in range(nrand):
        prog = gen_close_prog(rng)
        c = {'storage': 'PickleStorage', 'max_queue_size': rng.choice([1, 1, 2, 2, 3, 0]),
             'schedule': gen_schedule(rng, len(prog)), 'ops': prog}
        if rng.random() < 0.2:
            c['fail_task'] = rng.randint(0, 2)
        cases.append(c)
    check_close_cases(ctx, cases)
    ctx.cov.setdefault('wall_breakdown_s', {}).update({'sched-close': round(time.time() - t0)})


# ==========================================================================================
# file-backed storage with sub-containers  <->  Model/CacheFile.v (fs_run)
# ==========================================================================================

FS_CLOSE = ('close', 'exit', 'with')     # Storage.close(), Storage.__exit__, `with storage:`


def gen_fs_prog(rng, n, storage='PickleStorage'):
    """operations on a tree of containers; closed containers stay addressable.  Not generated: close() of an open
    container with a separately closed descendant (see the header of coq/Model/CacheFile.v); for the in-memory
    Storage: delete of a key that is not stored (`del self.data[key]`: KeyError, DictCache never does it) and a
    second subcontainer of the same name (Storage.subcontainer ignores the name)."""
    opened = {(): True}
    order = [()]
    have = {(): set()}
    ops = []
    v = 10
    for _ in range(n):
        p = rng.choice(order)
        r = rng.random()
        k = rng.randrange(3)
        if r < 0.25:
            v += 1
            ops.append(['save', list(p), k, v + (1000 * rng.randint(1, 5) if rng.random() < 0.2 else 0)])
            if opened[p]:
                have[p].add(k)
        elif r < 0.43:
            ops.append(['load', list(p), k])
        elif r < 0.53:
            if storage == 'Storage' and opened[p] and k not in have[p]:
                continue
            ops.append(['delete', list(p), k])
            if opened[p]:
                have[p].discard(k)
        elif r < 0.59:
            ops.append(['preload', list(p), k])
        elif r < 0.64:
            ops.append([rng.choice(['bool', 'repr']), list(p)])
        elif r < 0.85 and len(p) < 3:
            nm = rng.randrange(2)
            q = p + (nm,)
            if storage == 'Storage' and q in opened:
                continue
            ops.append(['sub', list(p), nm])
            if opened[p] and q not in opened:
                opened[q] = True
                have[q] = set()
                order.append(q)
        else:
            if opened[p] and any(not o for q, o in opened.items() if len(q) > len(p) and q[:len(p)] == p):
                continue
            ops.append([rng.choice(FS_CLOSE) if rng.random() < 0.4 else 'close', list(p)])
            if opened[p]:
                for q in opened:
                    if q[:len(p)] == p:
                        opened[q] = False
    return ops


def fs_oracle(case, r):
    """dict per container, written from the documentation: a closed container refuses everything with ValueError,
    closing a container closes everything below it, the top container removes the directory"""
    d, opened = {(): {}}, {(): True}
    pickle_ = case['storage'] == 'PickleStorage'
    for t, (op, o) in enumerate(zip(case['ops'], r['out'])):
        p = tuple(op[1])
        if op[0] == 'bool':
            want = ['bool', opened[p]]
        elif op[0] == 'repr':           # mentions the class, says "closed" exactly when closed
            want = ['repr', not opened[p], True]
        elif not opened[p]:
            want = ['exc', 'ValueError']
        elif op[0] == 'save':
            d[p][op[2]] = op[3]
            want = ['none']
        elif op[0] == 'load':
            want = ['val', d[p][op[2]]] if op[2] in d[p] else ['exc', 'FileNotFoundError' if pickle_ else 'KeyError']
        elif op[0] == 'delete':
            d[p].pop(op[2], None)
            want = ['none']
        elif op[0] == 'preload':
            want = ['none']
        elif op[0] == 'sub':
            q = p + (op[2],)
            if q in d:
                want = ['exc', 'ValueError']        # (never generated for the in-memory Storage)
            else:
                d[q], opened[q] = {}, True
                want = ['none']
        else:
            for q in opened:
                if q[:len(p)] == p:
                    opened[q] = False
            want = ['none']
        if o[:len(want)] != want:
            return 'step %d %r gave %s, expected %s' % (t, op, o[:2], want)
    for path, op_, files in r.get('final', []):
        if op_ != opened[tuple(path)]:
            return 'container %s: _opened = %s at the end, expected %s' % (path, op_, opened[tuple(path)])
        if not opened[()] and files:
            return 'files left after the top container was closed: %s' % files
        if not pickle_ and not op_:
            continue        # in memory a closed sub-container drops its dict; a closed HDF5 group is not read
        if opened[()] and dict((a, b) for a, b in files) != d[tuple(path)]:
            return 'container %s holds %s on disk, a dict gives %s' % (path, files, d[tuple(path)])
    # the runner's own final close() of the top container: fine when nothing was closed before; when the top container
    # was closed by the program, ValueError and nothing left.  (When only a sub-container was closed separately the
    # ValueError of that sub-container surfaces from the parent's close() and the directory stays - Storage-level use
    # that the cache layer cannot produce, not modelled and not judged here.)
    if all(opened.values()) and (r.get('final_close') != 'ok' or r.get('leftover')):
        return 'final close() gave %s and left %s behind' % (r.get('final_close'), r.get('leftover'))
    if not opened[()] and (r.get('final_close') != 'ValueError' or r.get('leftover')):
        return 'close() of the closed top container gave %s, left behind: %s' % (r.get('final_close'), r.get('leftover'))
    if r.get('open_fds') and (all(opened.values()) or not opened[()]):
        return 'file descriptors still open below the cache directory after close(): %s' % r['open_fds'][:3]
    return None


def coq_fs_case(case, r):
    ops = []
    for op in case['ops']:
        if op[0] in ('bool', 'repr'):
            continue            # no effect on the containers: judged by the oracle only
        p = c20.zlist(op[1])
        name = {'load': 'FLoad', 'save': 'FSave', 'delete': 'FDelete', 'preload': 'FPreload', 'sub': 'FSub', 'close': 'FClose',
                'exit': 'FClose', 'with': 'FClose'}[op[0]]
        ops.append(CoqRaw('(%s %s%s)' % (name, p, ''.join(' ' + coq_lit(x) for x in op[2:]))))
    outs = []
    for op, o in zip(case['ops'], r['out']):
        if op[0] in ('bool', 'repr'):
            continue
        if o[0] == 'none':
            outs.append([0])
        elif o[0] == 'val':
            outs.append([1, o[1]] if isinstance(o[1], int) else [99])
        else:
            outs.append([2] if o[1] == 'ValueError' else ([3] if o[1] == 'FileNotFoundError' else [98]))
    final = [CoqRaw('(%s, %s, %s)' % (c20.zlist(p), coq_lit(bool(o)), zpairs(f))) for p, o, f in r['final']]
    return coq_lit((ops, CoqRaw(coq_lit(outs) if outs else '(@nil (list Z))'), final))


def check_fs_cases(ctx, cases):
    nproc = min(4, max(1, len(cases) // 50))
    chunks = [cases[i::nproc] for i in range(nproc)]
    res = common.run_impl_parallel('c20_impl.py', [{'kind': 'fstore', 'cases': ch} for ch in chunks],
                                   extra_env={'C20_TMP': common.scratch()}, timeout=600)
    results = [None] * len(cases)
    for i, (r, err) in enumerate(res):
        if err:
            ctx.fail('correspondence', 'file-storage runner failed: %s' % err[-500:], None)
            continue
        c20.c20_cover.absorb('file-storage', r)
        for j, x in enumerate(r):
            results[i + j * nproc] = x
    coq_cases, meta = [], []
    for case, r in zip(cases, results):
        if r is None:
            continue
        replay = {'stream': 'file-storage', 'case': case, 'impl': r.get('out'), 'final': r.get('final')}
        if 'runner_error' in r or not r.get('done'):
            ctx.fail('correspondence', 'file-storage runner: ' + str(r.get('runner_error'))[-500:], replay)
            continue
        kinds = set(o[0] for o in case['ops'])
        ctx.count('file-storage', case, nontrivial={'sub', 'close', 'save'} <= kinds, sample={'case': case, 'out': r.get('out')})
        bad = fs_oracle(case, r)
        if bad:
            ctx.fail('oracle', 'file-storage (%s): %s' % (case['storage'], bad), replay)
        if case['storage'] == 'PickleStorage':      # Model/CacheFile.v is tied to PickleStorage; the others: oracle only
            coq_cases.append(coq_fs_case(case, r))
            meta.append(replay)
    bad, err = common.coq_failing_indices('cases_c20_fs', ['Base.Prelude', 'Model.Cache', 'Model.CacheFile', 'Model.CacheFileCheck'],
                                          'check_fs', coq_cases, shard=400)
    if err:
        ctx.fail('correspondence', 'Model/CacheFileCheck.v evaluation failed: ' + err[-600:], None)
    for b in bad[:5]:
        ctx.fail('correspondence', 'Model/CacheFile.v (fs_run) and PickleStorage (sub-containers, close) disagree', meta[b])
    ctx.cov['file_storage_traces_validated_against_model'] = ctx.cov.get('file_storage_traces_validated_against_model', 0) + len(coq_cases)


def stream_file_storage(ctx, boost):
    import time
    t0 = time.time()
    rng = ctx.rng
    cases = [{'storage': 'PickleStorage', 'ops': gen_fs_prog(rng, rng.randint(3, ctx.pick(14, 30)))}
             for _ in range(ctx.pick(250, 1500) * boost)]
    for st in ('Storage', 'Hdf5Storage'):       # the same programs on the other storage classes (dict oracle)
        cases += [{'storage': st, 'ops': gen_fs_prog(rng, rng.randint(3, ctx.pick(14, 30)), st)}
                  for _ in range(ctx.pick(80, 500) * boost)]
    check_fs_cases(ctx, cases)
    ctx.cov.setdefault('wall_breakdown_s', {}).update({'file-storage': round(time.time() - t0)})
