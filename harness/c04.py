"""C04 - compiled and pure-Python tensor kernels are observationally equivalent.

proof gate (coq/Props/C04.v: kernel_cy = kernel_py for the kernels whose algorithms differ)
+ correspondence  Model/KernelsPyCy.v  <->  BOTH configurations on generated kernel arguments (vm_compute)
+ differential runs of identical serialised programs / helper calls / tiny algorithm runs in the two
  configurations (py: TENPY_NO_CYTHON=1 from the current tree; cy: extension rebuilt from the current .pyx)
+ a dense numpy oracle that says which side is wrong.
Hidden aliasing is an observable too (a sum that shares a block with its operand is right by value until a LATER in-place
operation): after every step both configurations record which pairs of live tensors share block memory and which other live
tensors changed; both relations are diffed (pairs inside a documented shallow-copy class excepted), and the stream
'inplace-chains' continues binary operations on operands of different block sparsity with in-place operations.
"""
import json
import os

import common
from common import coq_lit, Nat
import c04_gen
import c04_audit

TOL64 = 1e-11
TOL32 = 2e-5
ADD_OPS = ('add', 'sub', 'iadd', 'isub', 'iadd_prefactor_other')
SCALE_OPS = ('scale', 'rscale', 'div', 'iscale', 'iscale_prefactor', 'idiv')


# ------------------------------------------------------------------------------------------------
# comparison of two observations
# ------------------------------------------------------------------------------------------------

def cplx_flat(v):
    """value list of a block / scalar as (re, im) pairs (real data: im = 0)"""
    return [[x[0], x[1]] if isinstance(x, list) else [x, 0.0] for x in v]


INF = float('inf')


def cplx_same(xs, ys, tol):
    """lists of (re, im) pairs (cplx_flat): equal up to tolerance; a number with a NaN component is NaN as a whole (np.isnan), so
    (nan, 0) and (nan, nan) -- real * nan versus complex * nan, both IEEE-correct -- are the same non-finite value"""
    if len(xs) != len(ys):
        return False
    for (a, b), (c, d) in zip(xs, ys):
        na, nc = (a != a or b != b), (c != c or d != d)
        if na or nc:
            if na != nc:
                return False
            continue
        if not (num_same(a, c, tol) and num_same(b, d, tol)):
            return False
    return True


def num_same(x, y, tol):
    if isinstance(x, list) and isinstance(y, list):
        return len(x) == len(y) and all(num_same(a, b, tol) for a, b in zip(x, y))
    if isinstance(x, (int, float)) and isinstance(y, (int, float)):
        if x != x or y != y:
            return (x != x) == (y != y)
        if x in (INF, -INF) or y in (INF, -INF):       # (inf <= tol * inf would accept any pair)
            return x == y
        return abs(x - y) <= tol * (1 + abs(x) + abs(y))
    return x == y


def obs_diff(a, b, path=''):
    """list of paths where two observations differ (numbers with tolerance)"""
    if isinstance(a, dict) and isinstance(b, dict):
        if a.get('k') == 'arr' and b.get('k') == 'arr':
            out = []
            tol = TOL32 if any(s in (a['dtype'], b['dtype']) for s in ('float32', 'complex64')) else TOL64
            for k in sorted(set(a) | set(b)):
                if k == 'blocks':
                    ba, bb = a['blocks'], b['blocks']
                    if [x[0] for x in ba] != [x[0] for x in bb]:
                        out.append(path + '/block-structure')
                    elif [x[1] for x in ba] != [x[1] for x in bb]:
                        out.append(path + '/block-shapes')
                    else:
                        if not all(cplx_same(cplx_flat(x[2]), cplx_flat(y[2]), tol) for x, y in zip(ba, bb)):
                            out.append(path + '/block-values')
                        if [x[3] for x in ba] != [x[3] for x in bb]:
                            out.append(path + '/block-dtypes')
                elif a.get(k) != b.get(k):
                    if k == 'legs':
                        out.extend(obs_diff(a[k], b[k], path + '/legs'))
                    else:
                        out.append(path + '/' + k)
            return out
        if a.get('k') == 'scalar' and b.get('k') == 'scalar':
            out = []
            tol = TOL32 if any(s in (a['dtype'], b['dtype']) for s in ('float32', 'complex64')) else TOL64
            if a['dtype'] != b['dtype']:
                out.append(path + '/dtype')
            if a['shape'] != b['shape'] or not cplx_same(cplx_flat(a['v']), cplx_flat(b['v']), tol):
                out.append(path + '/value')
            return out
        out = []
        for k in sorted(set(a) | set(b)):
            if k not in a or k not in b:
                out.append(path + '/' + k)
            else:
                out.extend(obs_diff(a[k], b[k], path + '/' + k))
        return out
    if isinstance(a, list) and isinstance(b, list):
        if len(a) != len(b):
            return [path + '/len']
        out = []
        for i, (x, y) in enumerate(zip(a, b)):
            out.extend(obs_diff(x, y, '%s[%d]' % (path, i)))
        return out
    if isinstance(a, float) or isinstance(b, float):
        return [] if num_same(a, b, TOL64) else [path]
    return [] if a == b else [path]


# operations DOCUMENTED to return a (possibly) shallow copy: the result may share its block buffers with the operand, and the
# effect of a later in-place operation on the other reference is documented as unspecified (Array.copy, sort_legcharge).
# Only for such pairs a difference of the memory-sharing relation between the configurations is not a violation.
SHALLOW_DOC = ('copy_shallow', 'sort_legcharge', 'unary')       # unary_blockwise: 'makes a **shallow** copy first'


def doc_alias_classes(steps):
    """register -> representative of its class of documented shallow copies (union over SHALLOW_DOC steps)"""
    rep = list(range(len(steps)))
    for i, st in enumerate(steps):
        if st['op'] in SHALLOW_DOC and isinstance(st.get('a'), int) and st['a'] < i:
            rep[i] = rep[st['a']]
    return rep


def undocumented(rec, rep):
    """the aliasing observables of a step record without the pairs / side effects inside one documented shallow-copy class"""
    if rep is None or not any(k in rec for k in ALIAS_KEYS):
        return rec

    def cls(i):
        return rep[i] if i < len(rep) else i
    rec = dict(rec)
    if 'shares' in rec:
        rec['shares'] = [x for x in rec['shares'] if cls(x[0]) != cls(x[1])]
    tgt = rec.get('target')
    if tgt is not None and 'changed' in rec:
        rec['changed'] = [i for i in rec['changed'] if cls(i) != cls(tgt)]
        if 'side_effects' in rec:
            rec['side_effects'] = {k: v for k, v in rec['side_effects'].items() if cls(int(k)) != cls(tgt)}
            if not rec['side_effects']:
                del rec['side_effects']
    return rec


def step_diff(p, y, rep=None):
    """differences between the records of one step in the two configurations (rep: see doc_alias_classes)"""
    out = []
    p, y = undocumented(p, rep), undocumented(y, rep)
    if p.get('res') == y.get('res') and p.get('recv') == y.get('recv') and p.get('error') == y.get('error') \
            and p.get('skipped') == y.get('skipped') and 'crash' not in p and 'crash' not in y \
            and all(p.get(k) == y.get(k) for k in ALIAS_KEYS):
        return out
    if ('crash' in p) != ('crash' in y):
        return ['crash']
    if p.get('error') != y.get('error'):
        out.append('error-class')
    if p.get('skipped') != y.get('skipped'):
        out.append('skipped')
    for k in ('res', 'recv'):
        if (k in p) != (k in y):
            if 'error-class' not in out:
                out.append(k + '-missing')
        elif k in p:
            out.extend(obs_diff(p[k], y[k], k))
    # observables beyond the result (hidden aliasing shows only at a LATER in-place operation):
    # which pairs of live tensors share block memory, which other live tensors changed their value during the step
    if p.get('shares') != y.get('shares'):
        out.append('shares')
    if p.get('changed') != y.get('changed'):
        out.append('changed')
    elif p.get('side_effects') != y.get('side_effects'):
        out.extend(obs_diff(p.get('side_effects') or {}, y.get('side_effects') or {}, 'side_effects'))
    if p.get('alias_err') != y.get('alias_err'):
        out.append('alias_err')
    # buffers owned by the caller (ndarray arguments): changed by tenpy / sharing memory with a live tensor
    for k in ('ext_changed', 'ext_shares'):
        if p.get(k) != y.get(k):
            out.append(k)
    return out


INPLACE_OPS = ('iadd', 'isub', 'iadd_prefactor_other', 'iscale', 'iscale_prefactor', 'itranspose', 'iconj', 'imake_contiguous', 'idiv',
               'iunary', 'setitem', 'iproject', 'isort_qdata')       # = c04_impl.INPLACE
ALIAS_KEYS = ('shares', 'changed', 'side_effects', 'alias_err', 'ext_changed', 'ext_shares')


# known differences after which the comparison of a program continues (the step only fails to produce a register nobody uses)
INDEPENDENT_KEYS = ('C04:_tensordot_transpose_axes:axes=0:skip_arg_checks:py-raises-shape-mismatch',)


def alias_only(diffs):
    return bool(diffs) and all(d in ('shares', 'changed', 'alias_err', 'ext_changed', 'ext_shares') or d.startswith('side_effects')
                               for d in diffs)


def alias_detail(p, y):
    """what differs in the aliasing observables of one step, in words"""
    out = []
    sp, sy = [tuple(x) for x in p.get('shares') or []], [tuple(x) for x in y.get('shares') or []]
    if sp != sy:
        out.append('pairs of live tensors (register numbers) sharing block memory: only in pure Python %s, only compiled %s' % (
            sorted(set(sp) - set(sy)), sorted(set(sy) - set(sp))))
    if p.get('ext_changed') != y.get('ext_changed') or p.get('ext_shares') != y.get('ext_shares'):
        out.append('caller-owned ndarray arguments changed / shared with live tensors: pure Python %s/%s, compiled %s/%s' % (
            p.get('ext_changed'), p.get('ext_shares'), y.get('ext_changed'), y.get('ext_shares')))
    if p.get('changed') != y.get('changed'):
        out.append('live tensors whose value changed during the step: pure Python %s, compiled %s' % (p.get('changed'), y.get('changed')))
    elif p.get('side_effects') != y.get('side_effects'):
        out.append('tensors %s changed by the step hold different values in the two configurations' % sorted(p.get('side_effects') or {}))
    return '; '.join(out)


def selects_nothing(idx, shape):
    """does the index expression of a getitem step (see c04_impl.index_arg) select no index at all on some axis?"""
    idx = list(idx)
    if 'ell' in idx:
        k = idx.index('ell')
        idx = idx[:k] + ['all'] * (len(shape) - (len(idx) - 1)) + idx[k + 1:]
    for x, n in zip(idx, shape):
        if isinstance(x, list) and x[0] == 's' and len(range(*slice(x[1], x[2], x[3]).indices(n))) == 0:
            return True
        if isinstance(x, list) and x[0] == 'm' and not any(x[1]):
            return True
        if isinstance(x, list) and x[0] == 'i' and not x[1]:
            return True
    return False


def classify(st, p, y, diffs, case=None):
    """stable match key: call site + structural condition of the operands + kind of difference"""
    op = st['op']
    pre = p.get('pre', {})
    A, B = pre.get('a'), pre.get('b')
    if op in ('tensordot', 'w_tensordot') and st.get('axes') == 0 and (case or {}).get('optimize') == 3 and diffs and \
            diffs[0] == 'error-class' and p.get('error') == 'ValueError' and 'Shape mismatch' in p.get('msg', '') and 'error' not in y:
        # F04.1: at optimization level 3 (skip_arg_checks) the Python twin of _tensordot_transpose_axes compares
        # a.shape[-0:] (= the WHOLE shape) with b.shape[:0] = () for an outer product and raises; the compiled twin tests `axes > 0` first
        return 'C04:_tensordot_transpose_axes:axes=0:skip_arg_checks:py-raises-shape-mismatch'
    if op in ADD_OPS and diffs and all(d.endswith('block-values') for d in diffs) and isinstance(st.get('s'), float) and \
            abs(st['s']) > 3.5e38 and A and B and B['dtype'] in ('float32', 'complex64') and A['dtype'] not in ('float32', 'complex64') and \
            nonfinite(p.get('recv')) and not nonfinite(y.get('recv')):
        # F04.3: the Python twin multiplies `other` by the prefactor in other's (single precision) dtype before the sum is promoted:
        # a prefactor beyond the float32 range overflows to inf where the compiled twin (promote first, then axpy) stays finite
        return 'C04:iadd_prefactor_other:py-scales-in-single-precision:overflow'
    if op == 'iadd_prefactor_other' and diffs == ['error-class'] and p.get('error') == 'ValueError' and \
            p.get('msg', '').startswith('wrong argument types') and \
            ('b_raw' in st or (isinstance(st.get('s'), list) and st['s'][0] == 'raw')):
        # F04.2: only the Python twin validates its arguments (other must be an Array, prefactor a scalar)
        return 'C04:iadd_prefactor_other:argument-types-checked-in-python-only'

    pre = p.get('pre', {})
    A, B = pre.get('a'), pre.get('b')
    zero_size = any(x and x.get('zero_size') for x in (A, B))
    only_dtype = diffs and all(d.endswith('/dtype') or d.endswith('/block-dtypes') for d in diffs)
    if alias_only(diffs):
        # the results agree; the configurations differ in which tensors share memory / were changed as a side effect
        return 'C04:%s:hidden-aliasing:%s' % (op, ','.join(sorted(set(d.split('/')[0].split('[')[0] for d in diffs))))
    if only_dtype and op in ADD_OPS + SCALE_OPS and ((A and A['nblocks'] == 0) or (B and B['nblocks'] == 0)):
        return 'C04:py:dtype-not-promoted:operand-without-blocks'
    if op in ADD_OPS and A and B and A['labels'] != B['labels'] and None not in A['labels'] and \
            sorted(A['labels']) == sorted(B['labels']):
        return 'C04:iadd_prefactor_other:operands-with-permuted-labels'
    if only_dtype and op in ('inner', 'w_inner', 'tensordot') and A and B and \
            A['dtype'] == 'int64' and B['dtype'] == 'int64' and p.get('res', {}).get('k') == 'scalar':
        return 'C04:inner:scalar-dtype:integer-operands'
    if op == 'w_tensordot' and diffs == ['res/items[3]/dtype'] and A and B and A['dtype'] == 'int64' and B['dtype'] == 'int64':
        return 'C04:inner:scalar-dtype:integer-operands'
    if op == 'iadd_prefactor_other' and st['a'] == st.get('b') and isinstance(st.get('s'), list) and st['s'][0] == 'c':
        return 'C04:iadd_prefactor_other:self-aliased-operand:complex-prefactor'
    if op == 'getitem' and 'error-class' in diffs and y.get('error') == 'IndexError' and 'with size 0' in y.get('msg', '') and \
            p.get('error') != 'IndexError' and A and selects_nothing(st['idx'], A['shape']):
        # an index that selects NOTHING on some axis (empty / negative-step slice, all-False mask) and needs a permutation: the
        # projected leg has no blocks, Array.permute calls LegCharge.bunch() on it, and bunch() indexes charges with
        # _find_row_differences(0 rows)[:-1] = [] (python) / [0] (compiled): the public face of the helper difference F63
        return 'C04:_find_row_differences:zero-rows'
    if zero_size and 'crash' in diffs:
        return 'C04:zero-size-leg-block:interpreter-crash'
    if zero_size and 'error-class' in diffs and (('error' in p) != ('error' in y)):
        return 'C04:zero-size-leg-block:raises-in-one-configuration'
    return 'C04:%s:%s' % (op, ','.join(sorted(set(d.split('/')[-1].split('[')[0] for d in diffs)))[:60])


def nonfinite(o):
    """does the observation of a tensor contain inf / nan entries?"""
    if not isinstance(o, dict) or 'blocks' not in o:
        return False
    for blk in o['blocks']:
        for v in blk[2]:
            for x in (v if isinstance(v, list) else [v]):
                if x != x or x in (INF, -INF):
                    return True
    return False


def blame(p, y):
    a, b = p.get('dense_ok'), y.get('dense_ok')
    if all(p.get(k) == y.get(k) for k in ('res', 'recv', 'error', 'skipped')) and 'crash' not in p and 'crash' not in y:
        return 'same result, different aliasing/side effects: ' + alias_detail(p, y)
    if 'crash' in y:
        return 'the compiled configuration crashed the interpreter (signal %s)' % y['crash']
    if 'crash' in p:
        return 'the pure-Python configuration crashed the interpreter (signal %s)' % p['crash']
    if a is False and b is not False:
        return 'dense numpy oracle: the pure-Python configuration is wrong'
    if b is False and a is not False:
        return 'dense numpy oracle: the compiled configuration is wrong'
    if a is False and b is False:
        return 'dense numpy oracle: both configurations are wrong'
    if 'error' in p and 'error' not in y:
        return 'pure Python raises %s, compiled returns a result%s' % (p['error'], ' that the dense oracle accepts' if b else '')
    if 'error' in y and 'error' not in p:
        return 'compiled raises %s, pure Python returns a result%s' % (y['error'], ' that the dense oracle accepts' if a else '')
    return 'dense values agree with numpy in both configurations; structure/dtype differ'


# ------------------------------------------------------------------------------------------------
# running both configurations
# ------------------------------------------------------------------------------------------------

def run_both(ctx, kind, cases, nchunks=None):
    """one kind of case; see run_mixed"""
    out, infos = run_mixed(ctx, [(kind, c) for c in cases], nchunks)
    return out, infos


def run_mixed(ctx, items, nchunks=None):
    """items: [(kind, case)].  Runs every item in BOTH configurations (few, large batches: starting an
    interpreter and importing tenpy dominates on a busy machine; the two configurations run concurrently).
    returns ({'py': [...], 'cy': [...]}, infos) or (None, None) after recording a correspondence failure"""
    from concurrent.futures import ThreadPoolExecutor
    n = nchunks or max(1, min(6, len(items) // 40))
    common.cy_build()      # in the main thread: the overlay creation of common.cy_build is not thread-safe
    chunks = [items[i::n] for i in range(n)]
    jobs = [(cfg, i) for i in range(n) for cfg in ('py', 'cy') if chunks[i]]
    with ThreadPoolExecutor(max_workers=len(jobs)) as ex:
        futs = [ex.submit(common.run_impl, 'c04_impl.py', {'kind': 'mixed', 'cases': [list(x) for x in chunks[i]], 'cov': True}, cfg)
                for cfg, i in jobs]
        res = [f.result() for f in futs]
    out = {'py': [None] * len(items), 'cy': [None] * len(items)}
    infos = {}
    for (cfg, i), (r, err) in zip(jobs, res):
        if err:
            ctx.fail('correspondence', 'runner failed in configuration %s: %s' % (cfg, err[-600:]), None)
            return None, None
        info = r['info']
        if info.get('have_cython') != (cfg == 'cy'):
            ctx.fail('correspondence', 'configuration %s runs with have_cython_functions=%r (the extension rebuilt from the '
                     'current .pyx did not load / was not disabled)' % (cfg, info.get('have_cython')), {'info': info})
            return None, None
        if not os.path.realpath(info.get('npc_file', '')).startswith(os.path.realpath(common.REPO)):
            ctx.fail('correspondence', 'configuration %s imported tenpy from %s, not from %s' % (cfg, info.get('npc_file'), common.REPO), None)
            return None, None
        cov = info.pop('cov', None)
        prev = infos.get(cfg, {}).get('cov')
        infos[cfg] = info
        if cov is not None:
            infos[cfg]['cov'] = c04_audit.merge_cov(prev, cov)
        for j, x in enumerate(r['results']):
            out[cfg][i + n * j] = x
    return out, infos


KERNEL_OPS = ('iscale', 'iscale_prefactor', 'idiv', 'iadd', 'isub', 'iadd_prefactor_other', 'itranspose', 'iconj', 'tensordot',
              'w_tensordot', 'inner', 'w_inner', 'combine', 'w_combine', 'add', 'sub', 'scale', 'rscale', 'div')


def view_steps(c, y):
    """steps of a program whose receiver/operand had non-contiguous blocks IN THE COMPILED configuration when an in-place or
    BLAS-backed kernel executed on it: [(op, role, gaps?)]"""
    out = []
    for st, r in zip(c['steps'], y.get('steps', [])):
        if st['op'] in KERNEL_OPS and 'error' not in r and 'skipped' not in r:
            for role in ('a', 'b'):
                lay = (r.get('pre', {}).get(role) or {}).get('layout')
                if lay and lay[0] > 0:
                    out.append((st['op'], role, lay[1] > 0))
    return out


def sub_case(c, upto=None):
    """the part of a program that is recorded with a failure (replayable): steps up to `upto`, plus the case-level switches"""
    d = {'mods': c['mods'], 'pool': c['pool'], 'steps': c['steps'] if upto is None else c['steps'][:upto + 1]}
    for k in ('optimize', 'unspecified'):
        if k in c:
            d[k] = c[k]
    return d


def compare_programs(ctx, stream, cases, out, nontrivial=None):
    nd = 0
    opstat = ctx.cov.setdefault('input_distribution', {}).setdefault(stream, {})
    for ci, (c, p, y) in enumerate(zip(cases, out['py'], out['cy'])):
        if 'runner_error' in p or 'runner_error' in y:
            ctx.fail('correspondence', 'program runner failed: ' + (p.get('runner_error') or y.get('runner_error'))[-500:],
                     {'stream': stream, 'case': c})
            continue
        if 'crash' in p or 'crash' in y:
            # the whole program died in one configuration; find the structural condition from the other side
            other = y if 'crash' in p else p
            zs = any(any(x.get('zero_size') for x in s.get('pre', {}).values()) for s in other.get('steps', []))
            key = 'C04:zero-size-leg-block:interpreter-crash' if zs else 'C04:interpreter-crash'
            ctx.count(stream, c, nontrivial=True)
            ctx.fail('oracle', 'the %s configuration crashes the interpreter (signal %s) on a program the other configuration '
                     'executes' % ('pure-Python' if 'crash' in p else 'compiled', p.get('crash') or y.get('crash')),
                     {'stream': stream, 'case': c}, match_key=key)
            nd += 1
            continue
        first = None
        more = []
        rep = doc_alias_classes(c['steps'])
        tainted = set(c.get('unspecified', []))
        for si, (st, a, b) in enumerate(zip(c['steps'], p['steps'], y['steps'])):
            k = st['op'] + ('!' if 'error' in a else '')
            opstat[k] = opstat.get(k, 0) + 1
            # registers in an unspecified state: a documented shallow copy (Array.copy(deep=False), sort_legcharge, unary_blockwise)
            # whose partner was written to in place afterwards AND whose value changed through that write in at least one configuration
            # ("in-place operations on one might or might not affect the other").  The state propagates to everything computed from
            # such a register; these are not compared (register index = step index).  A shallow copy that stayed intact in BOTH
            # configurations remains a well-defined operand (it still shares buffers: the aliasing guards of the kernels are reached).
            opnd = [st[r] for r in ('a', 'b') if isinstance(st.get(r), int)]
            if any(o in tainted for o in opnd):
                tainted.add(si)
                if st['op'] in INPLACE_OPS:
                    tainted.add(st['a'])
                continue
            if st['op'] in INPLACE_OPS and isinstance(st.get('a'), int):
                x = st['a']
                seen = set(a.get('changed') or []) | set(b.get('changed') or [])
                tainted.update(r for r in range(si) if r != x and rep[r] == rep[x] and r in seen)
            d = step_diff(a, b, rep)
            if d == ['shares'] and first is None:
                # same results, but different tensors share memory: keep looking for the step where this becomes a
                # difference of values (reported instead, it is the more telling input); else this step is reported
                first = (si, st, undocumented(a, rep), undocumented(b, rep), d)
                continue
            if d == ['shares']:
                continue
            if d:
                if classify(st, a, b, d, c) in INDEPENDENT_KEYS and len(c['steps']) > si + 1:
                    # a known difference whose (failed) result no later step uses: report it and keep comparing the rest of the program
                    more.append((si, st, undocumented(a, rep), undocumented(b, rep), d))
                    continue
                first = (si, st, undocumented(a, rep), undocumented(b, rep), d)
                break
        if first is None and len(p['steps']) == len(y['steps']):
            # registers named in c['unspecified'] are shallow copies whose partner was written to in place AFTER the copy: their state
            # is documented as unspecified (Array.copy), only the receiver of the write is compared
            uns = tainted | {m[0] for m in more}
            pf = [None if i in uns else x for i, x in enumerate(p['final'])]
            yf = [None if i in uns else x for i, x in enumerate(y['final'])]
            fd = [] if pf == yf else obs_diff(pf, yf, 'final')
            if fd:
                ctx.fail('oracle', 'operands left in different states by the two configurations: %s' % fd[:6],
                         {'stream': stream, 'case': sub_case(c), 'py_final': p['final'], 'cy_final': y['final']},
                         match_key='C04:final-state:' + ','.join(sorted(set(x.split('/')[-1] for x in fd)))[:60])
                nd += 1
        nontriv = any(s['op'] != 'new' and 'error' not in r and 'skipped' not in r for s, r in zip(c['steps'], p['steps']))
        if nontrivial is not None:
            nontriv = nontrivial(c, p, y)
        for cfg, o in (('pure-Python', p), ('compiled', y)):
            bad = [(si, r['ext_changed']) for si, r in enumerate(o['steps']) if r.get('ext_changed')]
            if bad:
                si = bad[0][0]
                ctx.fail('oracle', 'step %d (%s): the %s configuration modified an ndarray owned by the caller (argument of '
                         'Array.from_ndarray, which documents a copy)' % (si, c['steps'][si]['op'], cfg),
                         {'stream': stream, 'case': sub_case(c, si), 'step': si},
                         match_key='C04:%s:caller-buffer-modified' % c['steps'][si]['op'])
                nd += 1
        ctx.count(stream, c, nontrivial=nontriv,
                  sample={'ops': [s['op'] for s in c['steps']], 'mods': c['mods'], 'pool': c['pool']})
        for first in more + ([first] if first is not None else []):
            si, st, a, b, d = first
            nd += 1
            key = classify(st, a, b, d, c)
            if os.environ.get('C04_DEBUG') and os.environ['C04_DEBUG'] in key:
                print('DEBUG', stream, key, d, json.dumps(c['steps'][:si + 1])[-700:], json.dumps(a.get('pre')), '\nPY', json.dumps(a.get('recv') or a.get('res') or a.get('error'))[:300], '\nCY', json.dumps(b.get('recv') or b.get('res') or b.get('error'))[:300])
            lay = {k: v.get('layout') for k, v in (b.get('pre') or {}).items() if v.get('layout') and v['layout'][0]}
            how = ''
            if lay:
                how = '; operand blocks not C-contiguous before the step (compiled run): %s' % ', '.join(
                    '%s: %d block(s), %d with gaps' % (k, v[0], v[1]) for k, v in sorted(lay.items()))
            ctx.fail('oracle', 'step %d (%s) differs between the configurations in %s; %s%s [%s]' % (si, st['op'], d[:6], blame(a, b), how, key),
                     {'stream': stream, 'case': sub_case(c, si),
                      'step': si, 'py': a, 'cy': b, 'how': 'harness/impl/c04_impl.py kind=programs in both configurations'},
                     match_key=key)
    return nd


# ------------------------------------------------------------------------------------------------
# kernel argument generators (+ Coq literals)
# ------------------------------------------------------------------------------------------------

def gen_kernel_cases(rng, n):
    cases = []
    for _ in range(n):
        r = rng.random()
        if r < 0.3:
            mods = [rng.choice([1, 1, 2, 3, 4, 5, 7]) for _ in range(rng.choice([0, 1, 1, 2, 2, 3, 4]))]
            big = rng.random() < 0.15
            L = rng.choice([0, 1, 1, 2, 3, 5, 8])

            def q():
                if big:
                    return rng.choice([-1, 1]) * rng.randint(2 ** 40, 2 ** 61)
                return rng.randint(-12, 12)
            one_d = rng.random() < 0.3
            if rng.random() < 0.04:
                cases.append({'f': 'make_valid', 'mods': mods, 'charges': None})
                continue
            rows = [[q() for _ in mods] for _ in range(1 if one_d else L)]
            f = rng.choice(['make_valid', 'make_valid', 'check_valid']) if not one_d else 'make_valid'
            if f == 'check_valid' and rng.random() < 0.6:
                rows = [[(x % m if m != 1 else x) for x, m in zip(row, mods)] for row in rows]   # mostly valid
                if rows and mods and rng.random() < 0.3:
                    i, j = rng.randrange(len(rows)), rng.randrange(len(mods))
                    rows[i][j] = rng.choice([-1, mods[j], mods[j] - 1, 0])                       # boundary values
            # argument forms: make_valid takes any array_like (list / tuple / int64 or int32 ndarray, C-contiguous, Fortran-ordered or a
            # strided view); check_valid a 2D int64 ndarray of any memory layout
            forms = ['array', 'array', 'list', 'tuple', 'array32', 'strided', 'F'] if f == 'make_valid' else ['array', 'array', 'strided', 'F']
            cases.append({'f': f, 'mods': mods, 'charges': rows[0] if one_d else rows,
                          'shape': [len(mods)] if one_d else [len(rows), len(mods)],
                          'as': rng.choice(forms) if (rows and mods) else 'array', 'rows': rows})
        elif r < 0.55:
            M = rng.choice([0, 1, 1, 2, 3])
            L = rng.choice([0, 1, 2, 3, 5, 8, 12])
            pool = [[rng.randint(-1, 1) for _ in range(M)] for _ in range(3)]
            rows = []
            for _ in range(L):
                if rows and rng.random() < 0.5:
                    rows.append(list(rows[-1]))
                else:
                    rows.append(list(rng.choice(pool)))
            cases.append({'f': 'find_row_differences', 'q': rows, 'shape': [L, M], 'as': rng.choice(['array', 'array', 'strided', 'F'])})
        elif r < 0.7:
            bs = [rng.choice([0, 1, 1, 2, 3, 5]) for _ in range(rng.choice([0, 1, 2, 3, 5, 8]))]
            cases.append({'f': 'map_blocks', 'bs': bs})
        elif r < 0.85:
            L = rng.choice([1, 1, 2, 3, 4, 6])
            if rng.random() < 0.1:
                shape = [rng.randint(1, 2 ** 20) for _ in range(min(L, 3))]
            else:
                shape = [rng.choice([0, 1, 1, 2, 3, 4, 7]) if rng.random() < 0.9 else 1 for _ in range(L)]
            cases.append({'f': 'make_stride', 'shape': shape, 'cstyle': rng.random() < 0.5, 'as': rng.choice(['list', 'list', 'tuple', 'ndarray'])})
        else:
            nd = rng.choice([1, 2, 3, 3, 4, 5, 6, 7, 8])
            sl = [rng.choice([0, 1, 1, 2, 3]) if rng.random() < 0.95 else 0 for _ in range(nd)]
            dbeg = [rng.randint(0, 2) for _ in range(nd)]
            sbeg = [rng.randint(0, 2) for _ in range(nd)]
            dshape = [b + s + rng.randint(0, 1) for b, s in zip(dbeg, sl)]
            sshape = [b + s + rng.randint(0, 1) for b, s in zip(sbeg, sl)]
            if rng.random() < 0.25:
                dbeg = None
                dshape = [s + rng.randint(0, 1) for s in sl]
            if rng.random() < 0.25:
                sbeg = None
                sshape = [s + rng.randint(0, 1) for s in sl]
            dshape = [max(1, x) for x in dshape]
            sshape = [max(1, x) for x in sshape]
            cases.append({'f': 'sliced_copy', 'dshape': dshape, 'sshape': sshape, 'dbeg': dbeg, 'sbeg': sbeg, 'sl': sl,
                          'dtype': rng.choice(['float64', 'complex128', 'float32', 'int64', 'complex64'])})
    return cases


def forced_kernel_cases():
    """seed-independent helper calls for input classes that random draws hit rarely (see c04_audit.REQUIRED / PYX_TABLE)"""
    cs = []
    for nd in (1, 2, 3, 4):          # copies of whole arrays, with and without explicit offsets
        for begs in (None, [0] * nd):
            cs.append({'f': 'sliced_copy', 'dshape': [2, 3, 1, 2][:nd], 'sshape': [2, 3, 1, 2][:nd], 'dbeg': begs, 'sbeg': None if begs else [0] * nd,
                       'sl': [2, 3, 1, 2][:nd], 'dtype': ['float64', 'complex128', 'float32', 'int64'][nd - 1]})
    for form in ('array', 'strided', 'F'):
        # check_valid: the first row / the first column is valid, a later one is not; the boundary values 0, mod - 1, mod, -1
        for rows in ([[0, 2], [1, 3]], [[1, 0], [2, -1]], [[0, 0], [2, 2]], [[2, 1], [0, 2]], [[0, 3], [0, 0]], [[0, 1], [-1, 0]]):
            cs.append({'f': 'check_valid', 'mods': [3, 3], 'charges': rows, 'shape': [2, 2], 'as': form, 'rows': rows})
        cs.append({'f': 'check_valid', 'mods': [1, 4], 'charges': [[7, 3], [-5, 4]], 'shape': [2, 2], 'as': form, 'rows': [[7, 3], [-5, 4]]})
        cs.append({'f': 'find_row_differences', 'q': [[0, 1], [0, 1], [0, 2], [1, 2]], 'shape': [4, 2], 'as': form})
        cs.append({'f': 'find_row_differences', 'q': [], 'shape': [0, 2], 'as': form})
    for form in ('array', 'list', 'tuple', 'array32', 'strided', 'F'):
        rows = [[5, -1], [-4, 3], [2, 0]]
        cs.append({'f': 'make_valid', 'mods': [2, 3], 'charges': rows, 'shape': [3, 2], 'as': form, 'rows': rows})
        cs.append({'f': 'make_valid', 'mods': [1, 4], 'charges': rows[0], 'shape': [2], 'as': form, 'rows': rows[:1]})
    for form in ('list', 'tuple', 'ndarray'):
        for shape in ([3], [2, 0, 3], [4, 1, 2, 5]):
            for cst in (True, False):
                cs.append({'f': 'make_stride', 'shape': shape, 'cstyle': cst, 'as': form})
    return cs


def gen_pipe_cases(rng, n):
    cases = []
    for _ in range(n):
        mods = c04_gen.gen_mods(rng)
        legs = [c04_gen.gen_leg(rng, mods, empty_blocks=False) for _ in range(rng.choice([1, 2, 2, 3]))]
        if rng.random() < 0.08:                        # one block per leg: a pipe with a single block
            legs = [dict(l, sizes=l['sizes'][:1], charges=l['charges'][:1]) for l in legs]
        cases.append({'f': 'pipe', 'mods': mods, 'legs': legs, 'qconj': rng.choice([1, -1]), 'sort': rng.random() < 0.8,
                      'bunch': rng.random() < 0.8})
    return cases


def gen_merge_cases(rng, n):
    """operand pairs of a.iadd_prefactor_other(1., b): same legs, labels and qtotal, independent block subsets;
    'raw': tables left unsorted with the sorted flag forced (the loop itself on arbitrary tables)"""
    cases = []
    while len(cases) < n:
        mods = c04_gen.gen_mods(rng) if rng.random() < 0.6 else []
        pool = [c04_gen.gen_leg(rng, mods, empty_blocks=False) for _ in range(rng.choice([1, 2, 3]))]
        rank = rng.choice([1, 2, 2, 3, 3])
        types = [['L', rng.randrange(len(pool)), rng.choice([1, -1])] for _ in range(rank)]
        a = c04_gen.gen_tensor_spec(rng, mods, pool, types, dtype='float64', fill=rng.choice([1.0, 0.7, 0.5, 0.3]))
        same = rng.random() < 0.12
        b = c04_gen.gen_tensor_spec(rng, mods, pool, types, labels=a['labels'], dtype='float64', qtotal=a['qtotal'],
                                    fill=rng.choice([1.0, 0.7, 0.5, 0.3, 0.0]))
        if same:                                       # the fast path Na == Nb and np.all(aq == bq)
            b = dict(b, blocks=[dict(x) for x in a['blocks']])
            rng.shuffle(b['blocks'])
        if len(a['blocks']) + len(b['blocks']) == 0 and rng.random() < 0.9:
            continue
        cases.append({'f': 'merge', 'mods': mods, 'pool': pool, 'a': a, 'b': b, 'raw': rng.random() < 0.25})
    return cases


CHAIN_PREF = [1.0, 1.0, 1, -1.0, 2.0, ['c', 0.0, 1.0]]
CHAIN_SCALE = [2.0, 2.0, -1.0, ['c', 0.0, 1.0], 1.0, 0.5, 3, -2]


def gen_inplace_chain(rng):
    """histories of binary operations followed by in-place operations: 2-4 operands with the SAME legs, labels and qtotal but
    independently chosen stored blocks (different block sparsity), mostly one dtype; then sums/differences/axpy with prefactors
    in {1, -1, 2, 1j} whose results AND operands are afterwards scaled / added to IN PLACE (iscale_prefactor, *=, +=, -=,
    iadd_prefactor_other).  A result that shares memory with an operand is visible here in three ways: the sharing relation
    after the binary step, the set of tensors changed by the in-place step, and the final state of all registers."""
    p = c04_gen.Prog(rng, empty_blocks=False, bad_rate=0.0, worker_rate=0.0)
    rank = rng.choice([1, 2, 2, 2, 3, 3])
    types = [['L', rng.randrange(len(p.pool)), rng.choice([1, -1])] for _ in range(rank)]
    dtype = rng.choice(['float64', 'float64', 'complex128', 'complex128', 'float32', 'complex64', 'int64'])
    labels = rng.sample(c04_gen.LABELS[:8], rank) if rng.random() < 0.8 else c04_gen.gen_labels(rng, rank)
    a = p.new(types=types, labels=labels, dtype=dtype, fill=rng.choice([0.3, 0.5, 0.7, 1.0]))
    qt = p.steps[a]['spec']['qtotal']
    live = [a]
    for _ in range(rng.choice([1, 2, 2, 3])):
        dt = dtype if rng.random() < 0.8 else rng.choice(c04_gen.DTYPES)
        live.append(p.new(like=a, qtotal=qt, dtype=dt, fill=rng.choice([0.3, 0.5, 0.7, 1.0, 1.0, 0.1])))
    A = p.regs[a]

    def binary():
        x = rng.choice(live)
        others = [r for r in live if r != x]
        y = rng.choice(others)
        op = rng.choice(['add', 'add', 'sub', 'iadd', 'iadd', 'isub', 'iadd_prefactor_other', 'iadd_prefactor_other'])
        st = {'op': op, 'a': x, 'b': y}
        if op == 'iadd_prefactor_other':
            st['s'] = rng.choice(CHAIN_PREF)
        if op in ('add', 'sub'):
            live.append(p.push(st, p.arr(A['legs'], A['labels'])))
        else:
            p.push(st, {'kind': 'none'})

    binary()
    for _ in range(rng.randint(2, 6)):
        r = rng.random()
        if r < 0.4:
            binary()
        elif r < 0.85:
            # in place on a result or an operand of an earlier binary operation (the most recent registers preferred)
            x = live[-1] if rng.random() < 0.4 else rng.choice(live)
            p.push({'op': rng.choice(['iscale', 'iscale_prefactor']), 'a': x, 's': rng.choice(CHAIN_SCALE)}, {'kind': 'none'})
        elif r < 0.93:
            x = rng.choice(live)
            live.append(p.push({'op': rng.choice(['scale', 'copy_deep', 'rscale']), 'a': x, 's': rng.choice(CHAIN_SCALE)},
                               p.arr(A['legs'], A['labels'])))
        else:
            x = rng.choice(live)
            p.push({'op': 'imake_contiguous', 'a': x}, {'kind': 'none'})
    return p.case()


def gen_itrans_cases(rng, n):
    """Array states (optionally already transposed once: strided views in python) and axes arguments of itranspose:
    permutations by index / label / mixed, None, the identity, invalid axes, and a few Arrays whose labels violate
    the class invariant (duplicate) -- there the two models predict DIFFERENT behaviour"""
    cases = []
    for _ in range(n):
        mods = c04_gen.gen_mods(rng)
        pool = [c04_gen.gen_leg(rng, mods, maxb=3, empty_blocks=False) for _ in range(rng.choice([1, 2, 3]))]
        rank = rng.choice([1, 2, 2, 3, 3, 4])
        types = [['L', rng.randrange(len(pool)), rng.choice([1, -1])] for _ in range(rank)]
        a = c04_gen.gen_tensor_spec(rng, mods, pool, types, dtype=rng.choice(['float64', 'int64']),
                                    fill=rng.choice([1.0, 0.7, 0.4]))
        for k, blk in enumerate(a['blocks']):          # distinct entries: a wrong element order is visible
            blk['re'] = [50 * k + t + 1 for t in range(len(blk['re']))]
        c = {'f': 'itrans', 'mods': mods, 'pool': pool, 'a': a, 'sort_first': rng.random() < 0.5, 'pre_axes': None,
             'force_labels': None}
        if rng.random() < 0.3:
            c['pre_axes'] = rng.sample(range(rank), rank)
        labels = list(a['labels'])
        if c['pre_axes'] is not None:
            labels = [labels[i] for i in c['pre_axes']]
        r = rng.random()
        if r < 0.07 and rank >= 2:
            named = [i for i, l in enumerate(labels) if l is not None]
            if named:
                labels = list(labels)
                labels[rng.choice([i for i in range(rank) if i != named[0]])] = labels[named[0]]
                c['force_labels'] = labels
        perm = rng.sample(range(rank), rank)
        r = rng.random()
        if r < 0.08 and rank >= 2:
            axes = None
        elif r < 0.14:
            axes = list(range(rank))
        elif r < 0.27:
            axes = list(perm)
            k = rng.choice(['dup', 'short', 'long', 'range'])
            if k == 'dup':
                axes[rng.randrange(rank)] = axes[rng.randrange(rank)]
            elif k == 'short':
                axes = axes[:-1]
            elif k == 'long':
                axes = axes + [rng.randrange(rank)]
            else:
                axes[rng.randrange(rank)] = rank + rng.choice([0, 1])
        else:
            axes = list(perm)
        if axes is not None and rng.random() < 0.5:
            axes = [labels[x] if (isinstance(x, int) and x < rank and labels[x] is not None and labels.count(labels[x]) == 1
                                  and rng.random() < 0.7) else x for x in axes]
        c['axes'] = axes
        cases.append(c)
    return cases


def _arrz_lit(st):
    return '(mkArrZ %s %s %s %s %s)' % (
        coq_lit(st['legs']), coq_lit([None if l is None else common.Some(l) for l in st['labels']]),
        coq_lit(st['qdata']), coq_lit([(b[0], b[1], b[2]) for b in st['blocks']]), coq_lit(bool(st['sorted'])))


def coq_kernel_case3(c, out):
    """Coq literal of Model/KernelsPyCy3Check.v (kernel_case3): the merge of iadd_prefactor_other and itranspose"""
    f = c['f']
    if 'runner_error' in out or 'crash' in out:
        return None
    if f == 'merge' and 'tags' in out:
        return 'KMerge %s %s %s %s %s' % (coq_lit(out['shape']), coq_lit(out['aq']), coq_lit(out['bq']), coq_lit(out['q']),
                                          coq_lit([tuple(t) for t in out['tags']]))
    if f == 'itrans' and 'pre' in out:
        if sum(len(b[0]) for b in out['pre']['blocks']) > 3000:
            return None
        post = 'None' if out['post'] is None else '(Some %s)' % _arrz_lit(out['post'])
        return 'KItrans %s %s %s' % (_arrz_lit(out['pre']), coq_lit(out['axes_idx']), post)
    return None


def strip_layout(o):
    """the part of an 'itrans' record that must agree between the configurations (memory layout is not observed)"""
    return {k: v for k, v in o.items() if k not in ('pre', 'post')}


def coq_kernel_case(c, out):
    """Coq literal (kernel_case constructor applied to input and the implementation's output) or None"""
    f = c['f']
    if 'error' in out or 'v' not in out:
        return None
    if f == 'make_valid':
        if c['charges'] is None:
            return None
        v = out['v'] if len(c['shape']) == 2 else [out['v']]
        if len(c['mods']) == 0:
            v = [[] for _ in c['rows']]
        return 'KMakeValid %s %s %s' % (coq_lit(c['mods']), coq_lit(c['rows']), coq_lit(v))
    if f == 'check_valid':
        return 'KCheckValid %s %s %s' % (coq_lit(c['mods']), coq_lit(c['rows']), coq_lit(bool(out['v'])))
    if f == 'find_row_differences':
        return 'KFindRowDiff %s %s %s' % (coq_lit(c['shape'][1]), coq_lit(c['q']), coq_lit(out['v']))
    if f == 'map_blocks':
        return 'KMapBlocks %s %s' % (coq_lit(c['bs']), coq_lit(out['v']))
    if f == 'make_stride':
        return 'KMakeStride %s %s %s' % (coq_lit(c['shape']), coq_lit(bool(c['cstyle'])), coq_lit(out['v']))
    return None


def coq_kernel_case2(c, out):
    """Coq literal of Model/KernelsPyCy2Check.v (kernel_case2) for the kernels modelled in KernelsPyCy2/3.v, or None"""
    f = c['f']
    if 'error' in out or 'runner_error' in out or 'crash' in out:
        return None
    if f == 'pipe' and 'pipe' in out:
        if any(abs(x) >= 2 ** 40 for l in c['legs'] for row in l['charges'] for x in row):
            return None
        legs = '[' + '; '.join('mkPleg %s %s %s' % (coq_lit(int(l['qconj'])), coq_lit([list(r) for r in l['charges']]),
                                                     coq_lit(list(l['sizes']))) for l in c['legs']) + ']'
        return 'KPipe %s %s %s %s %s %s %s %s %s' % (
            coq_lit(list(c['mods'])), coq_lit(int(c['qconj'])), legs, coq_lit(bool(c['sort'])), coq_lit(bool(c['bunch'])),
            coq_lit(out['pipe']['q_map']), coq_lit(out['pipe']['q_map_slices']), coq_lit(out['charges']), coq_lit(out['slices']))
    if f == 'sliced_copy' and 'v' in out and c['dtype'] in ('float64', 'float32', 'int64'):
        nd = len(c['sl'])
        n = 1
        for x in c['dshape']:
            n *= x
        m = 1
        for x in c['sshape']:
            m *= x
        if n > 900 or m > 900:
            return None
        v = [int(x) for x in out['v']]
        if any(float(a) != float(b) for a, b in zip(v, out['v'])):
            return None
        return 'KSlicedCopy %s %s %s %s %s %s' % (coq_lit(list(c['dshape'])), coq_lit(list(c['sshape'])),
                                                  coq_lit(list(c['dbeg'] or [0] * nd)), coq_lit(list(c['sbeg'] or [0] * nd)),
                                                  coq_lit(list(c['sl'])), coq_lit(v))
    return None


# ------------------------------------------------------------------------------------------------
# coverage audit (tables of harness/c04_audit.py against the input recorders / line recording of harness/impl/c04_cov.py)
# ------------------------------------------------------------------------------------------------

def coverage_tables(ctx, infos):
    """every hole is a correspondence failure: a pair of the source unknown to the check, a function / branch condition of the .pyx
    that is not classified or whose input class never occurred (compiled configuration), a required input class of a pair that did
    not occur in one of the configurations, an unexecuted line of a Python twin"""
    audit = ctx.cov.setdefault('coverage_audit', {})
    problems = []
    pairs, pr = c04_audit.enumerate_pairs(common.REPO)
    problems += pr
    cov = {cfg: (infos.get(cfg) or {}).pop('cov', None) or {} for cfg in ('py', 'cy')}
    for cfg in ('py', 'cy'):
        if cov[cfg].get('install_problems'):
            problems.append('%s: recorders not installed: %s' % (cfg, cov[cfg]['install_problems']))
        if cov[cfg].get('aux_errors'):
            problems.append('%s: coverage collection failed: %s' % (cfg, cov[cfg]['aux_errors'][0][-300:]))
        bad = sorted({'%s|%s' % (p, t) for p, d in (cov[cfg].get('tags') or {}).items() for t in d
                      if t.startswith(('classifier-failed', 'arg=unclassified'))})
        audit['unclassified_inputs_' + cfg] = bad
    audit['pairs'] = {}
    for name, info in sorted(pairs.items()):
        calls = {cfg: sum(((cov[cfg].get('tags') or {}).get(name, {}).get('calls') or {}).values()) for cfg in ('py', 'cy')}
        streams = sorted(((cov['cy'].get('tags') or {}).get(name, {}).get('calls') or {}))
        audit['pairs'][name] = {'python': '%s:%d' % (info['file'], info['line']), 'compiled': info['replacement'], 'calls_py': calls['py'],
                                'calls_cy': calls['cy'], 'compared_in_streams': streams, 'how': c04_audit.PAIRS.get(name)}
        for cfg in ('py', 'cy'):
            if calls[cfg] == 0:
                problems.append('pair %s was never called in the %s configuration' % (name, cfg))
    # branch structure of the .pyx against the input classes of the compiled configuration
    rows, n, pr = c04_audit.eval_branches(c04_audit.pyx_branches(common.REPO), cov['cy'].get('tags') or {})
    problems += pr
    audit['pyx_branches'] = n
    audit['pyx_branch_table'] = [r for r in rows if r[4] not in ('compile-time',)]
    # pair x input classes, both configurations
    audit['input_classes'] = {}
    nreq = nhit = 0
    for cfg in ('py', 'cy'):
        table, pr = c04_audit.eval_required(cov[cfg].get('tags') or {}, cfg)
        problems += pr
        for pair, row in table.items():
            for g, (k, streams) in row.items():
                e = audit['input_classes'].setdefault(pair, {}).setdefault(g, {})
                e[cfg] = k
                if cfg == 'cy':
                    e['streams'] = streams
                nreq += 1
                nhit += k > 0
    audit['input_classes_required'] = nreq
    audit['input_classes_reached'] = nhit
    # lines of the Python twins
    table, pr = c04_audit.eval_lines(common.REPO, cov['py'])
    problems += pr
    audit['python_lines'] = {k: {'executable': v[0], 'executed': v[1], 'not_executed': v[2]} for k, v in table.items()}
    audit['python_lines_total'] = [sum(v[1] for v in table.values()), sum(v[0] for v in table.values())]
    audit['holes'] = len(problems)
    for pb in problems[:12]:
        ctx.fail('correspondence', 'coverage hole: ' + pb, None)
    if len(problems) > 12:
        ctx.fail('correspondence', 'coverage hole: %d more: %s' % (len(problems) - 12, ' || '.join(problems[12:40])[:3000]), None)
    if os.environ.get('C04_COVDUMP'):
        json.dump({'cov': cov, 'problems': problems}, open(os.environ['C04_COVDUMP'], 'w'))
    return problems


def main(ctx):
    rng = ctx.rng
    import time
    tm = ctx.cov.setdefault('timings_s', {})
    t0 = time.time()

    def mark(name):
        nonlocal t0
        tm[name] = round(time.time() - t0, 1)
        t0 = time.time()
    ctx.proof = common.check_proofs('C04', extra_targets=['Model/KernelsPyCy3Check.vo'])
    mark('proofs')
    mult = 3 if not ctx.proof.ok else 1
    nprog = ctx.pick(500, 4000) * mult
    if ctx.replay_in:
        return replay(ctx)
    # ---- corpus first
    corpus = [c['case'] for c in common.corpus_cases('C04') if c.get('stream') == 'programs']
    # stream 1: random programs, public API + direct worker calls
    cases = corpus + [c04_gen.gen_program(rng, empty_blocks=False) for _ in range(nprog)]
    # stream 2: sums of tensors with the same labels in a different order
    f5 = [c04_gen.gen_f5_like(rng) for _ in range(ctx.pick(50, 400))] + [c04_gen.gen_self_alias(rng) for _ in range(ctx.pick(10, 80))]
    # stream 3: legs with zero-size blocks
    zs = []
    while len(zs) < ctx.pick(60, 500):
        c = c04_gen.gen_program(rng, empty_blocks=True)
        if any(0 in l['sizes'] for l in c['pool']):
            zs.append(c)
    # stream 4: helper functions called directly
    kcases = forced_kernel_cases() + gen_kernel_cases(rng, ctx.pick(2500, 20000) * mult) + gen_pipe_cases(rng, ctx.pick(250, 2000))
    # stream 4b: the merge loop of iadd_prefactor_other and itranspose, observed for the models of KernelsPyCy2/3.v
    kcases += gen_merge_cases(rng, ctx.pick(150, 1200) * mult) + gen_itrans_cases(rng, ctx.pick(150, 1200) * mult)
    # stream 5: tiny algorithm runs
    algos = [{'kind': 'dmrg', 'model': 'xxz', 'L': 4, 'Jz': 1.0}, {'kind': 'dmrg', 'model': 'tfi', 'L': 4, 'g': 0.7, 'mixer': True},
             {'kind': 'tebd', 'model': 'xxz', 'L': 4, 'Jz': 0.5, 'steps': 4, 'order': 2},
             {'kind': 'tebd', 'model': 'tfi', 'L': 5, 'g': 1.3, 'steps': 3, 'order': 4, 'conserve': None}]
    if ctx.thorough():
        algos += [{'kind': 'dmrg', 'model': 'xxz', 'L': 6, 'Jz': 0.3, 'hz': 0.1, 'mixer': True},
                  {'kind': 'dmrg', 'model': 'xxz', 'L': 5, 'Jz': 2.0, 'conserve': 'parity'},
                  {'kind': 'tebd', 'model': 'xxz', 'L': 6, 'Jz': 1.5, 'steps': 6, 'order': 4, 'conserve': None}]
    # stream 3b: binary operations on operands of different block sparsity continued by in-place operations on results and operands
    chains = [c['case'] for c in common.corpus_cases('C04') if c.get('stream') == 'inplace-chains']
    chains += [gen_inplace_chain(rng) for _ in range(ctx.pick(250, 2000) * mult)]
    # stream 3c: tensors without stored blocks in every dtype-changing operation (python / numpy-typed prefactors, all dtypes)
    bfree = [c04_gen.gen_blockfree_inplace(rng) for _ in range(ctx.pick(120, 1000) * mult)]
    # stream 3d: public indexing (scalars are the only rank-0 results; the Array class has no rank 0)
    index = [c04_gen.gen_indexing(rng) for _ in range(ctx.pick(100, 800) * mult)]
    # stream 3e: non-contiguous views (take_slice / a[:, i, :] / transposes / blocks handed over in Fortran order or as sub-views of a
    # larger buffer) as receivers and operands of every in-place and BLAS-backed kernel; the sliced source stays alive
    views = [c['case'] for c in common.corpus_cases('C04') if c.get('stream') == 'strided-views']
    views += [c04_gen.gen_strided_views(rng) for _ in range(ctx.pick(160, 1200) * mult)]
    # stream 3f: the input classes of every function with a compiled twin, stratified (see c04_gen.gen_pair_classes, c04_audit)
    pcs = [c['case'] for c in common.corpus_cases('C04') if c.get('stream') == 'pair-classes']
    pcs += [c04_gen.gen_pair_classes(rng, i) for i in range(ctx.pick(360, 2880) * mult)]
    prog_streams = [('programs', cases), ('permuted-label-sums', f5), ('zero-size-blocks', zs), ('inplace-chains', chains),
                    ('blockfree-dtype', bfree), ('indexing', index), ('strided-views', views), ('pair-classes', pcs)]
    items = ([('algos', c, 'algorithms') for c in algos] + [('programs', c, nm) for nm, cs in prog_streams for c in cs]
             + [('kernels', c, 'kernels:' + c['f']) for c in kcases])
    allout, infos = run_mixed(ctx, items, nchunks=ctx.pick(6, 12))
    mark('both-configurations')
    if allout is None:
        return ctx.finish(RULE)
    coverage_tables(ctx, infos)
    ctx.cov['configurations'] = infos
    mark('coverage-tables')

    def part(lo, n):
        return {cfg: allout[cfg][lo:lo + n] for cfg in ('py', 'cy')}
    o = len(algos)
    outa = part(0, o)
    ndiff = compare_programs(ctx, 'programs', cases, part(o, len(cases)))
    o += len(cases)
    ndiff += compare_programs(ctx, 'permuted-label-sums', f5, part(o, len(f5)))
    o += len(f5)
    ndiff += compare_programs(ctx, 'zero-size-blocks', zs, part(o, len(zs)))
    o += len(zs)
    ndiff += compare_programs(ctx, 'inplace-chains', chains, part(o, len(chains)))
    o += len(chains)
    ndiff += compare_programs(ctx, 'blockfree-dtype', bfree, part(o, len(bfree)))
    o += len(bfree)
    ndiff += compare_programs(ctx, 'indexing', index, part(o, len(index)))
    o += len(index)
    vstat = ctx.cov.setdefault('strided_view_kernel_calls', {})

    def views_nontrivial(c, p, y):
        vs = view_steps(c, y)
        for op, role, gaps in vs:
            k = '%s:%s:%s' % (op, 'receiver' if role == 'a' else 'operand', 'gaps' if gaps else 'permuted')
            vstat[k] = vstat.get(k, 0) + 1
        return bool(vs)
    ndiff += compare_programs(ctx, 'strided-views', views, part(o, len(views)), nontrivial=views_nontrivial)
    o += len(views)
    ndiff += compare_programs(ctx, 'pair-classes', pcs, part(o, len(pcs)))
    o += len(pcs)
    outk = part(o, len(kcases))
    # if something unexplained differs, intensify: as many programs again
    if ctx.violations and not ctx.thorough():
        more = [c04_gen.gen_program(rng, empty_blocks=False) for _ in range(nprog)]
        outm, _ = run_both(ctx, 'programs', more)
        if outm is not None:
            compare_programs(ctx, 'programs', more, outm)
    mark('compare-programs')
    coq_cases = {'py': [], 'cy': []}
    coq_idx = {'py': [], 'cy': []}
    coq_cases2 = {'py': [], 'cy': []}
    coq_idx2 = {'py': [], 'cy': []}
    coq_cases3 = {'py': [], 'cy': []}
    coq_idx3 = {'py': [], 'cy': []}
    if outk is not None:
        for i, (c, p, y) in enumerate(zip(kcases, outk['py'], outk['cy'])):
            f = c['f']
            if 'runner_error' in p or 'runner_error' in y or 'crash' in p or 'crash' in y:
                # an exception/crash of a helper on documented-valid arguments in one configuration only
                ep = 'crash' if 'crash' in p else ('error' if 'runner_error' in p else None)
                ey = 'crash' if 'crash' in y else ('error' if 'runner_error' in y else None)
                if ep != ey:
                    ctx.fail('oracle', 'helper %s: py %s / cy %s: %s' % (f, ep, ey, (p.get('runner_error') or y.get('runner_error') or '')[-300:]),
                             {'stream': 'kernels', 'case': c}, match_key='C04:%s:raises-in-one-configuration' % f)
                ctx.count('kernels', c, nontrivial=False)
                continue
            if f == 'itrans':
                # an Array with a duplicated label violates the class invariant: python raises where the compiled version
                # permutes (T04_itranspose_invalid_labels_refuted); not a difference between valid programs
                d = [] if c.get('force_labels') is not None else obs_diff(strip_layout(p), strip_layout(y), f)
            else:
                d = [] if p == y else obs_diff(p, y, f)
            nontriv = True
            if f == 'merge':
                nontriv = len(p.get('q', [])) > 0
            ctx.count('kernels:' + f, c, nontrivial=nontriv, sample=c if f not in ('pipe', 'merge', 'itrans') else None)
            if d:
                key = 'C04:%s:%s' % (f, ','.join(sorted(set(x.split('/')[-1] for x in d)))[:50])
                if f == 'find_row_differences' and c['shape'][0] == 0 and c['shape'][1] > 0:
                    key = 'C04:_find_row_differences:zero-rows'
                if f == 'make_valid' and d == ['make_valid/arg_unchanged']:
                    key = 'C04:make_valid:py-mutates-int64-array-argument'
                ctx.fail('oracle', 'helper %s differs between the configurations in %s: py %s, cy %s [%s]' % (f, d[:4], str(p)[:200], str(y)[:200], key),
                         {'stream': 'kernels', 'case': c, 'py': p, 'cy': y}, match_key=key)
            if f == 'merge' and (p.get('shares_b') or y.get('shares_b') or not p.get('b_unchanged_after_scale', True)
                                 or not y.get('b_unchanged_after_scale', True) or not p.get('b_unchanged', True) or not y.get('b_unchanged', True)):
                ctx.fail('oracle', 'a.iadd_prefactor_other(1., b): the sum shares block memory with b / b is modified by the sum or by a later '
                         'in-place scaling of the sum (py: shares %s, b intact %s/%s; cy: shares %s, b intact %s/%s)' % (
                             p.get('shares_b'), p.get('b_unchanged'), p.get('b_unchanged_after_scale'),
                             y.get('shares_b'), y.get('b_unchanged'), y.get('b_unchanged_after_scale')),
                         {'stream': 'kernels', 'case': c, 'py': p, 'cy': y}, match_key='C04:iadd_prefactor_other:operand-aliased-or-modified')
            if f == 'sliced_copy' and not (p.get('ok') and y.get('ok') and p.get('src_unchanged') and y.get('src_unchanged')):
                ctx.fail('oracle', '_sliced_copy differs from plain numpy slicing (py ok=%s, cy ok=%s)' % (p.get('ok'), y.get('ok')),
                         {'stream': 'kernels', 'case': c}, match_key='C04:_sliced_copy:wrong')
            if f == 'pipe' and not (p.get('pipe_facts_ok') and y.get('pipe_facts_ok')):
                ctx.fail('oracle', 'LegPipe._init_from_legs violates the documented q_map facts (py %s, cy %s)' % (p.get('pipe_facts_ok'), y.get('pipe_facts_ok')),
                         {'stream': 'kernels', 'case': c}, match_key='C04:LegPipe._init_from_legs:wrong')
            for cfg, o in (('py', p), ('cy', y)):
                lit = coq_kernel_case(c, o)
                if lit is not None:
                    coq_cases[cfg].append('(%s)' % lit)
                    coq_idx[cfg].append(i)
                lit2 = coq_kernel_case2(c, o)
                if lit2 is not None:
                    coq_cases2[cfg].append('(%s)' % lit2)
                    coq_idx2[cfg].append(i)
                lit3 = coq_kernel_case3(c, o)
                if lit3 is not None:
                    coq_cases3[cfg].append('(%s)' % lit3)
                    coq_idx3[cfg].append(i)
        # ---- the Coq models against BOTH configurations (tie K, twice)
        for cfg in ('py', 'cy'):
            bad, err = common.coq_failing_indices('cases_c04_' + cfg, ['Base.Prelude', 'Model.KernelsPyCy'], 'check_' + cfg,
                                                  coq_cases[cfg])
            if err:
                ctx.fail('correspondence', 'model evaluation failed (%s): %s' % (cfg, err[-600:]), None)
            for b in bad[:5]:
                i = coq_idx[cfg][b]
                k = None
                if cfg == 'py' and kcases[i]['f'] == 'find_row_differences' and kcases[i]['shape'][0] == 0:
                    k = None
                ctx.fail('correspondence', 'Model/KernelsPyCy.v (%s_%s) and the %s configuration disagree' % (kcases[i]['f'], cfg, cfg),
                         {'stream': 'kernels', 'case': kcases[i], 'impl': outk[cfg][i]}, match_key=k)
            ctx.cov['traces_validated_against_impl_' + cfg] = len(coq_cases[cfg])
            mark('coq-model-' + cfg)
            # second stream: LegPipe._init_from_legs and _sliced_copy (Model/KernelsPyCy2.v, KernelsPyCy3.v)
            bad2, err2 = common.coq_failing_indices('cases2_c04_' + cfg, ['Base.Prelude', 'Model.KernelsPyCy', 'Model.KernelsPyCy2',
                                                                          'Model.KernelsPyCy3', 'Model.KernelsPyCy2Check'],
                                                    'check2_' + cfg, coq_cases2[cfg], shard=150)
            if err2:
                ctx.fail('correspondence', 'model evaluation failed (kernels2, %s): %s' % (cfg, err2[-600:]), None)
            for b in bad2[:5]:
                i = coq_idx2[cfg][b]
                ctx.fail('correspondence', 'Model/KernelsPyCy2.v/KernelsPyCy3.v (%s_%s) and the %s configuration disagree' % (kcases[i]['f'], cfg, cfg),
                         {'stream': 'kernels', 'case': kcases[i], 'impl': outk[cfg][i]})
            ctx.cov['traces2_validated_against_impl_' + cfg] = len(coq_cases2[cfg])
            mark('coq-model2-' + cfg)
            # third stream: the merge of iadd_prefactor_other and itranspose (Model/KernelsPyCy3Check.v)
            bad3, err3 = common.coq_failing_indices('cases3_c04_' + cfg, ['Base.Prelude', 'Model.KernelsPyCy', 'Model.KernelsPyCy2',
                                                                          'Model.KernelsPyCy3', 'Model.KernelsPyCy3Check'],
                                                    'check3_' + cfg, coq_cases3[cfg], shard=150)
            if err3:
                ctx.fail('correspondence', 'model evaluation failed (kernels3, %s): %s' % (cfg, err3[-600:]), None)
            for b in bad3[:5]:
                i = coq_idx3[cfg][b]
                ctx.fail('correspondence', 'Model/KernelsPyCy2.v/KernelsPyCy3.v (%s_%s: %s) and the %s configuration disagree' % (
                    kcases[i]['f'], cfg, 'iadd_merge' if kcases[i]['f'] == 'merge' else 'itranspose', cfg),
                    {'stream': 'kernels', 'case': kcases[i], 'impl': outk[cfg][i]})
            ctx.cov['traces3_validated_against_impl_' + cfg] = len(coq_cases3[cfg])
            ctx.cov['traces3_by_kernel_' + cfg] = {k: sum(1 for i in coq_idx3[cfg] if kcases[i]['f'] == k) for k in ('merge', 'itrans')}
            mark('coq-model3-' + cfg)
        ctx.cov['traces_validated_against_impl'] = (len(coq_cases['py']) + len(coq_cases['cy'])
                                                    + len(coq_cases2['py']) + len(coq_cases2['cy'])
                                                    + len(coq_cases3['py']) + len(coq_cases3['cy']))
    if outa is not None:
        for c, p, y in zip(algos, outa['py'], outa['cy']):
            ctx.count('algorithms', c, nontrivial=True, sample={'case': c, 'E_py': p.get('E'), 'E_cy': y.get('E')})
            if 'runner_error' in p or 'runner_error' in y or 'crash' in p or 'crash' in y:
                same = ('runner_error' in p) == ('runner_error' in y) and ('crash' in p) == ('crash' in y)
                ctx.fail('oracle' if not same else 'correspondence', 'algorithm run failed: py %s | cy %s' % (
                    str(p.get('runner_error') or p.get('crash'))[-300:], str(y.get('runner_error') or y.get('crash'))[-300:]),
                    {'stream': 'algorithms', 'case': c}, match_key='C04:algorithm-run-fails')
                continue
            probs = []
            for k in ('E', 'E_mpo'):
                if k in p and abs(p[k] - y[k]) > 1e-10 * max(1, abs(p[k])):
                    probs.append('%s: py %.15g cy %.15g' % (k, p[k], y[k]))
            if 'E_exact' in p:
                for cfg, o in (('py', p), ('cy', y)):
                    if abs(o['E'] - o['E_exact']) > 1e-8:
                        probs.append('%s energy %.12g differs from exact diagonalisation %.12g' % (cfg, o['E'], o['E_exact']))
            for k in ('S', 'Sz'):
                if len(p[k]) != len(y[k]) or any(abs(a - b) > 1e-8 for a, b in zip(p[k], y[k])):
                    probs.append('%s differs: py %s cy %s' % (k, p[k], y[k]))
            if p['chi'] != y['chi']:
                probs.append('bond dimensions differ: %s vs %s' % (p['chi'], y['chi']))
            if p['legs'] != y['legs']:
                probs.append('leg charges of the final MPS tensors differ')
            if probs:
                ctx.fail('oracle', 'algorithm run %s differs between the configurations: %s' % (c, '; '.join(probs)[:500]),
                         {'stream': 'algorithms', 'case': c, 'py': {k: p[k] for k in p if k != 'legs'}, 'cy': {k: y[k] for k in y if k != 'legs'}},
                         match_key='C04:algorithm:%s-%s' % (c['kind'], c['model']))
    ctx.cov['first_differences_found'] = ndiff
    ctx.assumptions += [
        'C04 kernel models (coq/Model/KernelsPyCy.v): charges/shapes are mathematical integers; the compiled variants wrap to '
        'int64 explicitly and the theorems assume |q| < 2^62 resp. products < 2^63',
        'C04 not modelled in Coq: the BLAS arithmetic of iadd_prefactor_other (its block merge and itranspose ARE modelled and executed '
        'against both configurations: Model/KernelsPyCy3Check.v), the combine/split/tensordot/inner workers (compared differentially on '
        'identical programs only); the memory layout (contiguity) of result blocks is not itself diffed, but stream strided-views feeds '
        'non-contiguous blocks (sliced sub-views with gaps, permuted buffers, Fortran order) into every in-place / BLAS-backed kernel',
        'C04: effects of in-place writes through shallow copies are excluded from the differential (documented as unspecified by Array.copy; '
        'they are the subject of C03); likewise the memory-sharing relation is diffed only for pairs of tensors that are NOT related by '
        'a documented shallow copy (copy(deep=False), sort_legcharge, unary_blockwise)',
        'C04: non-finite values: prefactors are generated finite, and a complex entry with a NaN in either component counts as NaN as a '
        'whole when results are compared (the Python twin multiplies real blocks by a real prefactor before promoting, the compiled twin '
        'promotes first: nan + 0j versus nan + nan j, inf versus inf + nan j are both IEEE-correct images of the same non-finite number)',
        'C04 coverage audit: the optimization level (tenpy.tools.optimization) is a second, documented global switch; valid programs are also '
        'run at level 3 (skip_arg_checks), invalid programs only at the default level (level 3 documents undefined behaviour for them)',
        'C04: charges._sliced_copy is generated with ndim >= 1 only.  With ndim = 0 the helper differs (numpy copies the element, the '
        'compiled code returns at `if ndim < 1`; Coq witness T04_sliced_copy_rank0_refuted), but that input is outside the quantifier: '
        'its only callers (_combine_legs_worker, _split_legs_worker) pass blocks of an Array, the Array class rejects rank 0 '
        '("can\'t have 0-rank Tensor"), and public indexing with an integer on every axis / squeeze of a one-element tensor return a '
        'scalar without calling it (stream indexing runs exactly these calls in both configurations: no difference)',
    ]
    return ctx.finish(RULE, 'identical serialised programs and helper calls are run in a pure-Python and a freshly rebuilt compiled '
                      'interpreter and every observable (legs incl. pipe tables, labels, qtotal, dtype, block set, values, error class) '
                      'is diffed, and so are the relation "live tensors i, j share block memory" and the set of other live tensors changed by each step '
                      '(hidden aliasing); the Coq models of both variants of make_valid/check_valid/_find_row_differences/_make_stride/_map_blocks, '
                      'LegPipe._init_from_legs, _sliced_copy, the merge of iadd_prefactor_other and itranspose are proved equal and each is '
                      'evaluated (vm_compute) against its configuration')


def replay(ctx):
    """./check C04 --replay file: re-run the recorded input in both configurations"""
    import json
    doc = json.load(open(ctx.replay_in))
    inp = doc.get('input') or {}
    case = inp.get('case')
    if case is None:
        print('replay: the file names no input (%s)' % doc.get('what', '')[:200])
        return ctx.finish(RULE)
    if inp.get('stream') == 'kernels':
        out, _ = run_both(ctx, 'kernels', [case], nchunks=1)
        if out is not None:
            p, y = out['py'][0], out['cy'][0]
            print('py:', str(p)[:400])
            print('cy:', str(y)[:400])
            if p != y and obs_diff(p, y, case['f']):
                ctx.fail('oracle', 'helper %s differs between the configurations: %s' % (case['f'], obs_diff(p, y, case['f'])[:4]),
                         {'stream': 'kernels', 'case': case, 'py': p, 'cy': y})
    elif inp.get('stream') == 'algorithms':
        out, _ = run_both(ctx, 'algos', [case], nchunks=1)
        print(out)
    else:
        out, _ = run_both(ctx, 'programs', [case], nchunks=1)
        if out is not None:
            compare_programs(ctx, inp.get('stream', 'programs'), [case], out)
    return ctx.finish(RULE, 'replay of ' + ctx.replay_in)


RULE = ('programs: random programs of 4-8 steps over tensors of rank 1-4 with 0-3 charges (mod 1..5), both qconj, unsorted/duplicated '
        'leg charges, missing and all-zero blocks, non-zero qtotal, dtypes float32/64 complex64/128 int64, small-integer entries; a '
        'program is non-trivial when at least one non-constructor step executed; distinct = distinct serialised program.  inplace-chains: '
        '2-4 operands with equal legs/labels/qtotal and independent block sparsity, sums/differences/axpy with prefactors 1,-1,2,1j, '
        'then in-place scalings and additions on results and operands.  blockfree-dtype: a tensor without stored blocks (each of the 5 '
        'dtypes) and 1-2 partners with equal legs as receivers/operands of *=, /=, iscale_prefactor, *, /, +, -, +=, -=, '
        'iadd_prefactor_other with python and numpy-typed prefactors, (i)unary_blockwise, astype, negation, complex_conj, norm.  indexing: '
        'a[...] with int/slice/mask/index array/Ellipsis per axis, a[i, j, ..] = v, take_slice, squeeze (scalar results included).  '
        'strided-views: a tensor of rank 2-4 with blocks of size 1-4 per leg (handed over C-contiguous, in Fortran order or as sub-views of a '
        'larger buffer), views of it by take_slice / a[:, i, :] on mostly middle and last axes (also views of views, transposes, masks, '
        'iproject, squeeze, from_ndarray of a strided ndarray), then *=, /=, iscale_prefactor, +=, -=, iadd_prefactor_other, itranspose, '
        'iconj, tensordot, inner (also the workers directly), combine_legs with the fresh view as receiver AND as operand, partners with '
        'equal legs/qtotal (another slice of the same charge block, a new tensor, a copy); non-trivial when the compiled run executed at '
        'least one such kernel on a tensor with non-C-contiguous blocks.  pair-classes: 18 deterministic strata (c04_gen.gen_pair_classes) over '
        'the input classes of the 16 paired functions: tensordot with integer axes (dtype pair x layout x sortedness x 0-2 charges, fully '
        'contracted operands, 3 contracted legs, > 64 result blocks), combine/split (rank 3-6, layouts, nested pipes, no blocks), '
        'iadd_prefactor_other (dtype pair x prefactor class x same object / shallow copy / equal views / equal block tables x merge arms x '
        'layouts + error classes), iscale_prefactor (dtype x prefactor class incl. non-scalars x layout), inner (dtype pair x do_conj x layout x '
        'sortedness x disjoint blocks), argument forms and error classes of tensordot/inner, valid programs at optimization level 3; results '
        'are used again.  coverage_audit (evidence): pair x input class -> calls per configuration and streams, branch table of the .pyx, line '
        'table of the Python twins; any hole is a failure.  kernels: '
        'generated arguments of the helper functions (non-trivial always).  Each case is executed in BOTH configurations.')
