"""Machinery shared by harness/c01.py and harness/c02.py: run the programs of npc_gen.py in fresh interpreters
(both configurations), survive hard crashes of the compiled extension, collect failures, build Coq cases."""
import json
import os
import subprocess
import time

import common
import npc_gen


def _run_chunk(kind, programs, config, optimize0, tag):
    """run one chunk; on a hard crash of the interpreter record it and continue behind the crashing program.
    returns (results aligned with programs, info, crash records)"""
    d = common.scratch()
    results = [None] * len(programs)
    crashes = []
    info = {}
    start = 0
    guard = 0
    while start < len(programs) and guard < 40:
        guard += 1
        base = os.path.join(d, 'npc_%s_%d' % (tag, guard))
        fin, fout, fprog, fpart = base + '.in', base + '.out', base + '.progress', base + '.partial'
        with open(fin, 'w') as f:
            json.dump({'kind': kind, 'config': config, 'programs': programs[start:], 'progress': fprog, 'partial': fpart}, f)
        env = common.impl_env(config, optimize0)
        rc, out = common.sh([common.PY, os.path.join(common.VERIF, 'harness', 'impl', 'c01_impl.py'), fin, fout], timeout=1500, env=env, cwd=d)
        if rc == 0 and os.path.exists(fout):
            doc = json.load(open(fout))
            info = doc['info']
            for i, r in enumerate(doc['results']):
                results[start + i] = r
            start = len(programs)
            break
        # crashed: which program / operation?
        pos = None
        if os.path.exists(fprog):
            try:
                pos = json.load(open(fprog))
            except Exception:
                pos = None
        done = []
        if os.path.exists(fpart):
            try:
                done = json.load(open(fpart))['results']
            except Exception:
                done = []
        if pos is None:
            crashes.append({'index': start, 'rc': rc, 'out': out[-600:], 'pos': None})
            results[start] = {'seed': programs[start].get('seed'), 'ops': [], 'fails': [], 'coq': [], 'stats': {}, 'nsteps': 0}
            start += 1
            continue
        ci = start + pos['program']
        for i, r in enumerate(done[:pos['program']]):
            results[start + i] = r
        # programs between the last partial dump and the crash are re-run together with the rest
        first_missing = start + min(len(done), pos['program'])
        crashes.append({'index': ci, 'rc': rc, 'out': out[-300:], 'pos': pos})
        results[ci] = {'seed': programs[ci].get('seed'), 'ops': pos['ops'], 'fails': [], 'coq': [], 'stats': {}, 'nsteps': len(pos['ops']), 'crashed': True}
        if first_missing < ci:
            # run the skipped ones separately (they are known not to crash)
            sub, _, _ = _run_chunk(kind, programs[first_missing:ci], config, optimize0, tag + 'r%d' % guard)
            for i, r in enumerate(sub):
                results[first_missing + i] = r
        start = ci + 1
    for i, r in enumerate(results):
        if r is None:
            results[i] = {'seed': programs[i].get('seed'), 'ops': [], 'fails': [{'prop': 'runner', 'key': 'runner:not-run', 'what': 'program not executed', 'step': -1, 'config': config}],
                          'coq': [], 'stats': {}, 'nsteps': 0}
    return results, info, crashes


def run_programs(kind, programs, config, optimize0, nchunks=None):
    from concurrent.futures import ThreadPoolExecutor
    nchunks = nchunks or max(1, min(common.NPROC, len(programs) // 8 or 1))
    chunks = [list(range(i, len(programs), nchunks)) for i in range(nchunks)]
    if config == 'cy':
        common.cy_build()
    results = [None] * len(programs)
    crashes, infos = [], []
    with ThreadPoolExecutor(max_workers=nchunks) as ex:
        futs = [ex.submit(_run_chunk, kind, [programs[j] for j in ch], config, optimize0, '%s%d_%d' % (config, int(optimize0), ci))
                for ci, ch in enumerate(chunks)]
        for ch, fu in zip(chunks, futs):
            res, info, cr = fu.result()
            infos.append(info)
            for j, r in zip(ch, res):
                results[j] = r
            for c in cr:
                c['index'] = ch[c['index']]
                crashes.append(c)
    return results, infos, crashes


def crash_key(prop, c):
    pos = c['pos']
    if pos is None:
        return prop + ':?:-:interpreter-crash'
    o = pos['op']
    name = o['op']
    if name in ('tensordot', 'inner') and pos.get('struct') == 'empty-block':
        return '%s:tensordot|inner:empty-block:raises-or-crash' % prop
    return '%s:%s:%s:interpreter-crash' % (prop, name, pos.get('struct') or '-')


def case_of(program, res, step, config, optimize0, kind='programs'):
    p = {k: v for k, v in program.items() if k != 'ops'}
    p['ops'] = res['ops'][:step + 1] if step >= 0 else res['ops']
    return {'stream': kind, 'config': config, 'optimize0': optimize0, 'program': p}


def collect(ctx, prop, stream, programs, results, crashes, config, optimize0, kind='programs', seen_keys=None):
    """turn runner output into ctx.count / ctx.fail calls for property `prop`"""
    seen_keys = seen_keys if seen_keys is not None else {}
    hist = {}
    notes = {}
    for pi, (prog, res) in enumerate(zip(programs, results)):
        for k, v in res['stats'].items():
            hist[k] = hist.get(k, 0) + v
        nontriv = res['stats'].get('nontrivial', 0) > 0 or kind == 'legs'
        ctx.count(stream, [prog.get('seed'), [o['op'] for o in res['ops']]], nontrivial=nontriv and res['nsteps'] > 0,
                  sample={'mods': prog.get('mods'), 'ops': [o['op'] + ('.' + o['kind'] if 'kind' in o else '') for o in res['ops']][:14]})
        ctx.cov['evaluations'] += max(0, res['nsteps'] - 1)
        for f in res['fails']:
            if f['prop'] == 'runner':
                ctx.fail('correspondence', 'runner failed (%s): %s' % (f['key'], f['what'][-700:]), case_of(prog, res, f['step'], config, optimize0, kind))
            elif f['prop'] == prop:
                n = seen_keys.get(f['key'], 0)
                seen_keys[f['key']] = n + 1
                if n < 3:
                    ctx.fail('oracle', '[%s%s] %s' % (config, ',optimize0' if optimize0 else '', f['what'][:900]),
                             case_of(prog, res, f['step'], config, optimize0, kind), match_key=f['key'])
            else:
                notes[f['key']] = notes.get(f['key'], 0) + 1
    for c in crashes:
        if prop != 'C01':       # a dead interpreter leaves no object to check: counted by C01 only
            notes['interpreter-crash'] = notes.get('interpreter-crash', 0) + 1
            continue
        key = crash_key(prop, c)
        prog = programs[c['index']]
        res = results[c['index']]
        n = seen_keys.get(key, 0)
        seen_keys[key] = n + 1
        if n < 3:
            what = '[%s] the interpreter died (exit %s) while executing %s' % (config, c['rc'], json.dumps(c['pos']['op'])[:300] if c['pos'] else '?')
            ctx.fail('oracle', what, case_of(prog, res, -1, config, optimize0, kind), match_key=key)
    return hist, notes


# ---------------------------------------------------------------------------------------------
# Coq literals for the correspondence with coq/Model/Tensor.v, TensorOps.v
# ---------------------------------------------------------------------------------------------

def _z(x):
    return int(round(x))


def coq_storage(st):
    """(legs, qtotal, blocks, sorted-flag) ; leg = (sizes, charges, qconj) ; block = (qindices, shape, values (re, im))"""
    legs = [(list(map(int, l['sizes'])), [list(map(int, c)) for c in l['charges']], int(l['qconj'])) for l in st['legs']]
    blocks = [(list(map(int, b['q'])), list(map(int, b['shape'])), [(_z(r), _z(i)) for r, i in zip(b['re'], b['im'])]) for b in st['blocks']]
    return (legs, list(map(int, st['qtotal'])), blocks, bool(st['sorted']))


def coq_dense(st):
    return [(_z(r), _z(i)) for r, i in zip(st['dense_re'], st['dense_im'])]


def _is_int(x):
    return abs(x - round(x)) == 0


def coq_case(rec):
    """Coq literal of one recorded operation, or None if outside the fragment the model covers."""
    from common import coq_lit
    o = rec['args']
    name = rec['op']
    ops = rec['operands']
    A = ops[0]
    rank = len(A['legs'])

    def ax(labels, x, r):
        if isinstance(x, str):
            return labels.index(x) if x in labels else None
        return x + r if x < 0 else x
    code = None
    if name == 'transpose':
        if o['axes'] is None:
            perm = list(range(rank))[::-1]
        else:
            perm = [ax(A['labels'], x, rank) for x in o['axes']]
        if None in perm:
            return None
        code = (0, perm, [], (0, 0))
    elif name == 'conj':
        if not o['complex_conj']:
            return None
        code = (1, [], [], (0, 0))
    elif name == 'scale':
        s = npc_gen.dec_scalar(o['s'])
        s = complex(s)
        if o['kind'] in ('div', 'idiv'):
            return None
        if o['kind'] == 'neg':
            s = complex(-1)
        if not (_is_int(s.real) and _is_int(s.imag)):
            return None
        code = (2, [], [], (_z(s.real), _z(s.imag)))
    elif name == 'add':
        if o.get('cond'):
            return None
        al = getattr(npc_gen, 'ADD_KINDS', {'add': 1, 'iadd': 1, 'sub': -1, 'isub': -1}).get(o['kind'])
        if al is None:
            al = complex(npc_gen.dec_scalar(o['alpha']))
        al = complex(al)
        if not (_is_int(al.real) and _is_int(al.imag)):
            return None
        code = (3, [], [], (_z(al.real), _z(al.imag)))
    elif name == 'outer':
        code = (4, [], [], (0, 0))
    elif name == 'tensordot':
        B = ops[1]
        a = o['axes']
        if isinstance(a, int):
            ia, ib = list(range(rank - a, rank)), list(range(a))
        else:
            ia = [ax(A['labels'], x, rank) for x in npc_gen.as_list(a[0])]
            ib = [ax(B['labels'], x, len(B['legs'])) for x in npc_gen.as_list(a[1])]
        if None in ia or None in ib:
            return None
        if len(ia) == rank and len(ib) == len(B['legs']):
            return None
        code = (5, ia, ib, (0, 0))
    else:
        return None
    Bst = coq_storage(ops[1]) if len(ops) > 1 else coq_storage(ops[0])
    return coq_lit((rec['mods'], code, coq_storage(A), Bst, coq_storage(rec['result']), coq_dense(rec['result'])))


def coq_case2(rec):
    """Coq literal (type case2 of Model/TensorProgCheck.v) of one recorded iswapaxes / gauge_total_charge / one-axis take_slice,
    or None if outside the fragment the model covers."""
    from common import coq_lit
    o = rec['args']
    name = rec['op']
    A = rec['operands'][0]
    rank = len(A['legs'])

    def ax(x):
        if isinstance(x, str):
            return A['labels'].index(x) if x in A['labels'] else None
        x = int(x)
        return x + rank if x < 0 else x
    if name == 'iswapaxes':
        i, j = ax(o['axis1']), ax(o['axis2'])
        if i is None or j is None:
            return None
        code = (6, [i, j], [])
    elif name == 'gauge_total_charge':
        i = ax(o['axis'])
        if i is None:
            return None
        nqc = o['new_qconj'] if o['new_qconj'] is not None else A['legs'][i]['qconj']
        newq = [0] * len(rec['mods']) if o['newqtotal'] is None else [int(c) for c in o['newqtotal']]
        code = (7, [i, int(nqc)], newq)
    elif name == 'getitem' and o.get('take_slice') and not isinstance(o.get('indices'), list) and not isinstance(o.get('axes'), list):
        i = ax(o['axes'])
        idx = int(o['indices'])
        if i is None or idx < 0:
            return None
        code = (8, [i, idx], [])
    else:
        return None
    return coq_lit((rec['mods'], code, coq_storage(A), coq_storage(rec['result']), coq_dense(rec['result'])))
