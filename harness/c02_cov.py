"""C02 - line coverage of the pure-Python code of tenpy/linalg/np_conserved.py and tenpy/linalg/charges.py inside the runner processes.

Runner side (fresh interpreter, kind 'c02x' of harness/impl/c01_impl.py): `start()` switches on sys.monitoring LINE events (every location
fires once and is disabled afterwards: negligible overhead), `flush()` returns the lines hit since the last flush.
Harness side: `function_table(repo)` enumerates, from the SOURCE (compile + walk of the code objects, no import), every function / method of
the two files with its executable lines; `classify` separates the lines that cannot return or modify an object (raise statements, ...).
"""
import ast
import os
import sys

FILES = {'np_conserved': 'tenpy/linalg/np_conserved.py', 'charges': 'tenpy/linalg/charges.py'}
TOOL = 3
_state = {'on': False, 'hits': set(), 'sent': set()}


# ------------------------------------------------------------------------------------------------------------------
# runner side
# ------------------------------------------------------------------------------------------------------------------

def _short(filename):
    for short, rel in FILES.items():
        if filename.endswith(rel):
            return short
    return None


def start():
    if _state['on']:
        return
    mon = sys.monitoring
    cache = {}

    def on_line(code, line):
        fn = code.co_filename
        s = cache.get(fn)
        if s is None:
            s = cache[fn] = _short(fn) or ''
        if s:
            _state['hits'].add((s, line))
        return mon.DISABLE

    mon.use_tool_id(TOOL, 'c02cov')
    mon.register_callback(TOOL, mon.events.LINE, on_line)
    mon.set_events(TOOL, mon.events.LINE)
    _state['on'] = True


def source_sha(path):
    import hashlib
    try:
        return hashlib.sha1(open(path, 'rb').read()).hexdigest()
    except OSError:
        return None


def runner_sources():
    """sha1 of the two source files as imported by this runner process (the tree may change while a long check is running)"""
    import importlib
    out = {}
    for short in FILES:
        try:
            m = importlib.import_module('tenpy.linalg.' + short)
            if 'sha' not in _state:
                _state['sha'] = {}
            if short not in _state['sha']:
                _state['sha'][short] = source_sha(m.__file__)
            out[short] = _state['sha'][short]
        except Exception:
            out[short] = None
    return out


def flush():
    new = _state['hits'] - _state['sent']
    _state['sent'] |= new
    out = {}
    for s, l in new:
        out.setdefault(s, []).append(l)
    return {k: sorted(v) for k, v in out.items()}


# ------------------------------------------------------------------------------------------------------------------
# harness side: executable lines per function, from the source
# ------------------------------------------------------------------------------------------------------------------

def _walk_code(co, out, top=True):
    lines = {l for (_, _, l) in co.co_lines() if l is not None}
    if not top:
        lines.discard(co.co_firstlineno)        # `def` line (RESUME): belongs to the enclosing scope
        name = co.co_qualname
        out.setdefault(name, set()).update(lines)
    for c in co.co_consts:
        if hasattr(c, 'co_code'):
            _walk_code(c, out, False)


def _ast_info(tree):
    """line classes from the syntax tree: lines inside `raise` / `assert` / `warnings.warn` statements, doc strings, and the line span +
    kind (function / class) of every definition"""
    raise_lines, warn_lines = set(), set()
    spans = {}

    def visit(node, qual):
        for ch in ast.iter_child_nodes(node):
            q = qual
            if isinstance(ch, (ast.FunctionDef, ast.AsyncFunctionDef, ast.ClassDef)):
                q = (qual + '.' if qual else '') + ch.name
                if isinstance(ch, ast.ClassDef):
                    spans[q] = ('class', ch.lineno, ch.end_lineno)
                else:
                    spans[q] = ('function', ch.lineno, ch.end_lineno)
                    q = q + '.<locals>'
            if isinstance(ch, (ast.Raise, ast.Assert)):
                raise_lines.update(range(ch.lineno, ch.end_lineno + 1))
            # a statement list that ends with `raise`: the whole list is an error path (message construction before the raise)
            for field in ('body', 'orelse', 'finalbody'):
                body = getattr(ch, field, None)
                if isinstance(body, list) and body and isinstance(body[-1], ast.Raise) and not isinstance(ch, (ast.FunctionDef, ast.ClassDef)):
                    raise_lines.update(range(body[0].lineno, body[-1].end_lineno + 1))
            if isinstance(ch, ast.ExceptHandler) and ch.body and isinstance(ch.body[-1], ast.Raise):
                raise_lines.update(range(ch.lineno, ch.body[-1].end_lineno + 1))
            if isinstance(ch, ast.Expr) and isinstance(ch.value, ast.Call):
                f = ch.value.func
                nm = f.attr if isinstance(f, ast.Attribute) else getattr(f, 'id', '')
                if nm == 'warn':
                    warn_lines.update(range(ch.lineno, ch.end_lineno + 1))
            visit(ch, q)
    visit(tree, '')
    return raise_lines, warn_lines, spans


def function_table(repo):
    """{short: {qualname: {'lines': [...], 'raise': [...], 'warn': [...], 'first': lineno}}} for all functions / methods (incl. nested ones,
    lambdas, comprehensions: attributed to the enclosing named function) of the two files; class bodies and module level are not listed"""
    table = {}
    for short, rel in FILES.items():
        path = os.path.join(repo, rel)
        src = open(path).read()
        co = compile(src, path, 'exec')
        raw = {}
        _walk_code(co, raw)
        raise_lines, warn_lines, spans = _ast_info(ast.parse(src))
        funcs = {}
        for qual, lines in raw.items():
            # attribute lambdas / comprehensions / nested functions to the outermost named function
            parts = qual.split('.')
            owner = None
            for k in range(1, len(parts) + 1):
                cand = '.'.join(parts[:k])
                if spans.get(cand, ('',))[0] == 'function':
                    owner = cand
                    break
            if owner is None:
                continue        # class body / module level comprehension
            f = funcs.setdefault(owner, {'lines': set(), 'first': spans[owner][1]})
            f['lines'].update(lines)
        for owner, f in funcs.items():
            ls = f['lines']
            f['raise'] = sorted(ls & raise_lines)
            f['warn'] = sorted(ls & warn_lines)
            f['lines'] = sorted(ls)
        table[short] = funcs
    return table


def is_public(qual):
    """public = no component with a single leading underscore (dunder methods are public operations: __getitem__, __iadd__, ...)"""
    for p in qual.split('.'):
        if p.startswith('_') and not (p.startswith('__') and p.endswith('__')):
            return False
    return True


def source_line(repo, short, line, _cache={}):
    key = (repo, short)
    if key not in _cache:
        _cache[key] = open(os.path.join(repo, FILES[short])).read().split('\n')
    ls = _cache[key]
    return ls[line - 1].strip() if 0 < line <= len(ls) else ''


# ------------------------------------------------------------------------------------------------------------------
# option recording: which values do the parameters of the public functions / methods take in the runner processes
# ------------------------------------------------------------------------------------------------------------------

DUNDERS = ('__getitem__', '__setitem__', '__init__', '__add__', '__iadd__', '__sub__', '__isub__', '__mul__', '__rmul__', '__imul__', '__truediv__',
           '__itruediv__', '__neg__', '__eq__', '__setstate__', '__getstate__', '__iter__')
_params = {'seen': set(), 'sent': set(), 'on': False}


def value_class(v):
    if v is None or isinstance(v, (bool,)):
        return repr(v)
    t = type(v).__name__
    if isinstance(v, str):
        return 'str:' + v if len(v) <= 12 else 'str'
    if t in ('int', 'int64', 'int32', 'intp'):
        return 'int:%d' % v if -1 <= v <= 1 else 'int'
    if t in ('float', 'float64', 'float32'):
        return 'float:%g' % v
    if t == 'dict':
        return 'dict' if v else 'dict:empty'
    if t in ('complex', 'complex128', 'complex64'):
        return 'complex'
    if t in ('list', 'tuple'):
        if not len(v):
            return t + ':empty'
        return '%s[%s]' % (t, value_class(v[0]).split(':')[0])
    if t == 'ndarray':
        return 'ndarray:%s%d' % (v.dtype.kind, v.ndim)
    if t in ('dtype', 'type'):
        try:
            import numpy
            return 'dtype:' + numpy.dtype(v).name
        except Exception:
            return t
    if callable(v) and t in ('function', 'builtin_function_or_method', 'ufunc', 'method', 'partial'):
        return 'callable'
    return t


def _wrap(func, qual):
    import functools
    import inspect
    try:
        sig = inspect.signature(func)
    except (TypeError, ValueError):
        return None
    names = [p.name for p in sig.parameters.values() if p.kind in (p.POSITIONAL_ONLY, p.POSITIONAL_OR_KEYWORD)]
    tracked = {p.name for p in sig.parameters.values() if p.default is not p.empty}
    if not tracked:
        tracked = set()
    seen = _params['seen']

    @functools.wraps(func)
    def w(*a, **kw):
        try:
            seen.add((qual, '', 'called'))
            given = set()
            for n, v in zip(names, a):
                if n in tracked:
                    seen.add((qual, n, value_class(v)))
                    given.add(n)
            for n, v in kw.items():
                if n in tracked:
                    seen.add((qual, n, value_class(v)))
                    given.add(n)
            for n in tracked - given:
                seen.add((qual, n, '<default>'))
        except Exception:
            pass
        return func(*a, **kw)
    w.__c02_wrapped__ = True
    return w


def install_param_recorder():
    """wrap the public functions of np_conserved / charges and the public methods of their public classes (pure-Python configuration only)"""
    if _params['on']:
        return
    _params['on'] = True
    import importlib
    import inspect
    for short in FILES:
        mod = importlib.import_module('tenpy.linalg.' + short)
        for n in list(getattr(mod, '__all__', [])):
            o = getattr(mod, n, None)
            if inspect.isclass(o) and o.__module__ == mod.__name__:
                for k, v in list(o.__dict__.items()):
                    if k.startswith('_') and k not in DUNDERS:
                        continue
                    qual = '%s.%s.%s' % (short, n, k)
                    if isinstance(v, classmethod):
                        w = _wrap(v.__func__, qual)
                        if w is not None:
                            setattr(o, k, classmethod(w))
                    elif isinstance(v, staticmethod):
                        w = _wrap(v.__func__, qual)
                        if w is not None:
                            setattr(o, k, staticmethod(w))
                    elif inspect.isfunction(v):
                        w = _wrap(v, qual)
                        if w is not None:
                            setattr(o, k, w)
            elif inspect.isfunction(o) and o.__module__ == mod.__name__:
                w = _wrap(o, '%s.%s' % (short, n))
                if w is not None:
                    setattr(mod, n, w)


def flush_params():
    new = _params['seen'] - _params['sent']
    _params['sent'] |= new
    return sorted(list(t) for t in new)


def signature_table(repo):
    """{short: {qualname: [(param, default source text)]}} of all functions with at least one defaulted parameter, from the source (AST)"""
    out = {}
    for short, rel in FILES.items():
        src = open(os.path.join(repo, rel)).read()
        tree = ast.parse(src)
        sigs = {}

        def visit(node, qual):
            for ch in ast.iter_child_nodes(node):
                if isinstance(ch, ast.ClassDef):
                    visit(ch, (qual + '.' if qual else '') + ch.name)
                elif isinstance(ch, (ast.FunctionDef, ast.AsyncFunctionDef)):
                    q = (qual + '.' if qual else '') + ch.name
                    if any((isinstance(dc, ast.Name) and dc.id == 'property') or (isinstance(dc, ast.Attribute) and dc.attr in ('setter', 'getter')) for dc in ch.decorator_list):
                        continue
                    a = ch.args
                    pos = a.posonlyargs + a.args
                    defaults = [None] * (len(pos) - len(a.defaults)) + list(a.defaults)
                    ps = [(p.arg, ast.unparse(d)) for p, d in zip(pos, defaults) if d is not None]
                    ps += [(p.arg, ast.unparse(d)) for p, d in zip(a.kwonlyargs, a.kw_defaults) if d is not None]
                    sigs[q] = ps
        visit(tree, '')
        out[short] = sigs
    return out


def options_table(repo, seen):
    """item x defaulted parameter -> value classes seen.  seen: iterable of (qual 'short.Class.method', param, value class).
    returns {qual: {'called': bool, 'params': {param: {'default': src, 'seen': [...], 'status': 'ok' | 'default-only' | 'one-bool-value' | 'not-called'}}}}"""
    by = {}
    called = set()
    for q, p, v in seen:
        if p == '':
            called.add(q)
        else:
            by.setdefault((q, p), set()).add(v)
    out = {}
    for short, sigs in signature_table(repo).items():
        for qual, ps in sigs.items():
            parts = qual.split('.')
            if not all((not x.startswith('_')) or x in DUNDERS for x in parts):
                continue
            full = short + '.' + qual
            entry = {'called': full in called, 'params': {}}
            for p, d in ps:
                vals = sorted(by.get((full, p), ()))
                dcls = None
                try:
                    dcls = value_class(ast.literal_eval(d))
                except Exception:
                    dcls = None
                eff = {d if v == '<default>' and d in ('True', 'False') else (dcls if v == '<default>' and dcls is not None else v) for v in vals}
                if full not in called:
                    st = 'not-called'
                elif d in ('True', 'False'):
                    st = 'ok' if {'True', 'False'} <= eff else ('default-only' if not eff - {d} else 'one-bool-value')
                else:
                    nd = [v for v in eff if v != dcls and v != '<default>']
                    st = 'ok' if nd else 'default-only'
                entry['params'][p] = {'default': d, 'seen': vals, 'status': st}
            out[full] = entry
    return out


# ------------------------------------------------------------------------------------------------------------------
# evaluation: coverage tables as evidence; unreached and unclassified = correspondence failure
# ------------------------------------------------------------------------------------------------------------------

# function -> {'*': reason} (whole function) or {stripped source text of the line: reason}; reasons quote the property text:
# C02 speaks about tensors / legs RETURNED or MODIFIED IN PLACE by public operations
HDF5 = {'*': 'HDF5 export / import: property C17'}
TEXT = {'*': 'returns a string (no tensor / leg returned or modified)'}
EXCLUDED = {
    'np_conserved.Array.save_hdf5': HDF5, 'np_conserved.Array.from_hdf5': HDF5, 'charges.ChargeInfo.save_hdf5': HDF5, 'charges.ChargeInfo.from_hdf5': HDF5,
    'charges.DipolarChargeInfo.save_hdf5': HDF5, 'charges.DipolarChargeInfo.from_hdf5': HDF5, 'charges.LegCharge.save_hdf5': HDF5, 'charges.LegCharge.from_hdf5': HDF5,
    'charges.LegPipe.save_hdf5': HDF5, 'charges.LegPipe.from_hdf5': HDF5,
    'np_conserved.Array.__repr__': TEXT, 'np_conserved.Array.__str__': TEXT, 'np_conserved.Array.sparse_stats': TEXT, 'charges.ChargeInfo.__repr__': TEXT,
    'charges.ChargeInfo.__str__': TEXT, 'charges.DipolarChargeInfo.__repr__': TEXT, 'charges.LegCharge.__repr__': TEXT, 'charges.LegCharge.__str__': TEXT,
    'charges.LegPipe.__repr__': TEXT, 'charges.LegPipe.__str__': TEXT,
    'np_conserved.Array._bunch': {'*': 'private helper without any caller in the tree (dead code)'},
    'np_conserved.Array._perm_qind': {'*': 'private helper without any caller in the tree (dead code)'},
    'np_conserved.to_iterable_arrays': {'*': 'returns its argument (as a list)'},
    'np_conserved._split_legs_worker': {'return res': 'unreachable: Array.split_legs handles tensors without blocks before calling the worker'},
    'np_conserved._tensordot_worker': {'return zeros(a.legs[:-axes] + b.legs[axes:], np.promote_types(a.dtype, b.dtype), a.qtotal + b.qtotal)':
                                       'unreachable through the public tensordot (operands without blocks are handled before the call)'},
    'charges._map_blocks': {'return np.zeros((0,), np.intp)': 'its only caller (_split_legs_worker) never passes an empty list (tensors without blocks are handled before)'},
    'charges._is_subgroup_by_qmod': {'return False': 'leads to the ValueError of DipolarChargeInfo.__init__ (invalid argument: no object)'},
    'np_conserved._svd_worker': dict.fromkeys(["warnings.warn('Svd (gesdd) gave NaNs. Try again with gesvd')", 'U_b, S_b, VH_b = svd_flat(',
                                               "block, full_matrices, True, overwrite_a, check_finite=True, lapack_driver='gesvd'", 'if anynan(U_b) or anynan(VH_b) or anynan(S_b):'],
                                              'fallback to the LAPACK driver gesvd after NaN from gesdd: needs a failing LAPACK call (property C05 stubs it)'),
    'np_conserved.Array.size': {'*': 'returns a number'}, 'np_conserved.Array.ndim': {'*': 'returns a number'}, 'np_conserved.Array.has_label': {'*': 'returns a bool'},
    'np_conserved.Array.is_completely_blocked': {'*': 'returns a bool'}, 'np_conserved.Array.__eq__': {'*': 'returns a bool'},
    'np_conserved.norm': {'*': 'returns a number'}, 'np_conserved.eigvalsh': {'*': 'returns an ndarray (property C05)'}, 'np_conserved.eigvals': {'*': 'returns an ndarray (property C05)'},
    'np_conserved._eigvals_worker': {'*': 'worker of eigvalsh / eigvals: returns an ndarray (property C05)'},
    'np_conserved.speigs': {'W = res': 'return_eigenvectors=False: returns an ndarray only', 'return W': 'return_eigenvectors=False: returns an ndarray only'},
    'np_conserved.Array.test_sanity': {'return': 'early return at optimization level skip_arg_checks'},
    'np_conserved.Array.__getitem__': {'return self.dtype.type(0)': 'element access: returns a number'},
    'np_conserved.Array.get_block': {'return None': 'get_block(insert=False) of a block that is not stored returns None (no object; the tensor is checked to be unchanged)'},
    'np_conserved._inner_worker': {"return res  # can't have blocks to be contracted.": 'full contraction of tensors whose total charges do not cancel: returns the number 0'},
    'np_conserved.inner': {'return np.sum([inner(w, v, axes=axes, do_conj=do_conj) for w, v in zip(a, b)])': 'lists of tensors: returns a number'},
    'np_conserved.Array.from_ndarray': {'option:raise_wrong_sector': 'raise_wrong_sector=True with entries in wrong sectors is the documented ValueError (no object); '
                                        'True without such entries is the default of every other call'},
}


def exclusion(full, text):
    e = EXCLUDED.get(full)
    if e is None:
        return None
    return e.get(text) or e.get('*')


def evaluate(ctx, repo, lines, params, all_hist, runner_src=None):
    import c02_depth
    # the line numbers of the runner processes refer to the source THEY imported: when the tree changed while the check was running the tables
    # cannot be matched against the current source (no hole is reported then; the situation is recorded in the notes)
    stale = sorted(short for short, shas in (runner_src or {}).items() if {x for x in shas if x} - {source_sha(os.path.join(repo, FILES[short]))})
    if stale:
        ctx.notes.append('coverage tables: %s changed while the check was running (runner processes imported different versions); the line table of this run is '
                         'not evaluated for holes - run the check again' % ', '.join(FILES[s_] for s_ in stale))
    # ---- 1. executable lines of every function of np_conserved.py / charges.py
    ftab = function_table(repo)
    rows, holes = {}, []
    tot = {'functions': 0, 'lines': 0, 'reached': 0, 'error_path_unreached': 0, 'excluded_unreached': 0, 'unclassified_unreached': 0}
    for short, funcs in ftab.items():
        hit = lines.get(short, set())
        for qual, f in sorted(funcs.items(), key=lambda kv: kv[1]['first']):
            full = short + '.' + qual
            ls = set(f['lines'])
            miss = sorted(ls - hit)
            err = [l for l in miss if l in f['raise']]
            excl, unc = {}, []
            for l in miss:
                if l in f['raise']:
                    continue
                text = source_line(repo, short, l)
                r = exclusion(full, text)
                if r is None and text.startswith('return NotImplemented'):
                    r = 'operand of an unknown type: Python raises TypeError, nothing is returned'
                if r is None:
                    unc.append('%d: %s' % (l, text[:110]))
                else:
                    excl.setdefault(r, []).append(l)
            tot['functions'] += 1
            tot['lines'] += len(ls)
            tot['reached'] += len(ls) - len(miss)
            tot['error_path_unreached'] += len(err)
            tot['excluded_unreached'] += sum(len(v) for v in excl.values())
            tot['unclassified_unreached'] += len(unc)
            if miss:
                rows[full] = {'public': is_public(qual), 'lines': len(ls), 'reached': len(ls) - len(miss), 'unreached_error_path (raise / assert: no object returned)': len(err),
                              'unreached_excluded': {r: len(v) for r, v in excl.items()}, 'unreached_unclassified': unc}
            if unc:
                holes.append('%s: %s' % (full, '; '.join(unc[:6]) + (' ...' if len(unc) > 6 else '')))
    ctx.cov['line_coverage'] = {'files': sorted(FILES.values()), 'measured': 'sys.monitoring LINE events in every runner process of the pure-Python configuration (all C02 streams)',
                                'summary': tot, 'functions_with_unreached_lines': rows}
    ctx.cov['line_coverage']['source_changed_during_run'] = bool(stale)
    for h in ([] if stale else holes[:12]):
        ctx.fail('correspondence', 'coverage hole (line recording): executable lines of %s are reached by no C02 stream and are not classified' % h, None)
    # ---- 2. documented options
    opt = options_table(repo, params)
    orows, oholes = {}, []
    osum = {'items': 0, 'options': 0, 'ok': 0, 'excluded': 0, 'holes': 0}
    for full, e in sorted(opt.items()):
        osum['items'] += 1
        for p, d in e['params'].items():
            osum['options'] += 1
            r = None
            if d['status'] != 'ok':
                r = exclusion(full, 'option:' + p) or exclusion(full, '*')
            if d['status'] == 'ok':
                osum['ok'] += 1
            elif r is not None:
                osum['excluded'] += 1
                d['excluded'] = r
            else:
                osum['holes'] += 1
                oholes.append('%s(%s=%s): %s, values seen %s' % (full, p, d['default'], d['status'], d['seen']))
        if not e['called'] and not e['params'] and exclusion(full, '*') is None and not any(full.endswith('.' + k) for k in ('__getstate__', '__iter__')):
            pass        # (functions without options: judged by the line table)
        orows[full] = {p: ('%s %s' % (d['status'], d['seen'])) + (' [excluded: %s]' % d['excluded'] if 'excluded' in d else '') for p, d in e['params'].items()}
    ctx.cov['option_coverage'] = {'measured': 'wrappers around the public functions / methods record the value class of every defaulted parameter (pure-Python configuration)',
                                  'summary': osum, 'table': {k: v for k, v in orows.items() if v}}
    for h in oholes[:12]:
        ctx.fail('correspondence', 'coverage hole (options): %s' % h, None)
    # ---- 3. input classes per item
    hists = [h for h in all_hist.values()]
    ctab = {}
    for item, d in c02_depth.class_table(hists).items():       # follow-up operations on a result ('item->add', ...) are counted with the item
        m = ctab.setdefault(item.split('->')[0], {})
        for c_, n_ in d.items():
            m[c_] = m.get(c_, 0) + n_
    ptab = c02_depth.class_table([all_hist.get('py', {}), all_hist.get('cy', {})])       # operands of the operations of the tensor programs
    for h in all_hist.values():
        for k in [k for k in h if k.startswith('in:')]:
            del h[k]
    never = [c for c in c02_depth.CLASSES if not any(d.get(c) for d in ctab.values())]
    weak = []
    for item, d in sorted(ptab.items()):
        n = max(d.values()) if d else 0
        if n < 40:
            continue
        for c in c02_depth.CORE_CLASSES:
            if not d.get(c) and (item, c) not in c02_depth.NOT_APPLICABLE and not any(item.startswith(p) and c == c2 for p, c2 in c02_depth.NOT_APPLICABLE_PREFIX):
                weak.append('%s|%s' % (item, c))
    ctx.cov['input_class_coverage'] = {'classes': list(c02_depth.CLASSES), 'items': len(ctab), 'classes_never_reached': never, 'core_classes_missing_for_frequent_items': weak,
                                       'table': {item: {c: d.get(c, 0) for c in c02_depth.CLASSES if d.get(c)} for item, d in sorted(ctab.items())}}
    for c in never:
        ctx.fail('correspondence', 'coverage hole (input classes): class %s reaches the invariant oracle through no operation' % c, None)
    for w in weak[:12]:
        ctx.fail('correspondence', 'coverage hole (input classes): %s (operation executed often, class of operands never drawn)' % w, None)
